#!/usr/bin/env python3
"""Self-test of the code-level tie (run by hand; results recorded in design.d/c2coq.md).

    python3 tools/c2coq.d/tie_selftest.py

Makes a scratch worktree of /repo (removed afterwards), applies each edit below to a translated C function,
re-translates into coq/theories/Gen/CLeaf_gen.v and compiles the Tie file of the engine.  Semantic edits must
change the generated file AND stop the Tie file from compiling; the syntactic edit must leave it compiling.

The shared Gen directory is rewritten, so every case runs under the Coq lock (coq/.lock, the lock
vlib.gen_translators takes) from the re-translation to the restore from /repo: nobody else's gen_translators can
interleave (other engineers run checks with VERIF_REPO set all the time, which flips Gen under a lock-free
sequence of `gen_translators(); coq_make(...)`)."""
import fcntl, hashlib, importlib.util, json, os, re, subprocess, sys
from pathlib import Path

VERIF = Path(__file__).resolve().parent.parent.parent
COQ = VERIF / "coq"
WT = Path("/tmp/wt-c2coq")
sys.path.insert(0, str(VERIF / "tools"))


def sh(cmd, **kw):
    return subprocess.run(cmd, shell=True, capture_output=True, text=True, **kw)


def translator():
    spec = importlib.util.spec_from_file_location("c2coq", VERIF / "tools" / "gen.d" / "c2coq.py")
    mod = importlib.util.module_from_spec(spec)
    spec.loader.exec_module(mod)
    return mod


def build(repo, ties):
    """translate repo into the live Gen and make the Tie files; caller holds the lock"""
    c2 = translator()
    c2.generate(str(repo), COQ / "theories" / "Gen")
    gen = COQ / "theories" / "Gen" / "CLeaf_gen.v"
    sha = hashlib.sha1(gen.read_bytes()).hexdigest()
    for suf in (".vo", ".vos", ".vok", ".glob"):
        q = gen.with_suffix(suf)
        if q.exists():
            q.unlink()
    out = {}
    for t in ties:
        p = sh("timeout 900 make theories/Gen/CLeaf_gen.vo theories/Tie/%s.vo" % t, cwd=COQ)
        txt = p.stdout + p.stderr
        m = re.search(r'File "[^"]*(Tie_\w+\.v)", line (\d+)[^\n]*\n(Error:.*?)(?:\n\n|\nmake|\Z)', txt, re.S)
        out[t] = (p.returncode == 0, (m.group(1) + ":" + m.group(2) + " " + " ".join(m.group(3).split())[:240]) if m else None)
    return sha, out


def edit(rel, old, new):
    p = WT / rel
    s = p.read_text()
    assert s.count(old) >= 1, (rel, old)
    p.write_text(s.replace(old, new, 1))


def syntactic():
    p = WT / "src/metadata/bloom_filter.c"
    s = p.read_text()
    i = s.index("static bool bloom_filter_block_check")
    j = s.index("return true;", i)
    p.write_text(s[:i] + s[i:j].replace("key", "k32") + s[j:])
    edit("src/core/bitpack.c", "    values[0] = (v >> 0) & 0x3;\n    values[1] = (v >> 2) & 0x3;\n",
         "    values[1] = (v >> 2) & 0x3;\n    values[0] = (v >> 0) & 0x3;\n")
    edit("src/util/xxhash.c", "    acc ^= val;\n    acc = acc * XXH_PRIME64_1 + XXH_PRIME64_4;\n    return acc;",
         "    uint64_t mixed = acc ^ val;\n    return mixed * XXH_PRIME64_1 + XXH_PRIME64_4;")


CASES = [
    ("S1", "xxh64_round: rotl amount 31 -> 30", ["Tie_util"],
     lambda: edit("src/util/xxhash.c", "acc = xxh64_rotl(acc, 31);", "acc = xxh64_rotl(acc, 30);"), False),
    ("S2", "bloom_filter_block_check: mask >> 27 -> mask >> 26", ["Tie_util"],
     lambda: edit("src/metadata/bloom_filter.c", "        uint32_t bit_pos = mask >> 27;\n        if ((block[i]",
                  "        uint32_t bit_pos = mask >> 26;\n        if ((block[i]"), False),
    ("S3", "read_le32 (bitpack.c): shifts of p[2] and p[3] swapped", ["Tie_enc"],
     lambda: edit("src/core/bitpack.c", "((uint32_t)p[2] << 16) | ((uint32_t)p[3] << 24);",
                  "((uint32_t)p[2] << 24) | ((uint32_t)p[3] << 16);"), False),
    ("S4", "zigzag_decode64 (delta.c): ~(n & 1) + 1 -> ~(n & 1)", ["Tie_enc2"],
     lambda: edit("src/encoding/delta.c", "(~(n & 1) + 1)", "(~(n & 1))"), False),
    ("S5", "snappy_hash: multiplier 0x1e35a7bd -> 0x1e35a7bf", ["Tie_comp"],
     lambda: edit("src/compression/snappy.c", "val * 0x1e35a7bd", "val * 0x1e35a7bf"), False),
    ("S6", "compare_int96 (metadata/statistics.c): words compared low to high (i = 0; i < 3; i++)", ["Tie_stats"],
     lambda: edit("src/metadata/statistics.c", "for (int i = 2; i >= 0; i--)", "for (int i = 0; i < 3; i++)"), False),
    ("S7", "bit_width_for_max (page_writer.c): val > 0 -> val > 1", ["Tie_writer"],
     lambda: edit("src/writer/page_writer.c", "    while (val > 0) {", "    while (val > 1) {"), False),
    ("S8", "bit_width_required (delta.c): the while loop rewritten with a label and goto (outside the translated subset)",
     ["Tie_enc2"],
     lambda: edit("src/encoding/delta.c", "    while (value > 0) {\n        width++;\n        value >>= 1;\n    }",
                  "again:\n    if (value > 0) {\n        width++;\n        value >>= 1;\n        goto again;\n    }"), False),
    ("N1", "syntactic: local `key` renamed in bloom_filter_block_check; values[0]/values[1] statements of "
     "carquet_bitunpack8_2bit reordered; xxh64_merge_round rewritten with a new local instead of two assignments",
     ["Tie_util", "Tie_enc"], syntactic, True),
]


def main():
    sh("git -C /repo worktree remove --force %s" % WT)
    r = sh("git -C /repo worktree add -f %s HEAD" % WT)
    if r.returncode:
        print(r.stderr)
        return 2
    results, bad = [], 0
    lock = open(COQ / ".lock", "w")
    try:
        fcntl.flock(lock, fcntl.LOCK_EX)
        base_sha, base = build("/repo", sorted({t for c in CASES for t in c[2]}))
        fcntl.flock(lock, fcntl.LOCK_UN)
        print("unchanged tree: CLeaf_gen.v sha1 %s; %s" % (base_sha[:12], {t: v[0] for t, v in base.items()}))
        if not all(v[0] for v in base.values()):
            print("the Tie files do not compile on the unchanged tree: ", base)
            return 2
        for cid, what, ties, apply, expect_ok in CASES:
            apply()
            fcntl.flock(lock, fcntl.LOCK_EX)
            try:
                sha, out = build(WT, ties)
                gen = (COQ / "theories/Gen/CLeaf_gen.v").read_text()
                nt = re.findall(r"\(\* (c_\w+): .*? is NOT TRANSLATED: (.*?) \*\)", gen)
                build("/repo", ties)      # restore the shared Gen and the Tie objects before anyone else looks
            finally:
                fcntl.flock(lock, fcntl.LOCK_UN)
            sh("git -C %s checkout -- ." % WT)
            for t in ties:
                ok, err = out[t]
                good = (ok == expect_ok) and (sha != base_sha)
                bad += not good
                results.append({"case": cid, "edit": what, "tie": t, "gen_changed": sha != base_sha, "tie_compiles": ok,
                                "expected_to_compile": expect_ok, "first_error": err,
                                "not_translated": ["%s: %s" % x for x in nt]})
                print(json.dumps(results[-1]))
    finally:
        sh("git -C /repo worktree remove --force %s" % WT)
    (VERIF / "build").mkdir(exist_ok=True)
    (VERIF / "build" / "c2coq_tie_selftest.json").write_text(json.dumps(results, indent=1))
    print("tie self-test: %d cases, %d unexpected" % (len(results), bad))
    return 1 if bad else 0


if __name__ == "__main__":
    sys.exit(main())
