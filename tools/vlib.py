"""Common machinery for the carquet verification checks.

Every check (checks/Cnn.py) goes through the same steps, all provided here:

  lib   = build_repo()                 ASan+UBSan build of REPO's *working tree* (hooks on)
  gen_translators()                    regenerate coq/theories/Gen/*.v from REPO's sources
  res   = coq_props(pid)               make the property's cone, compile Props/Properties_<pid>.v,
                                       parse Print Assumptions -> obligations/discharged/axioms
  drv   = build_driver("h_x")          C driver harness/h_x.c linked against lib
  run   = build_runner("x")            OCaml runner: coq/extracted/x_ext.ml + ocaml/run_x.ml
  ...   correspondence: same case file through drv and run, diff of canonical lines
  Report(pid, tier)                    collects violations / known findings / evidence, exits

REPO defaults to /repo; the environment variable VERIF_REPO overrides it (used only
while developing, to point a check at a scratch worktree).
"""
import os, sys, json, hashlib, subprocess, time, fcntl, re, shutil, random
from pathlib import Path
from concurrent.futures import ThreadPoolExecutor

VERIF = Path(__file__).resolve().parent.parent
REPO = Path(os.environ.get("VERIF_REPO", "/repo")).resolve()
GUARD = "CARQUET_VERIF"
_key = "repo" if str(REPO) == "/repo" else "alt_" + hashlib.sha1(str(REPO).encode()).hexdigest()[:10]
COV = os.environ.get("VERIF_COV") == "1"      # development-time coverage audit (tools/covaudit.py): gcov-instrumented build,
if COV:                                       # own build directory, evidence kept out of evidence/
    _key += "_cov" + os.environ.get("VERIF_COV_TAG", "")     # one build directory per audited check: counters are not shared
BUILD = VERIF / "build" / _key
COQ = VERIF / "coq"
NCPU = os.cpu_count() or 4
SEED = int(os.environ.get("VERIF_SEED", "1"))
COQC_FILE_TIMEOUT = 1200     # seconds per .v file

SAN_FLAGS = ["-std=gnu11", "-O1", "-g", "-fno-omit-frame-pointer",
             "-fsanitize=address,undefined", "-fno-sanitize-recover=all", "-fopenmp",
             "-D" + GUARD, "-DCARQUET_ARCH_X86", "-DCARQUET_ENABLE_SSE",
             "-DCARQUET_ENABLE_AVX2", "-DCARQUET_ENABLE_AVX512"]
PLAIN_FLAGS = ["-std=gnu11", "-O2", "-g", "-fopenmp",
               "-D" + GUARD, "-DCARQUET_ARCH_X86", "-DCARQUET_ENABLE_SSE",
               "-DCARQUET_ENABLE_AVX2", "-DCARQUET_ENABLE_AVX512"]
PER_FILE = {"src/simd/x86/sse_ops.c": ["-msse4.2"],
            "src/simd/x86/avx2_ops.c": ["-mavx2", "-mbmi2"],
            "src/simd/x86/avx512_ops.c": ["-mavx512f", "-mavx512bw", "-mavx512vl"]}
LINK_LIBS = ["-lzstd", "-lz", "-lm"]
if COV:
    SAN_FLAGS = SAN_FLAGS + ["--coverage", "-DVERIF_COV"]      # drivers: call __gcov_dump() before _exit under VERIF_COV
    PLAIN_FLAGS = PLAIN_FLAGS + ["--coverage", "-DVERIF_COV"]


def log(*a):
    print(*a, file=sys.stderr, flush=True)


def sh(cmd, timeout=None, cwd=None, env=None, input=None, check=False):
    e = dict(os.environ)
    if env:
        e.update(env)
    p = subprocess.run(cmd, cwd=cwd, env=e, input=input, capture_output=True, text=True,
                       timeout=timeout)
    if check and p.returncode != 0:
        raise RuntimeError("command failed: %s\n%s\n%s" % (cmd, p.stdout[-4000:], p.stderr[-4000:]))
    return p


class Lock:
    def __init__(self, path):
        self.path = Path(path)
        self.path.parent.mkdir(parents=True, exist_ok=True)

    def __enter__(self):
        self.f = open(self.path, "w")
        fcntl.flock(self.f, fcntl.LOCK_EX)
        return self

    def __exit__(self, *a):
        fcntl.flock(self.f, fcntl.LOCK_UN)
        self.f.close()


def _sha(*parts):
    h = hashlib.sha1()
    for p in parts:
        h.update(p if isinstance(p, bytes) else str(p).encode())
        h.update(b"\0")
    return h.hexdigest()


def repo_sources():
    srcs = []
    for p in sorted((REPO / "src").rglob("*.c")):
        rel = p.relative_to(REPO).as_posix()
        if "/arm/" in rel:
            continue
        srcs.append(rel)
    return srcs


def _headers_hash():
    h = hashlib.sha1()
    for base in ("include", "src"):
        for p in sorted((REPO / base).rglob("*.h")):
            h.update(p.relative_to(REPO).as_posix().encode())
            h.update(p.read_bytes())
    return h.hexdigest()


def build_repo(flavour="san"):
    """Compile REPO's working tree into BUILD/<flavour>/libcarquet.a.  Incremental by content hash.
    Raises BuildError if the tree does not compile."""
    flags = SAN_FLAGS if flavour == "san" else PLAIN_FLAGS
    out = BUILD / flavour
    objd = out / "obj"
    objd.mkdir(parents=True, exist_ok=True)
    with Lock(out / ".lock"):
        hh = _headers_hash()
        stamp_file = out / "stamps.json"
        try:
            stamps = json.loads(stamp_file.read_text())
        except Exception:
            stamps = {}
        jobs = []
        objs = []
        newstamps = {}
        for rel in repo_sources():
            src = REPO / rel
            fl = flags + PER_FILE.get(rel, [])
            key = _sha(src.read_bytes(), hh, " ".join(fl))
            o = objd / (rel.replace("/", "__") + ".o")
            objs.append(o)
            newstamps[rel] = key
            if stamps.get(rel) != key or not o.exists():
                jobs.append((rel, o, fl))

        def cc(job):
            rel, o, fl = job
            p = sh(["gcc"] + fl + ["-I", str(REPO / "include"), "-I", str(REPO / "src"),
                    "-c", str(REPO / rel), "-o", str(o)])
            return rel, p

        failed = []
        if jobs:
            with ThreadPoolExecutor(NCPU) as ex:
                for rel, p in ex.map(cc, jobs):
                    if p.returncode != 0:
                        failed.append((rel, p.stderr[-3000:]))
                        newstamps.pop(rel, None)
        stamp_file.write_text(json.dumps(newstamps))
        if failed:
            raise BuildError("repository does not compile: " + "; ".join(f"{r}: {e}" for r, e in failed))
        lib = out / "libcarquet.a"
        if jobs or not lib.exists():
            if lib.exists():
                lib.unlink()
            sh(["ar", "rcs", str(lib)] + [str(o) for o in objs], check=True)
        return lib


class BuildError(Exception):
    pass


def build_driver(name, flavour="san", extra=(), libs=()):
    """Compile harness/<name>.c against the freshly built library.  The driver may #include
    repository .c files for static functions (include path has REPO/src and REPO/include)."""
    lib = build_repo(flavour)
    flags = SAN_FLAGS if flavour == "san" else PLAIN_FLAGS
    src = VERIF / "harness" / (name + ".c")
    out = BUILD / flavour / name
    hdeps = b"".join(p.read_bytes() for p in sorted((VERIF / "harness").glob("*.h")))
    key = _sha(src.read_bytes(), hdeps, lib.stat().st_mtime_ns, " ".join(flags), " ".join(extra), " ".join(libs),
               # drivers that #include repo .c files depend on them too
               _sha(*[(REPO / r).read_bytes() for r in repo_sources()]))
    st = out.with_suffix(".stamp")
    with Lock(BUILD / flavour / (name + ".lock")):
        if out.exists() and st.exists() and st.read_text() == key:
            return out
        cmd = (["gcc"] + flags + list(extra) + ["-I", str(REPO / "include"), "-I", str(REPO / "src"),
               "-I", str(VERIF / "harness"), str(src), str(lib)] + LINK_LIBS + list(libs) + ["-o", str(out)])
        p = sh(cmd)
        if p.returncode != 0:
            raise BuildError("driver %s does not compile against the current tree:\n%s" % (name, p.stderr[-4000:]))
        st.write_text(key)
        return out


# ----------------------------------------------------------------------------- Coq

def write_if_changed(path, text):
    path = Path(path)
    path.parent.mkdir(parents=True, exist_ok=True)
    if path.exists() and path.read_text() == text:
        return False
    path.write_text(text)
    return True


def coq_project():
    """(Re)generate _CoqProject and Makefile when the set of .v files changes."""
    files = sorted(p.relative_to(COQ).as_posix() for p in (COQ / "theories").rglob("*.v"))
    text = "-Q theories Carquet\n-arg -w -arg -notation-overridden,-deprecated-hint-without-locality,-deprecated-instance-without-locality,-deprecated-hint-rewrite-without-locality\n" + "\n".join(files) + "\n"
    changed = write_if_changed(COQ / "_CoqProject", text)
    if changed or not (COQ / "Makefile").exists():
        sh(["coq_makefile", "-f", "_CoqProject", "-o", "Makefile"], cwd=COQ, check=True)
    (COQ / "extracted").mkdir(exist_ok=True)


def coq_make(targets, timeout=3000, locked=False):
    """make -k the given .vo targets (paths relative to coq/).  Returns (ok, output).
    locked=True: the caller already holds coq/.lock."""
    if locked:
        coq_project()
    else:
        with Lock(COQ / ".lock"):
            coq_project()
    # make itself runs unlocked so that a long proof build of one property does not block the others
    # every coqc runs under its own time limit: one looping file cannot stall the whole build
    p = sh(["timeout", str(timeout), "make", "-k", "-j", str(NCPU), "COQC=timeout %d coqc" % COQC_FILE_TIMEOUT] + list(targets), cwd=COQ)
    return p.returncode == 0, p.stdout + p.stderr


ALLOWED_AXIOM_PREFIXES = (
    # axioms declared by Coq's standard library (named in the trusted base when they appear)
    "Coq.Logic.FunctionalExtensionality.", "Coq.Logic.Classical_Prop.", "Coq.Logic.ProofIrrelevance.",
    "Coq.Logic.Eqdep.", "Coq.Logic.JMeq.", "Coq.Reals.", "Coq.Logic.ClassicalDedekindReals.",
    "FunctionalExtensionality.", "Classical_Prop.", "ProofIrrelevance.", "Eqdep.", "JMeq.",
    "functional_extensionality_dep", "classic", "proof_irrelevance", "eq_rect_eq", "JMeq_eq",
    "sig_forall_dec", "sig_not_dec", "ClassicalDedekindReals.", "propositional_extensionality",
)

FORBIDDEN_RE = re.compile(
    r"\b(Admitted|admit|Axiom|Axioms|Parameter|Parameters|Conjecture|Conjectures|Abort All|"
    r"Admit Obligations|bypass_check|Unset Guard Checking|Unset Positivity Checking|"
    r"Unset Universe Checking|type-in-type|impredicative-set|native_compute)\b")


def _strip_comments(text):
    out = []
    depth = 0
    i = 0
    n = len(text)
    while i < n:
        if text.startswith("(*", i):
            depth += 1
            i += 2
        elif text.startswith("*)", i) and depth > 0:
            depth -= 1
            i += 2
        else:
            if depth == 0:
                out.append(text[i])
            i += 1
    return "".join(out)


def coq_lint():
    """No Admitted/admit/Axiom/Parameter/... anywhere in the development; Variable/Hypothesis only
    inside sections.  Returns list of offending 'file:line: text'."""
    bad = []
    for p in sorted((COQ / "theories").rglob("*.v")):
        raw = p.read_text()
        code = _strip_comments(raw)
        depth = 0
        for ln, line in enumerate(code.splitlines(), 1):
            s = line.strip()
            if re.match(r"^Section\b", s):
                depth += 1
            m = FORBIDDEN_RE.search(line)
            if m:
                bad.append(f"{p.relative_to(VERIF)}:{ln}: {s}")
            if depth == 0 and re.match(r"^(Variable|Variables|Hypothesis|Hypotheses|Context)\b", s):
                bad.append(f"{p.relative_to(VERIF)}:{ln}: {s} (outside a section)")
            if re.match(r"^End\b", s) and depth > 0:
                # End of a section or a module; modules are not used with Variables here
                depth -= 1
    return bad


def spec_independence():
    """*Spec.v files must not (transitively) import any *Model.v file (DESIGN 3.5)."""
    p = sh(["coqdep", "-Q", "theories", "Carquet"] +
           [q.relative_to(COQ).as_posix() for q in (COQ / "theories").rglob("*.v")], cwd=COQ)
    deps = {}
    for line in p.stdout.splitlines():
        if ":" not in line:
            continue
        lhs, rhs = line.split(":", 1)
        tgt = [t for t in lhs.split() if t.endswith(".vo")]
        if not tgt:
            continue
        deps[tgt[0]] = [d for d in rhs.split() if d.endswith(".vo")]
    bad = []

    def closure(t, seen):
        for d in deps.get(t, []):
            if d not in seen:
                seen.add(d)
                closure(d, seen)
        return seen

    for t in deps:
        if t.endswith("Spec.vo") or t.endswith("SpecFile.vo"):
            for d in closure(t, set()):
                if d.endswith("Model.vo"):
                    bad.append(f"{t} depends on {d}")
    return bad


def coq_props(pid, timeout=3000):
    """Build the cone of Props/Properties_<pid>.v, then compile that file itself with coqc to
    capture Print Assumptions.  Returns dict:
      ok, obligations, discharged, theorems=[{name, status, axioms}], error, checker_cmd"""
    rel = f"theories/Props/Properties_{pid}.v"
    src = COQ / rel
    res = {"ok": False, "obligations": 0, "discharged": 0, "theorems": [], "error": None, "lint": [],
           "checker_cmd": f"cd coq && make -k -j{NCPU} theories/Props/Properties_{pid}.vo  (full .vo build, coqc 8.16.1) "
                          f"&& coqc -Q theories Carquet {rel}  (Print Assumptions under every theorem)"}
    names = re.findall(r"^\s*Theorem\s+([A-Za-z0-9_']+)", _strip_comments(src.read_text()), re.M)
    res["obligations"] = len(names)
    lint = coq_lint()
    res["lint"] = lint
    ok, out = coq_make([rel + "o"], timeout=timeout)
    if not ok:
        m = re.findall(r'File "([^"]+)", line (\d+), characters [^\n]*\n((?:.*\n){0,12}?)(?=make|File|$)', out)
        err = out[-3000:]
        res["error"] = "Coq build failed: " + (
            "; ".join(f"{f}:{l}: {' '.join(t.split())[:300]}" for f, l, t in m[:3]) if m else err)
        res["theorems"] = [{"name": n, "status": "unchecked", "axioms": []} for n in names]
        return res
    # compile the (tiny) Props file once more into a scratch directory to capture Print Assumptions
    scratch = VERIF / "build" / "props" / pid
    scratch.mkdir(parents=True, exist_ok=True)
    shutil.copy(src, scratch / src.name)
    p = sh(["timeout", "600", "coqc", "-Q", "theories", "Carquet", "-w",
            "-notation-overridden,-deprecated-hint-without-locality,-deprecated-instance-without-locality",
            str(scratch / src.name)], cwd=COQ)
    if p.returncode != 0:
        res["error"] = "coqc failed on %s: %s" % (rel, (p.stderr or p.stdout)[-1500:])
        res["theorems"] = [{"name": n, "status": "unchecked", "axioms": []} for n in names]
        return res
    # Print Assumptions output: either "Closed under the global context" or "Axioms:\n name : type ..."
    blocks = re.split(r"(?=Closed under the global context|Axioms:)", p.stdout)
    blocks = [b for b in blocks if b.startswith("Closed") or b.startswith("Axioms:")]
    pa = re.findall(r"^\s*Print Assumptions\s+([A-Za-z0-9_']+)", _strip_comments(src.read_text()), re.M)
    thms = []
    for i, n in enumerate(names):
        if n not in pa or pa.index(n) >= len(blocks):
            thms.append({"name": n, "status": "no Print Assumptions", "axioms": []})
            continue
        b = blocks[pa.index(n)]
        if b.startswith("Closed"):
            thms.append({"name": n, "status": "closed", "axioms": []})
        else:
            axs = [a for a in re.findall(r"^([A-Za-z0-9_.']+)\s*:", b, re.M) if a != "Axioms"]
            badax = [a for a in axs if not a.startswith(ALLOWED_AXIOM_PREFIXES)]
            thms.append({"name": n, "status": "axioms-ok" if not badax else "forbidden-axioms", "axioms": axs})
    res["theorems"] = thms
    res["discharged"] = sum(1 for t in thms if t["status"] in ("closed", "axioms-ok"))
    res["ok"] = (res["discharged"] == res["obligations"] and res["obligations"] > 0 and not lint)
    if lint:
        res["error"] = "forbidden constructs in the development: " + "; ".join(lint[:5])
    elif not res["ok"]:
        res["error"] = "theorems not discharged: " + ", ".join(
            f"{t['name']} ({t['status']})" for t in thms if t["status"] not in ("closed", "axioms-ok"))
    return res


def coqchk_cone(rep, pid, timeout=3000):
    """Thorough tier: Coq's independent checker re-checks the compiled Props/Properties_<pid>.vo and every file
    it depends on (standard library included) and lists the axioms of everything loaded (a superset of what
    Print Assumptions reports per theorem).  Runs under coq/.lock so that no translator run rewrites Gen/*.vo
    underneath; a rejected file or an axiom outside the standard library's is a broken proof obligation."""
    if rep.proof_error:
        return
    t0 = time.time()
    with Lock(COQ / ".lock"):
        coq_make([f"theories/Props/Properties_{pid}.vo"], locked=True)
        p = sh(["timeout", str(timeout), "coqchk", "-silent", "-o", "-Q", "theories", "Carquet",
                f"Carquet.Props.Properties_{pid}"], cwd=COQ)
    txt = p.stdout + p.stderr
    m = re.search(r"\* Axioms:(.*?)\n\s*\n", txt + "\n\n", re.S)
    axs = [a.strip() for a in (m.group(1).split("\n") if m else []) if a.strip() and a.strip() != "<none>"]
    bad = [a for a in axs if not a.startswith(ALLOWED_AXIOM_PREFIXES)]
    unsafe = [l.strip() for l in txt.splitlines() if l.startswith("* ") and not l.startswith(("* Axioms", "* Theory")) and "<none>" not in l and ":" in l]
    ok = p.returncode == 0 and "CONTEXT SUMMARY" in txt and m is not None
    rep.cov["coqchk"] = {"accepted": bool(ok), "axioms_of_all_loaded_files": axs, "seconds": round(time.time() - t0, 1),
                         "cmd": f"coqchk -silent -o -Q theories Carquet Carquet.Props.Properties_{pid}"}
    if not ok:
        rep.broken.append(("proof", f"coqchk does not accept the compiled proofs of {pid}: " + txt[-400:], None))
    elif bad:
        rep.broken.append(("proof", f"coqchk lists axioms outside Coq's standard library in the cone of {pid}: " + ", ".join(bad[:5]), None))
    elif unsafe:
        rep.broken.append(("proof", f"coqchk reports assumed guard/positivity/universe checks in the cone of {pid}: " + "; ".join(unsafe[:3]), None))


def build_runner(engine):
    """Extraction file theories/Extract/Extract_<engine>.v writes coq/extracted/<engine>_ext.ml(i);
    ocaml/run_<engine>.ml is the driver.  Returns path of the native executable."""
    ok, out = coq_make([f"theories/Extract/Extract_{engine}.vo"])
    if not ok:
        raise BuildError("extraction of engine %s failed:\n%s" % (engine, out[-3000:]))
    ext = COQ / "extracted"
    ml, mli = ext / f"{engine}_ext.ml", ext / f"{engine}_ext.mli"
    drv = VERIF / "ocaml" / f"run_{engine}.ml"
    outd = VERIF / "build" / "ocaml" / engine
    outd.mkdir(parents=True, exist_ok=True)
    exe = outd / f"run_{engine}"
    key = _sha(ml.read_bytes(), mli.read_bytes(), drv.read_bytes(),
               *[q.read_bytes() for q in sorted((VERIF / "ocaml").glob("*.inc"))])
    st = outd / "stamp"
    with Lock(outd / ".lock"):
        if exe.exists() and st.exists() and st.read_text() == key:
            return exe
        for f in (ml, mli):
            shutil.copy(f, outd / f.name)
        body = drv.read_text()
        m = re.match(r"\(\*\s*conv:\s*([a-z ]*)\*\)", body)
        kinds = m.group(1).split() if m else ["n"]
        mod = f"{engine}_ext".capitalize()
        src = f"open {mod}\n" + "".join((VERIF / "ocaml" / f"conv_{k}.inc").read_text() for k in kinds) + body
        (outd / drv.name).write_text(src)
        p = sh(["ocamlfind", "ocamlopt", "-w", "-a", "-I", str(outd),
                f"{engine}_ext.mli", f"{engine}_ext.ml", f"run_{engine}.ml", "-o", str(exe)], cwd=outd)
        if p.returncode != 0:
            raise BuildError("OCaml runner for %s does not build:\n%s" % (engine, p.stderr[-3000:]))
        st.write_text(key)
        return exe


# ----------------------------------------------------------------------------- translators

TIE_ERRORS = {}      # translator module -> (message, Gen files it writes); filled by gen_translators
GEN_OUTPUTS = {"alloc_sites": ["AllocSites_gen.v"], "dispatch": ["Dispatch_gen.v", "Intrinsics_gen.v"], "c2coq": ["CLeaf_gen.v"]}
_DEPS = None


def coq_deps():
    """coqdep over the whole development: {target.vo: [direct .vo dependencies]} (cached per process)."""
    global _DEPS
    if _DEPS is None:
        p = sh(["coqdep", "-Q", "theories", "Carquet"] +
               [q.relative_to(COQ).as_posix() for q in (COQ / "theories").rglob("*.v")], cwd=COQ)
        _DEPS = {}
        for line in p.stdout.splitlines():
            if ":" not in line:
                continue
            lhs, rhs = line.split(":", 1)
            tgt = [t for t in lhs.split() if t.endswith(".vo")]
            if tgt:
                _DEPS[tgt[0]] = [d for d in rhs.split() if d.endswith(".vo")]
    return _DEPS


def coq_cone(targets):
    """all .vo files the given .vo targets depend on, transitively (paths relative to coq/)"""
    deps, seen, todo = coq_deps(), set(), list(targets)
    while todo:
        t = todo.pop()
        for d in deps.get(t, []):
            if d not in seen:
                seen.add(d); todo.append(d)
    return seen


def gen_translators():
    """Regenerate coq/theories/Gen/*.v from REPO's working tree.  Raises TieError when a construct
    the translators expect is gone (broken tie, never silently skipped)."""
    sys.path.insert(0, str(VERIF / "tools"))
    import gen_consts, importlib.util
    gen = COQ / "theories" / "Gen"
    # Under the Coq lock: the generated files are rewritten AND compiled before anyone else can start a
    # make that would read a half-updated Gen (stale .vo newer than a re-written .v).
    with Lock(COQ / ".lock"):
        before = {q.name: q.read_bytes() for q in gen.glob("*.v")} if gen.exists() else {}
        try:
            summary = gen_consts.generate(REPO, gen)
            # further translators: tools/gen.d/*.py, each exposing generate(repo, outdir) -> dict
            for f in sorted((VERIF / "tools" / "gen.d").glob("*.py")):
                mod = None
                try:
                    spec = importlib.util.spec_from_file_location("gen_" + f.stem, f)
                    mod = importlib.util.module_from_spec(spec)
                    spec.loader.exec_module(mod)
                    summary.update(mod.generate(REPO, gen) or {})
                except gen_consts.TieError as e:
                    # scoped: only the properties whose Coq cone (or engine) uses this translator's outputs report it
                    # (prelude); a tie broken in the writer's translator is not an alarm of the concurrency check
                    TIE_ERRORS[f.stem] = (str(e), list(getattr(mod, "OUTPUTS", None) or GEN_OUTPUTS.get(f.stem, [f.stem.capitalize() + "_gen.v"])))
                    log("translator %s: tie broken: %s" % (f.name, e))
                except Exception as e:
                    # a translator that crashes must not take every property down with it: its outputs are
                    # removed, so that exactly the cones that import them stop building (= a broken tie there)
                    log("translator %s crashed: %r" % (f.name, e))
                    for o in getattr(mod, "OUTPUTS", []) if mod else []:
                        for suf in (".v", ".vo", ".vos", ".vok", ".glob"):
                            q = (gen / o).with_suffix(suf)
                            if q.exists():
                                q.unlink()
        except gen_consts.TieError as e:
            raise TieError(str(e))
        after = {q.name: q.read_bytes() for q in gen.glob("*.v")}
        changed = [n for n in after if before.get(n) != after[n] or not (gen / n).with_suffix(".vo").exists()]
        if changed:
            coq_project()
            for n in changed:      # force: remove the old object so that no stale .vo survives
                for suf in (".vo", ".vos", ".vok", ".glob"):
                    q = (gen / n).with_suffix(suf)
                    if q.exists():
                        q.unlink()
            sh(["timeout", "600", "make", "-k", "-j", str(NCPU), "COQC=timeout %d coqc" % COQC_FILE_TIMEOUT] + ["theories/Gen/" + n + "o" for n in changed], cwd=COQ)
    return summary


class TieError(Exception):
    pass


# ----------------------------------------------------------------------------- running cases

def run_lines(exe, lines, timeout=600, env=None):
    """Feed case lines to an executable on stdin, return (list of output lines, returncode, stderr)."""
    e = {"ASAN_OPTIONS": "detect_leaks=1:abort_on_error=0:exitcode=99:allocator_may_return_null=1",
         "UBSAN_OPTIONS": "print_stacktrace=1:halt_on_error=1:exitcode=98"}
    if env:
        e.update(env)
    p = sh([str(exe)], input="\n".join(lines) + "\n", timeout=timeout, env=e)
    return p.stdout.splitlines(), p.returncode, p.stderr


def run_sharded(exe, lines, shards=None, timeout=900, env=None):
    """Run case lines through exe in parallel shards; preserves order.  Returns (out_lines, problems)
    where problems lists (shard_index, returncode, stderr_tail) for shards that died."""
    shards = shards or NCPU
    n = len(lines)
    if n == 0:
        return [], []
    size = (n + shards - 1) // shards
    chunks = [lines[i:i + size] for i in range(0, n, size)]

    def go(ch):
        try:
            return run_lines(exe, ch, timeout=timeout, env=env)
        except subprocess.TimeoutExpired:
            return [], -9, "timeout"

    outs, problems = [], []
    with ThreadPoolExecutor(len(chunks)) as ex:
        for i, (o, rc, err) in enumerate(ex.map(go, chunks)):
            if rc != 0 or len(o) != len(chunks[i]):
                problems.append((i, rc, err[-3000:], chunks[i][len(o)] if len(o) < len(chunks[i]) else None))
                o = o + ["FAULT died"] * (len(chunks[i]) - len(o))
            outs.extend(o)
    return outs, problems


def hexs(bs):
    return bytes(bs).hex() if bs else "-"


# ----------------------------------------------------------------------------- reporting

def load_known(pid):
    f = VERIF / "known_findings.json"
    if not f.exists():
        return []
    return [k for k in json.loads(f.read_text()).get("findings", []) if k.get("property") == pid
            and k.get("status") == "open"]


class Report:
    def __init__(self, pid, tier, level="proof"):
        self.pid, self.tier, self.level = pid, tier, level
        self.t0 = time.time()
        self.violations = []      # (what, replay_obj, no_input)
        self.known_hit = []
        self.cov = {"evaluations": 0, "distinct_nontrivial": 0, "rule": "", "samples": [],
                    "obligations": 0, "discharged": 0, "checker_cmd": "", "trusted_base": []}
        self.assumptions = []
        self.known = load_known(pid)
        self._distinct = set()
        self.broken = []          # (kind, what, first_case)  proof obligations / correspondence that no longer check
        self.proof_error = None
        (VERIF / "evidence").mkdir(exist_ok=True)
        (VERIF / "build" / "replay").mkdir(parents=True, exist_ok=True)

    def proof(self, res):
        self.cov["obligations"] = res["obligations"]
        self.cov["discharged"] = res["discharged"]
        self.cov["checker_cmd"] = res["checker_cmd"]
        self.cov["theorems"] = res["theorems"]
        axs = sorted({a for t in res["theorems"] for a in t["axioms"]})
        self.cov["axioms_reported_by_Print_Assumptions"] = axs
        if not res["ok"]:
            self.proof_error = res["error"]
            self.broken.append(("proof", res["error"], None))
        return res["ok"]

    def tie_broken(self, what, case=None, key=None):
        """The correspondence (model vs implementation, or a translator) no longer checks.  Not by
        itself a counterexample of the property: reported with no-failing-input-found unless the
        search also finds a concrete failing input (violation())."""
        for k in self.known:
            if key is not None and key == k.get("key"):
                if k["key"] not in [h["key"] for h in self.known_hit]:
                    self.known_hit.append(k)
                return False
        if len(self.broken) < 20:
            self.broken.append(("correspondence", what, case))
        return True

    def count(self, case_key, nontrivial=True):
        self.cov["evaluations"] += 1
        if nontrivial:
            self._distinct.add(hashlib.sha1(str(case_key).encode()).digest()[:8])

    def sample(self, s, limit=8):
        if len(self.cov["samples"]) < limit:
            self.cov["samples"].append(s)

    def violation(self, what, replay, no_input=False, key=None):
        """Register a violation unless it matches an open known finding (matched on `key`)."""
        for k in self.known:
            if key is not None and key == k.get("key"):
                if k["key"] not in [h["key"] for h in self.known_hit]:
                    self.known_hit.append(k)
                return False
        self.violations.append((what, replay, no_input))
        return True

    def finish(self):
        self.cov["distinct_nontrivial"] = len(self._distinct)
        wall = time.time() - self.t0
        ev = {"property_id": self.pid, "tier": self.tier, "seed": SEED, "level": self.level,
              "coverage": self.cov, "assumptions": self.assumptions, "wall_s": round(wall, 2),
              "violations": len(self.violations) + (1 if (self.broken and not self.violations) else 0),
              "no_longer_checks": [{"kind": k, "what": w} for k, w, c in self.broken],
              "repo": str(REPO), "known_findings_hit": [k["key"] for k in self.known_hit]}
        if self.cov.get("discharged", 0) < 1 or self.cov.get("obligations", 0) < 1:
            # the schema wants discharged >= 1 when the proof keys are present: a run in which nothing was
            # discharged reports that under other names and falls back to the exploration-style counts
            self.cov["discharged_count"] = self.cov.pop("discharged", 0)
            self.cov["obligations_count"] = self.cov.pop("obligations", 0)
        # evidence/ holds runs against /repo only; development runs on a scratch worktree go to build/
        evdir = (VERIF / "evidence") if (str(REPO) == "/repo" and not COV) else (BUILD / "evidence")
        evdir.mkdir(parents=True, exist_ok=True)
        (evdir / f"{self.pid}.json").write_text(json.dumps(ev, indent=1, default=str))
        for k in self.known_hit:
            print(f"KNOWN-FINDING: property={self.pid} {k['what']}")
        if not self.violations and self.broken:
            # nothing concrete found: report what no longer checks
            path = VERIF / "build" / "replay" / f"{self.pid}_broken.json"
            path.write_text(json.dumps({"property": self.pid, "no_failing_input_found": True,
                                        "no_longer_checks": [{"kind": k, "what": w, "first_case": c}
                                                             for k, w, c in self.broken]}, indent=1, default=str))
            print(f"VIOLATION property={self.pid} replay={path} no-failing-input-found")
            for k, w, c in self.broken[:5]:
                log(f"   {k} no longer checks: {w}" + (f"  first case: {c}" if c else ""))
            return 1
        if not self.violations:
            print(f"OK property={self.pid} tier={self.tier} obligations={self.cov['obligations']} "
                  f"discharged={self.cov['discharged']} cases={self.cov['evaluations']} wall={wall:.1f}s")
            return 0
        for i, (what, replay, no_input) in enumerate(self.violations[:5]):
            path = VERIF / "build" / "replay" / f"{self.pid}_{i}.json"
            path.write_text(json.dumps({"property": self.pid, "what": what, "replay": replay}, indent=1, default=str))
            print(f"VIOLATION property={self.pid} replay={path}" + (" no-failing-input-found" if no_input else ""))
            log("  ", what)
        return 1


def prelude(rep, pid):
    """Steps every check starts with: translators, library build, proofs.  Returns the library path
    (None when the tree does not build -> caller should stop) ."""
    try:
        gen_translators()
    except TieError as e:
        rep.broken.append(("translator", "tie (a) broken: " + str(e), None))
    if TIE_ERRORS:
        try:
            frag0 = json.loads((VERIF / "checks" / f"{pid}.manifest.json").read_text())
        except Exception:
            frag0 = {}
        mine = set([frag0.get("engine", "")] + list(frag0.get("tie_engines", [])) + list(frag0.get("translators", [])))
        cone = coq_cone([f"theories/Props/Properties_{pid}.vo"] + [f"theories/Tie/Tie_{e}.vo" for e in mine if e])
        for stem, (msg, outs) in TIE_ERRORS.items():
            if stem in mine or any(("theories/Gen/" + o + "o") in cone for o in outs):
                rep.broken.append(("translator", "tie (a) broken (tools/gen.d/%s.py): %s" % (stem, msg), None))
            else:
                log("translator %s reports a broken tie that does not concern %s: %s" % (stem, pid, msg))
    try:
        lib = build_repo()
    except BuildError as e:
        log(str(e))
        print(f"BUILD-ERROR property={pid}: the repository's working tree does not compile")
        sys.exit(2)
    res = coq_props(pid)
    rep.proof(res)
    # translator tie at the code level: Tie/Tie_<engine>.v proves that the C leaf functions, re-translated
    # from the working tree into Gen/CLeaf_gen.v by tools/gen.d/c2coq.py, equal the hand-written model functions
    try:
        frag = json.loads((VERIF / "checks" / f"{pid}.manifest.json").read_text())
        engines = [frag.get("engine", "")] + list(frag.get("tie_engines", []))
    except Exception:
        engines = []
    tie_files = [e for e in engines if (COQ / "theories" / "Tie" / f"Tie_{e}.v").exists()]
    rep.cov["code_tie_files"] = ["Tie/Tie_%s.v" % e for e in tie_files]
    for e in tie_files:
        ok, out = coq_make([f"theories/Tie/Tie_{e}.vo"])
        if not ok:
            m = re.findall(r'File "([^"]+)", line (\d+)[^\n]*\n((?:.*\n){0,6})', out)
            rep.broken.append(("translator", "code tie broken: a C leaf function re-translated from the working tree no longer "
                               "equals its model function (Tie/Tie_%s.v): %s" % (e, "; ".join(f"{f}:{l}: {' '.join(t.split())[:200]}" for f, l, t in m[:2]) or out[-400:]), None))
    # DESIGN 3.5: no *Spec.v may (transitively) import a *Model.v
    try:
        dep = spec_independence()
    except Exception as e:      # coqdep trouble is not a verdict
        dep = []
        log("spec_independence could not run:", e)
    rep.cov["spec_independence_violations"] = dep
    if dep:
        rep.broken.append(("proof", "a specification file imports a model: " + "; ".join(dep[:5]), None))
    if rep.tier == "thorough":
        coqchk_cone(rep, pid)
    return lib


TRUSTED_BASE_COMMON = [
    "Coq 8.16.1 kernel (coqc full .vo build; vm_compute used in finite sweeps; native_compute not used)",
    "no axioms declared by this development (tools/vlib.coq_lint greps every .v on each run); axioms actually used by each theorem are listed under coverage.theorems from Print Assumptions",
    "the Gallina models are hand-written mirrors of the C functions; they are tied to /repo's working tree by (a) tools/gen_consts.py + tools/gen.d/* regenerating constants/tables/enums into coq/theories/Gen on every run and (b) differential execution of the extracted model against an ASan+UBSan build of the working tree",
    "extraction: Require Extraction + ExtrOcamlBasic only (Extract Inductive bool/option/unit/list/prod/sumbool/sumor, Extract Inlined Constant andb/orb); nat, positive, N, Z stay inductive; OCaml 4.13.1; ocaml/conv_*.inc + ocaml/run_<engine>.ml glue",
    "gcc 12 -fsanitize=address,undefined runtime; the C drivers in harness/; the Python case generators and comparison in checks/",
]
