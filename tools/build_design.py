#!/usr/bin/env python3
"""Assemble /verif/DESIGN.md from design_src/, design.d/, known_findings.json and seeded/*/meta.json."""
import json, re
from pathlib import Path
V = Path(__file__).resolve().parent.parent
S = V / "design_src"


def rd(n):
    return (S / n).read_text().rstrip() + "\n\n"


AXIOMS = {}
props = [json.loads(l) for l in (V / "properties.jsonl").read_text().splitlines() if l.strip()]
out = rd("a0_header.md")
# state at a glance (computed from the committed evidence, findings and seeds)
try:
    import glob
    evs = [json.loads(Path(f).read_text()) for f in sorted(glob.glob(str(V / "evidence" / "C*.json")))]
    thm = sum(e["coverage"].get("obligations", 0) for e in evs)
    dis = sum(e["coverage"].get("discharged", 0) for e in evs)
    kfn = json.loads((V / "known_findings.json").read_text())["findings"]
    nfix = sum(1 for k in kfn if k.get("status") == "fixed"); nopen = sum(1 for k in kfn if k.get("status") != "fixed")
    nseed = sum(1 for d in (V / "seeded").iterdir() if (d / "meta.json").exists())
    def _ind(d):
        try:
            return "independent" in str(json.loads((d / "meta.json").read_text()).get("origin", ""))
        except Exception:
            return False
    nind = sum(1 for d in (V / "seeded").iterdir() if (d / "meta.json").exists() and _ind(d))
    nv = len(list((V / "coq" / "theories").rglob("*.v")))
    out = out.rstrip() + ("\n\n**State at a glance.**  %d properties claimed (none not-applicable), %d property theorems in "
           "`Props/Properties_C*.v`, %d discharged in the last committed evidence, over %d Coq files; %d genuine defects of the pinned tree "
           "found and repaired with `fix:` commits (%d open); %d seeded breaking changes kept under `seeded/` (%d from independent "
           "sub-agents that saw only the property text), all reported by the check of their property with a replay.\n\n"
           % (len(evs), thm, dis, nv, nfix, nopen, nseed, nind))
except Exception as ex:
    print("summary not computed:", ex)
out += "# Part I — approach\n\n" + rd("s01_what.md") + rd("s02_why.md") + rd("a3_architecture.md") + rd("s04_conventions.md")
out += rd("a7_trusted.md") + rd("a8_interface.md") + rd("s10_limits.md") + rd("a11_false_alarms.md")
out += "--------------------------------------------------------------------------------\n\n# Part II — per property, as built\n\n"
man = json.loads((V / "MANIFEST.json").read_text())
claimed = {c["property_id"]: c for c in man["checks"]}
for p in props:
    pid = p["id"]
    out += f"## {pid} — {p['title']}\n\n"
    c = claimed.get(pid)
    out += ("*Claimed:* level `%s`, engine `%s`.  " % (c["level_claimed"]["category"], c.get("engine")) if c else "*Not claimed yet.*  ")
    ev = V / "evidence" / f"{pid}.json"
    if ev.exists():
        try:
            e = json.loads(ev.read_text())
            out += "*Last committed evidence:* %d/%d obligations discharged, %d cases (%d distinct non-trivial), tier %s.  " % (
                e["coverage"].get("discharged", 0), e["coverage"].get("obligations", 0), e["coverage"].get("evaluations", 0),
                e["coverage"].get("distinct_nontrivial", 0), e["tier"])
            axs = e["coverage"].get("axioms_reported_by_Print_Assumptions") or []
            out += ("*Axioms (Print Assumptions):* " + (", ".join("`%s`" % a for a in axs) if axs else "none - every theorem is closed under the global context") + ".\n\n")
            AXIOMS[pid] = axs
        except Exception:
            out += "\n\n"
    else:
        out += "\n\n"
    f = V / "design.d" / f"{pid}.md"
    if f.exists():
        body = f.read_text().strip()
        body = re.sub(r"(?m)^# ", "### ", body)
        body = re.sub(r"(?m)^## ", "#### ", body)
        out += body + "\n\n"
    else:
        out += "(no design note written yet)\n\n"
for extra in ("ENC2", "fileinfra", "bitloops", "c2coq"):
    f = V / "design.d" / f"{extra}.md"
    if f.exists():
        body = re.sub(r"(?m)^## ", "#### ", re.sub(r"(?m)^# ", "### ", f.read_text().strip()))
        out += f"## Supporting engine: {extra}\n\n" + body + "\n\n"
out += "--------------------------------------------------------------------------------\n\n# Part III — findings\n\n"
out += ("Every entry below is a genuine defect of the pinned tree (or of an earlier repair) exposed by a check or by an unprovable "
        "proof case, with the `fix:` commit that repaired it; `open` entries (none at the time of writing unless listed) are "
        "printed by the check as KNOWN-FINDING.\n\n| property | status | commit | what |\n|---|---|---|---|\n")
kf = json.loads((V / "known_findings.json").read_text())["findings"]
for k in sorted(kf, key=lambda k: (k.get("property", ""), k.get("commit", ""))):
    what = k.get("what", "").replace("|", "\\|").replace("\n", " ")
    out += "| %s | %s | %s | %s |\n" % (k.get("property"), k.get("status"), k.get("commit", ""), what[:400])
out += "\n--------------------------------------------------------------------------------\n\n# Part IV — seeded breaking changes\n\n"
if (S / "a12_seeding.md").exists():
    out += rd("a12_seeding.md")
out += ("Each directory under `seeded/` holds a change to carquet that compiles and passes the pinned test suite but breaks a "
        "property (patch.diff, a demonstration where one was produced, meta.json).  *independent* = produced by a sub-agent that "
        "was given only the property text and a scratch worktree; the others are the self-test mutations of the person who built "
        "the check.  All are evaluated with `VERIF_REPO` on a scratch worktree, never in /repo.\n\n| seed | property | origin | caught by | note |\n|---|---|---|---|---|\n")
for d in sorted((V / "seeded").iterdir()):
    m = d / "meta.json"
    if not m.exists():
        continue
    try:
        j = json.loads(m.read_text())
    except Exception:
        continue
    origin = "independent" if "independent" in str(j.get("origin", "")) else "self-test"
    caught = j.get("caught_by") or j.get("caught") or j.get("detected_by") or ""
    if isinstance(caught, list):
        caught = ", ".join(map(str, caught))
    note = str(j.get("note") or j.get("what") or j.get("needs") or j.get("description") or "")[:300].replace("|", "\\|").replace("\n", " ")
    out += "| %s | %s | %s | %s | %s |\n" % (d.name, j.get("property", j.get("breaks", "")), origin, str(caught)[:80], note)
out += "\n--------------------------------------------------------------------------------\n\n" + rd("s99_appendix.md")
out += "## Appendix B. The plan as written before the code\n\nKept for reference: the per-property design and the list of suspected defects from the design round.\n\n"
out += re.sub(r"(?m)^## ", "### ", rd("s05_plan_per_property.md")) + re.sub(r"(?m)^## ", "### ", rd("s06_plan_findings.md"))
summary = "; ".join("%s: %s" % (k, ", ".join(v)) for k, v in sorted(AXIOMS.items()) if v) or "none"
out = out.replace("@@AXIOMS_BY_PROPERTY@@", summary)
(V / "DESIGN.md").write_text(out)
print("DESIGN.md: %d lines" % out.count("\n"))
