#!/usr/bin/env python3
"""Development-time tool (no check runs it): which lines of the files a property is anchored in does the
property's check never execute?  A line no case reaches is a line whose mutation no case can see.

usage: tools/covaudit.py <ID> [quick|thorough]   ->  build/cov/<ID>.txt (uncovered lines per anchored file)
Builds /repo's working tree with gcov instrumentation into its own build directory (VERIF_COV=1), runs the
check, runs gcov on the anchored files' objects and lists executable lines with count 0 (grouped in ranges,
with the source text).  Drivers that die under a sanitizer lose their counters - harmless for an audit."""
import sys, os, subprocess, json, re, shutil
from pathlib import Path
V = Path(__file__).resolve().parent.parent
pid = sys.argv[1]; tier = sys.argv[2] if len(sys.argv) > 2 else "quick"
prop = next(json.loads(l) for l in (V / "properties.jsonl").read_text().splitlines() if json.loads(l)["id"] == pid)
files = [f for f in prop["anchors"]["files"] if f.endswith(".c")]
B = V / "build" / ("repo_cov" + pid)
for g in B.rglob("*.gcda"):
    g.unlink()
env = dict(os.environ, VERIF_COV="1", VERIF_COV_TAG=pid)
r = subprocess.run([str(V / "check"), pid, tier], env=env, capture_output=True, text=True, cwd=V)
print((r.stdout.strip().splitlines() or ["(no output)"])[-1])
out = []
objd = B / "san" / "obj"
allfiles = sorted(str(q.relative_to("/repo")) for q in Path("/repo/src").rglob("*.c") if "/arm/" not in str(q))
jdump = {}
for f in files + [x for x in allfiles if x not in files]:
    o = objd / (f.replace("/", "__") + ".o")
    gcno = o.with_suffix(".gcno")
    if not gcno.exists():
        out.append("== %s: no coverage notes (not built?)" % f); continue
    tmp = B / "gcov_tmp"; shutil.rmtree(tmp, ignore_errors=True); tmp.mkdir(parents=True)
    subprocess.run(["gcov", "-o", str(objd), str(o)], cwd=tmp, capture_output=True, text=True)
    gc = next((p for p in tmp.glob("*.gcov") if p.name.startswith(Path(f).name)), None)
    if gc is None:
        out.append("== %s: gcov produced nothing" % f); continue
    un, tot = [], 0
    for line in gc.read_text(errors="replace").splitlines():
        m = re.match(r"\s*([^:]+):\s*(\d+):(.*)$", line)
        if not m:
            continue
        c, n, txt = m.group(1).strip(), int(m.group(2)), m.group(3)
        if c == "-" or n == 0:
            continue
        tot += 1
        if c in ("#####", "=====") :
            un.append((n, txt))
    jdump[f] = {"total": tot, "uncovered": [n for n, _ in un]}
    if f not in files:
        continue
    out.append("== %s: %d of %d executable lines never executed by ./check %s %s" % (f, len(un), tot, pid, tier))
    prev = None
    for n, txt in un:
        if prev is not None and n != prev + 1:
            out.append("   ...")
        out.append("   %5d: %s" % (n, txt.rstrip()[:150]))
        prev = n
(V / "build" / "cov").mkdir(parents=True, exist_ok=True)
(V / "build" / "cov" / (pid + ".txt")).write_text("\n".join(out) + "\n")
(V / "build" / "cov" / (pid + ".json")).write_text(json.dumps(jdump))
print("\n".join(l for l in out if l.startswith("==")))
