#!/bin/bash
# usage: mkseed.sh C20  -> creates /tmp/seed-C20 worktree at current /repo HEAD and /tmp/seed_prompt_C20.txt
p=$1
git -C /repo worktree remove --force /tmp/seed-$p >/dev/null 2>&1
git -C /repo worktree add -f /tmp/seed-$p HEAD >/dev/null 2>&1 && echo made /tmp/seed-$p
python3 - "$p" <<'PY'
import json,sys
pid=sys.argv[1]
t=open('/verif/tools/seed_prompt.txt').read()
for l in open('/verif/properties.jsonl'):
    p=json.loads(l)
    if p['id']==pid:
        txt="Property %s: %s\n\nStatement: %s\n\nQuantified over: %s\n\nAnchored in files: %s\n" % (p['id'],p['title'],p['statement'],p['quantifier']['text'],", ".join(p['anchors']['files']))
        open('/tmp/seed_prompt_%s.txt'%pid,'w').write(t.replace('WORKTREE','/tmp/seed-%s'%pid).replace('PROPTEXT',txt))
        print('prompt written')
PY
