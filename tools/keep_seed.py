#!/usr/bin/env python3
"""Development-time tool: confirm an independently produced breaking change and keep it under seeded/.

usage: keep_seed.py <property> <seed worktree> <k> <name> <checks that catch it, comma separated> [note]
Confirms in the seed's own worktree (at the HEAD it was made against): demo passes without the change,
fails with it, the library still builds and its ctest suite passes with the change.  Then copies
patch.diff + demo + notes into seeded/<name>/ with meta.json.  The check results (which check caught it)
are obtained separately with VERIF_REPO on a worktree at the current /repo HEAD and passed in."""
import sys, subprocess, json, re, shutil
from pathlib import Path
prop, wt, k, name, caught = sys.argv[1:6]
note = sys.argv[6] if len(sys.argv) > 6 else ""
wt = Path(wt); src = wt / "out" / k
V = Path(__file__).resolve().parent.parent


def sh(cmd, **kw):
    return subprocess.run(cmd, shell=True, capture_output=True, text=True, **kw)


demo = next((p for p in sorted(src.iterdir()) if p.name.startswith("demo")), None)
first = demo.read_text().splitlines()[0]
m = re.search(r"(?:build\+run|build and run|run)\s*:\s*(.*)$", first)
cmd = re.sub(r"\s*\*/\s*$", "", m.group(1)).strip() if m else ("bash " + str(demo))
BUILD = "cmake -S . -B _b -G Ninja -DCMAKE_BUILD_TYPE=RelWithDebInfo >/dev/null 2>&1 && cmake --build _b 2>&1 | tail -2"
sh("git checkout -- . && git clean -fdq -e out", cwd=wt)
sh(BUILD, cwd=wt)                       # demos may link against _b/libcarquet.a
r0 = sh(cmd, cwd=wt)
a = sh(f"git apply {src}/patch.diff", cwd=wt)
sh(BUILD, cwd=wt)
r1 = sh(cmd, cwd=wt)
for attempt in range(3):                # the suite writes fixed names under /tmp: concurrent runs elsewhere can collide
    t = sh("ctest --test-dir _b -j8 --timeout 900 2>&1 | tail -3", cwd=wt)
    if "100% tests passed" in t.stdout:
        break
sh("rm -rf _b && git checkout -- .", cwd=wt)
ok = (r0.returncode == 0 and a.returncode == 0 and r1.returncode != 0 and "100% tests passed" in t.stdout)
print("demo without change rc=%d, apply rc=%d, demo with change rc=%d, suite: %s" % (r0.returncode, a.returncode, r1.returncode, t.stdout.strip().splitlines()[-3:] if t.stdout else t.stderr[-200:]))
if not ok:
    print("NOT CONFIRMED"); sys.exit(1)
dst = V / "seeded" / name
dst.mkdir(parents=True, exist_ok=True)
for p in src.iterdir():
    if p.is_file():
        shutil.copy(p, dst / p.name)
head = sh("git rev-parse --short HEAD", cwd=wt).stdout.strip()
(dst / "meta.json").write_text(json.dumps({
    "property": prop, "origin": "independent sub-agent given only the property text and a scratch worktree",
    "made_against": head,
    "needs_to_manifest": (src / "notes.txt").read_text()[:1500] if (src / "notes.txt").exists() else "",
    "confirmed": {"demo_passes_without_change": True, "demo_fails_with_change": True, "builds": True, "ctest_suite_passes_with_change": True,
                  "demo_cmd": cmd},
    "caught_by": caught.split(",") if caught else [], "note": note}, indent=1))
print("kept", dst)
