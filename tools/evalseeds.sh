#!/bin/bash
# Development-time tool: evaluate independently seeded changes against checks.
# usage: tools/evalseeds.sh <worktree name> <seed dir holding 1/,2/,..> <label> <n> <checks...>
#   applies <seed dir>/<k>/patch.diff (3-way) to a fresh worktree /tmp/<name> of /repo HEAD, runs the checks with
#   VERIF_REPO, appends one line per (seed, check) to /tmp/evalseeds_<label>.log, removes the worktree.
wt=/tmp/$1; dir=$2; label=$3; n=$4; shift 4
log=/tmp/evalseeds_$label.log; : > $log
git -C /repo worktree remove --force $wt >/dev/null 2>&1
git -C /repo worktree add -f $wt HEAD >/dev/null 2>&1
for k in $(seq 1 $n); do
  (cd $wt && git reset -q --hard && git apply --3way $dir/$k/patch.diff >/dev/null 2>&1; echo "seed $label-$k applied: $(git diff HEAD --stat | tail -1)") >> $log
  for c in "$@"; do
    out=$(cd /verif && VERIF_REPO=$wt timeout 1500 ./check $c quick 2>&1)
    echo "== $label-$k $c: violations=$(echo "$out" | grep -c '^VIOLATION') :: $(echo "$out" | grep -m1 -A1 '^VIOLATION\|^BUILD\|^OK' | tr '\n' ' ' | cut -c1-330)" >> $log
  done
done
git -C /repo worktree remove --force $wt >/dev/null 2>&1
echo DONE >> $log
