#!/bin/sh
# usage: tools/coqgoal.sh <file.v relative to coq/> <line>   -- show the goal after line N (debug aid)
cd /verif/coq
f=$1; n=$2
d=/tmp/coqgoal_$$; mkdir -p $d
head -n $n $f > $d/D.v
echo "Show. " >> $d/D.v
timeout ${3:-120} coqc -Q theories Carquet $d/D.v 2>&1 | grep -v "^File\|Error: There are pending proofs\|^$" | head -${4:-80}
rm -rf $d
