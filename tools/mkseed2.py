#!/usr/bin/env python3
"""Development-time tool: second-round seeding prompt for a property: the template plus a list of the
mechanisms of the changes already under seeded/ for that property (so that new ones differ).
usage: tools/mkseed2.py C11 -> /tmp/seed2-C11 worktree + /tmp/seed2_prompt_C11.txt"""
import json, sys, subprocess, re
from pathlib import Path
V = Path(__file__).resolve().parent.parent
pid = sys.argv[1]
tag = sys.argv[2] if len(sys.argv) > 2 else "seed2"
wt = f"/tmp/{tag}-{pid}"
subprocess.run(["git", "-C", "/repo", "worktree", "remove", "--force", wt], capture_output=True)
subprocess.run(["git", "-C", "/repo", "worktree", "add", "-f", wt, "HEAD"], capture_output=True)
prop = next(json.loads(l) for l in (V / "properties.jsonl").read_text().splitlines() if json.loads(l)["id"] == pid)
txt = "Property %s: %s\n\nStatement: %s\n\nQuantified over: %s\n\nAnchored in files: %s\n" % (
    pid, prop["title"], prop["statement"], prop["quantifier"]["text"], ", ".join(prop["anchors"]["files"]))
tried = []
for d in sorted((V / "seeded").iterdir()):
    if not d.name.startswith(pid):
        continue
    desc = d.name
    p = d / "patch.diff"
    files = sorted(set(re.findall(r"^\+\+\+ b/(\S+)", p.read_text(), re.M))) if p.exists() else []
    n = d / "notes.txt"
    first = ""
    if n.exists():
        lines = [l.strip() for l in n.read_text().splitlines() if l.strip()]
        first = " ".join(lines[:2])[:260]
    else:
        try:
            j = json.loads((d / "meta.json").read_text())
            first = str(j.get("what") or j.get("needs") or j.get("note") or j.get("description") or "")[:260]
        except Exception:
            pass
    tried.append("- %s (%s): %s" % (desc, ", ".join(files), first))
t = (V / "tools" / "seed_prompt.txt").read_text().replace("WORKTREE", wt).replace("PROPTEXT", txt)
t += ("\nLATER ROUND: changes of the following kinds have ALREADY been tried against this property; produce three that use "
      "DIFFERENT mechanisms and, where possible, different functions or clauses of the property than these:\n" + "\n".join(tried) +
      "\n\nFormatting: the first line of each demo file must be a comment containing `build+run: <one self-contained shell command>` "
      "and the comment must END on that same first line.\n")
Path(f"/tmp/{tag}_prompt_{pid}.txt").write_text(t)
print(wt, len(tried), "previous changes listed")
