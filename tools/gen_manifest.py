#!/usr/bin/env python3
"""Assemble MANIFEST.json from checks/<id>.manifest.json fragments and known_findings.json from
findings.d/<id>.json fragments (development-time tool; never run by a check)."""
import json, sys, fcntl
from pathlib import Path
V = Path(__file__).resolve().parent.parent
props = [json.loads(l) for l in (V / "properties.jsonl").read_text().splitlines() if l.strip()]
ids = [p["id"] for p in props]
with open(V / ".manifest.lock", "w") as lk:
    fcntl.flock(lk, fcntl.LOCK_EX)
    checks, na, engines = [], [], {}
    for pid in ids:
        f = V / "checks" / f"{pid}.manifest.json"
        if not f.exists() or not (V / "checks" / f"{pid}.py").exists():
            r = V / "checks" / f"{pid}.na.txt"
            na.append({"property_id": pid, "reason": r.read_text().strip() if r.exists() else
                       "no Coq-based check built for this property yet (see DESIGN.md section 5 for the plan); nothing is claimed"})
            continue
        j = json.loads(f.read_text())
        c = {"property_id": pid,
             "quick_cmd": f"./check {pid} quick",
             "thorough_cmd": f"./check {pid} thorough",
             "evidence_file": f"/verif/evidence/{pid}.json",
             "replay_cmd_template": f"./check {pid} --replay {{path}}",
             "engine": j.get("engine", "coq"),
             "level_claimed": {"category": j.get("category", "proof"), "text": j["level_text"],
                               "design_ref": j.get("design_ref", f"DESIGN.md section 5, {pid}")},
             "level_note": j["level_note"],
             "technique": j.get("technique", "machine-checked proof in Coq 8.16 about a Gallina model + differential correspondence with the C code")}
        checks.append(c)
        e = engines.setdefault(c["engine"], {"name": c["engine"], "path": j.get("engine_path", "coq/theories"),
                                              "serves_properties": [], "kind_free_text": j.get("engine_kind", "Coq model + extracted OCaml runner + C driver")})
        e["serves_properties"].append(pid)
    hooks = json.loads((V / "tools" / "hooks.json").read_text())
    man = {"version": 1,
           "setup_cmd": "python3 tools/setup.py",
           "hooks": hooks,
           "engines": list(engines.values()),
           "checks": checks,
           "notes": "All checks: ./check <id> <quick|thorough>; they rebuild /repo's working tree (ASan+UBSan, -DCARQUET_VERIF), regenerate coq/theories/Gen from the sources, rebuild the Coq cone of the property (full .vo), run the extracted model and the implementation on the same cases. See DESIGN.md.",
           "not_applicable": na}
    (V / "MANIFEST.json").write_text(json.dumps(man, indent=1) + "\n")
    # known findings
    findings = []
    for f in sorted((V / "findings.d").glob("*.json")):
        findings += json.loads(f.read_text())
    (V / "known_findings.json").write_text(json.dumps({
        "_comment": "open: a genuine defect of the pinned tree recorded rather than repaired (check prints KNOWN-FINDING and exits 0 for exactly this key). fixed: repaired by a fix: commit in /repo; suppresses nothing.",
        "findings": findings}, indent=1) + "\n")
print("MANIFEST.json: %d checks, %d not_applicable; known_findings.json: %d entries" % (len(checks), len(na), len(findings)))
