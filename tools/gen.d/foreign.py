"""Translator for C06, tie (a): the dispatch decisions of the page decode path, read from the repository's *current*
working tree and written to coq/theories/Gen/Foreign_gen.v (all enum constants by their E_CARQUET_... names of
Gen/Enums_gen.v, so that a renumbering in include/carquet/types.h re-checks the theorems too).

  src/reader/page_reader.c
    decompress_page               switch (codec): which codec id reaches which decompressor, what `default` returns
    bit_width_for_max             the shift loop (its normalised text is compared with the shape the model mirrors)
    carquet_read_dictionary_page  switch (reader->type): dictionary entry size per physical type
    carquet_read_data_page_v1     the level-encoding tests, switch (header->encoding) (which ids decode as PLAIN, which
                                  through the dictionary, what `default` returns), the gather switch (which types a
                                  dictionary page can serve, what `default` does)
    get_value_size                value size per physical type
    load_next_page_mmap / _fread  the page-type decisions (dictionary fallback, DATA_PAGE_V2, other types); both paths
                                  must make the same decisions
A construct that is no longer found raises TieError (broken tie, reported by the check).
"""
import re
import sys
from pathlib import Path

try:
    from gen_consts import TieError
except Exception:  # pragma: no cover
    class TieError(Exception):
        pass

sys.path.insert(0, str(Path(__file__).resolve().parent.parent))


def _strip(s):
    s = re.sub(r"/\*.*?\*/", " ", s, flags=re.S)
    return re.sub(r"//[^\n]*", " ", s)


def _function(src, name):
    """Body (text between the outermost braces) of the definition of function `name`."""
    m = re.search(r"\b%s\s*\([^;{]*\)\s*\{" % re.escape(name), src)
    if not m:
        raise TieError("foreign: function %s not found in src/reader/page_reader.c" % name)
    i = m.end()
    depth = 1
    while i < len(src) and depth:
        depth += {"{": 1, "}": -1}.get(src[i], 0)
        i += 1
    return src[m.end():i - 1]


def _switch(body, expr_re, what):
    """First `switch (<expr>) {...}` in body whose controlling expression matches expr_re: returns [(labels, text)]
    where labels is a list of case names ('default' included) sharing the statement text that follows them."""
    m = re.search(r"switch\s*\(\s*%s\s*\)\s*\{" % expr_re, body)
    if not m:
        raise TieError("foreign: switch (%s) of %s not found" % (expr_re, what))
    i = m.end()
    depth = 1
    while i < len(body) and depth:
        depth += {"{": 1, "}": -1}.get(body[i], 0)
        i += 1
    text = body[m.end():i - 1]
    # split at top-level case/default labels
    arms, labels, start, depth, pos = [], [], None, 0, 0
    tok = re.compile(r"\{|\}|\bcase\s+(\w+)\s*:|\bdefault\s*:")
    cur_text_start = None
    for t in tok.finditer(text):
        if t.group(0) == "{":
            depth += 1
        elif t.group(0) == "}":
            depth -= 1
        elif depth == 0:
            if cur_text_start is not None and text[cur_text_start:t.start()].strip():
                arms.append((labels, text[cur_text_start:t.start()]))
                labels = []
            labels = labels + [t.group(1) or "default"]
            cur_text_start = t.end()
    if cur_text_start is not None:
        arms.append((labels, text[cur_text_start:]))
    return arms


def _norm(s):
    return re.sub(r"\s+", "", s)


BIT_WIDTH_SHAPE = _norm("""
    if (max_val == 0) return 0;
    int width = 0;
    while (max_val > 0) { width++; max_val >>= 1; }
    return width;
""")


def generate(repo, outdir):
    repo, outdir = Path(repo), Path(outdir)
    src = _strip((repo / "src/reader/page_reader.c").read_text())

    # ---- codec dispatch
    DECOMP = [("memcpy", r"memcpy\s*\(\s*decompressed\s*,\s*compressed"), ("snappy", r"carquet_snappy_decompress"),
              ("lz4", r"carquet_lz4_decompress"), ("gzip", r"carquet_gzip_decompress"), ("zstd", r"carquet_zstd_decompress")]
    codec_map, codec_default = [], None
    for labels, text in _switch(_function(src, "decompress_page"), r"codec", "decompress_page"):
        kinds = [k for k, (name, rx) in enumerate(DECOMP) if re.search(rx, text)]
        if "default" in labels:
            m = re.search(r"return\s+(CARQUET_ERROR_\w+)\s*;", text)
            if not m or kinds:
                raise TieError("foreign: `default` of decompress_page no longer just returns an error status")
            codec_default = m.group(1)
            labels = [l for l in labels if l != "default"]
            if labels:
                raise TieError("foreign: codec ids %s share the default arm of decompress_page" % labels)
            continue
        if len(kinds) != 1:
            raise TieError("foreign: arm %s of decompress_page calls %d known decompressors" % (labels, len(kinds)))
        for l in labels:
            if not l.startswith("CARQUET_COMPRESSION_"):
                raise TieError("foreign: unexpected case label %s in decompress_page" % l)
            codec_map.append((l, kinds[0]))
    if codec_default is None:
        raise TieError("foreign: decompress_page has no default arm (unknown codec ids would fall through)")

    # ---- level width
    bw = _function(src, "bit_width_for_max")
    if _norm(bw) != BIT_WIDTH_SHAPE:
        raise TieError("foreign: bit_width_for_max no longer has the shape the model mirrors "
                       "(if (max_val == 0) return 0; width = 0; while (max_val > 0) { width++; max_val >>= 1; } return width;)")

    # ---- dictionary entry size
    dsz = {}
    for labels, text in _switch(_function(src, "carquet_read_dictionary_page"), r"reader->type", "carquet_read_dictionary_page"):
        m = re.search(r"value_size\s*=\s*([^;]+);", text)
        v = _norm(m.group(1)) if m else None
        for l in labels:
            dsz[l] = v
    DICT_SIZE = {}
    for t in ("BOOLEAN", "INT32", "INT64", "INT96", "FLOAT", "DOUBLE", "BYTE_ARRAY", "FIXED_LEN_BYTE_ARRAY"):
        v = dsz.get("CARQUET_PHYSICAL_" + t, dsz.get("default"))
        DICT_SIZE[t] = v
    # ---- value size (decoded value buffer)
    vsz = {}
    for labels, text in _switch(_function(src, "get_value_size"), r"type", "get_value_size"):
        m = re.search(r"return\s+([^;]+);", text)
        for l in labels:
            vsz[l] = _norm(m.group(1)) if m else None

    def size_term(v, what):
        if v is None:
            return "None"
        if re.fullmatch(r"\d+", v):
            return "Some %s%%N" % v
        if v in ("reader->type_length", "type_length"):
            return "Some tlen"
        if v.startswith("sizeof(carquet_byte_array_t)"):
            return "None"
        raise TieError("foreign: %s: size expression %r not understood" % (what, v))

    # ---- data page v1: level encodings, value encodings, gather
    v1 = _function(src, "carquet_read_data_page_v1")
    lev = {}
    for which, fld in (("rep", "repetition_level_encoding"), ("def", "definition_level_encoding")):
        m = re.search(r"if\s*\(\s*reader->max_%s_level\s*>\s*0\s*&&\s*%s_levels\s*\)\s*\{\s*if\s*\(\s*header->%s\s*!=\s*(CARQUET_ENCODING_\w+)\s*\)\s*\{"
                      r"[^}]*?return\s+(CARQUET_ERROR_\w+)\s*;" % (which, which, fld), v1, re.S)
        if not m:
            raise TieError("foreign: carquet_read_data_page_v1 no longer tests header->%s against one encoding before decoding "
                           "the %s levels (a level block in another encoding would be read as length-prefixed RLE)" % (fld, which))
        lev[which] = (m.group(1), m.group(2))
    if lev["rep"] != lev["def"]:
        raise TieError("foreign: repetition and definition level encoding tests differ: %s" % lev)
    enc_map, enc_default = [], None
    arms = _switch(v1, r"header->encoding", "carquet_read_data_page_v1")
    for labels, text in arms:
        if "default" in labels:
            m = re.search(r"return\s+(CARQUET_ERROR_\w+)\s*;", text)
            if not m or len(labels) != 1:
                raise TieError("foreign: `default` of the encoding switch no longer just returns an error status")
            enc_default = m.group(1)
            continue
        plain = bool(re.search(r"carquet_decode_plain\s*\(", text))
        dic = bool(re.search(r"carquet_rle_decode_all\s*\(", text)) and bool(re.search(r"has_dictionary", text))
        if plain == dic:
            raise TieError("foreign: arm %s of the encoding switch is neither the PLAIN nor the dictionary path" % labels)
        for l in labels:
            enc_map.append((l, 0 if plain else 1))
    if enc_default is None:
        raise TieError("foreign: the encoding switch of carquet_read_data_page_v1 has no default arm")
    dict_arm = next(text for labels, text in arms if "default" not in labels and re.search(r"carquet_rle_decode_all", text))
    gather, gather_default = [], None
    for labels, text in _switch(dict_arm, r"reader->type", "the dictionary gather"):
        if "default" in labels:
            m = re.search(r"return\s+(CARQUET_ERROR_\w+)\s*;", text)
            gather_default = m.group(1) if m else "OK_UNWRITTEN"
            labels = [l for l in labels if l != "default"]
        gather += labels
    if not re.search(r"reader->type\s*==\s*CARQUET_PHYSICAL_BYTE_ARRAY", dict_arm):
        raise TieError("foreign: the BYTE_ARRAY branch of the dictionary lookup was not recognised")
    gather.append("CARQUET_PHYSICAL_BYTE_ARRAY")
    if gather_default in (None, "OK_UNWRITTEN"):
        raise TieError("foreign: the dictionary gather's default arm does not return an error (a type without a "
                       "dictionary implementation would leave the value buffer unwritten and report OK)")

    # ---- page types (both load paths)
    decisions = []
    for fn, dict_loader in (("load_next_page_mmap", "load_dictionary_page_mmap"), ("load_next_page_fread", "load_dictionary_page_fread")):
        b = _function(src, fn)
        m1 = re.search(r"if\s*\(\s*page_header\.type\s*==\s*(CARQUET_PAGE_\w+)\s*&&\s*!\s*reader->has_dictionary\s*&&\s*reader->current_page\s*==\s*0\s*\)\s*\{"
                       r"\s*status\s*=\s*%s\s*\(" % dict_loader, b)
        m2 = re.search(r"if\s*\(\s*page_header\.type\s*==\s*(CARQUET_PAGE_\w+)\s*\)\s*\{[^}]*?return\s+(CARQUET_ERROR_\w+)\s*;", b, re.S)
        m3 = re.search(r"if\s*\(\s*page_header\.type\s*!=\s*(CARQUET_PAGE_\w+)\s*\)\s*\{[^}]*?return\s+(CARQUET_ERROR_\w+)\s*;", b, re.S)
        m0 = re.search(r"if\s*\(\s*col_meta->has_dictionary_page_offset\s*&&\s*!\s*reader->has_dictionary\s*\)\s*\{[^}]*?%s\s*\(" % dict_loader, b, re.S)
        if not (m0 and m1 and m2 and m3):
            raise TieError("foreign: the page-type decisions of %s were not recognised (%s)" % (
                fn, ", ".join(n for n, mm in (("announced dictionary", m0), ("dictionary fallback", m1), ("rejected type", m2), ("data page test", m3)) if not mm)))
        if not (m1.start() < m2.start() < m3.start()):
            raise TieError("foreign: %s tests the page type in another order" % fn)
        decisions.append((m1.group(1), m2.group(1), m2.group(2), m3.group(1), m3.group(2)))
    if decisions[0] != decisions[1]:
        raise TieError("foreign: the mmap and fread page loaders decide differently on the page type: %s" % decisions)
    fallback_type, rej_type, rej_err, data_type, other_err = decisions[0]

    E = lambda name: "E_" + name
    L = ["(** GENERATED by tools/gen.d/foreign.py from src/reader/page_reader.c of the repository's working tree - do not edit. *)",
         "From Coq Require Import ZArith NArith List Bool.", "From Carquet Require Import Gen.Enums_gen.", "Import ListNotations.", "Local Open Scope Z_scope.", "",
         "(** decompress_page: codec id -> decompressor (0 memcpy, 1 carquet_snappy_decompress, 2 carquet_lz4_decompress,",
         "    3 carquet_gzip_decompress, 4 carquet_zstd_decompress); None = the default arm *)",
         "Definition Foreign_codec_dispatch (codec : Z) : option nat :="]
    for name, k in codec_map:
        L.append("  if codec =? %s then Some %d%%nat else" % (E(name), k))
    L += ["  None.", "Definition Foreign_codec_default_error : Z := %s." % E(codec_default), "",
          "(** switch (header->encoding) of carquet_read_data_page_v1: 0 = carquet_decode_plain, 1 = dictionary indices; None = default *)",
          "Definition Foreign_value_encoding (e : Z) : option nat :="]
    for name, k in enc_map:
        L.append("  if e =? %s then Some %d%%nat else" % (E(name), k))
    L += ["  None.", "Definition Foreign_encoding_default_error : Z := %s." % E(enc_default), "",
          "(** the only level encoding accepted for a column that has levels, and the status returned otherwise *)",
          "Definition Foreign_level_encoding : Z := %s." % E(lev["def"][0]),
          "Definition Foreign_level_encoding_error : Z := %s." % E(lev["def"][1]), "",
          "(** load_next_page_*: a page of this type found first (no dictionary loaded yet) is loaded as the dictionary; *)",
          "Definition Foreign_page_dictionary : Z := %s." % E(fallback_type),
          "(** a page of this type is refused with this status; *)",
          "Definition Foreign_page_rejected : Z := %s." % E(rej_type),
          "Definition Foreign_page_rejected_error : Z := %s." % E(rej_err),
          "(** only this type is decoded as a data page, every other type gets this status *)",
          "Definition Foreign_page_data : Z := %s." % E(data_type),
          "Definition Foreign_page_other_error : Z := %s." % E(other_err), "",
          "(** carquet_read_dictionary_page: entry size by physical type (None: no fixed size - BYTE_ARRAY entries are",
          "    length-prefixed, BOOLEAN has no entry size) *)",
          "Definition Foreign_dict_entry_size (t : Z) (tlen : N) : option N :="]
    for t in ("BOOLEAN", "INT32", "INT64", "INT96", "FLOAT", "DOUBLE", "BYTE_ARRAY", "FIXED_LEN_BYTE_ARRAY"):
        L.append("  if t =? %s then %s else" % (E("CARQUET_PHYSICAL_" + t), size_term(DICT_SIZE[t], "dictionary entry size of " + t)))
    L += ["  None.", "",
          "(** get_value_size: bytes per decoded value (None: BYTE_ARRAY = a pointer/length pair, unknown types = 0) *)",
          "Definition Foreign_value_size (t : Z) (tlen : N) : option N :="]
    for t in ("BOOLEAN", "INT32", "INT64", "INT96", "FLOAT", "DOUBLE", "BYTE_ARRAY", "FIXED_LEN_BYTE_ARRAY"):
        L.append("  if t =? %s then %s else" % (E("CARQUET_PHYSICAL_" + t), size_term(vsz.get("CARQUET_PHYSICAL_" + t, vsz.get("default")), "value size of " + t)))
    L += ["  None.", "",
          "(** physical types the dictionary look-up serves; every other type gets the status below *)",
          "Definition Foreign_dict_types : list Z := [%s]." % "; ".join(E(g) for g in gather),
          "Definition Foreign_dict_type_error : Z := %s." % E(gather_default), ""]
    from vlib import write_if_changed
    write_if_changed(outdir / "Foreign_gen.v", "\n".join(L))
    return {"foreign": {"codec_dispatch": codec_map, "codec_default": codec_default, "value_encodings": enc_map,
                        "encoding_default": enc_default, "level_encoding": lev["def"], "page_types": decisions[0],
                        "dict_types": gather, "dict_type_error": gather_default}}
