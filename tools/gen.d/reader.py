"""Translator for C02/C03, tie (a): the few literals of the reader's cursor logic that the Coq models rely on,
read from the repository's *current* working tree, written to coq/theories/Gen/Reader_gen.v.

  src/reader/column_reader.c   chunk size of the read-and-discard loop of carquet_column_skip
  src/reader/mmap_reader.c     which physical types carquet_page_is_zero_copy_eligible accepts (after the codec /
                               encoding tests, whose shape is checked too)
  src/reader/batch_reader.c    polarity of the null bitmap: the comparison that sets a bit
                               (def_levels[...] < max_def  ->  bit set = null)
  include/carquet/carquet.h    the documentation of carquet_row_batch_column must not state the opposite polarity
A construct that is no longer found raises TieError (broken tie, reported by the check).
"""
import re
from pathlib import Path

try:
    from gen_consts import TieError
except Exception:  # pragma: no cover
    class TieError(Exception):
        pass

import sys
sys.path.insert(0, str(Path(__file__).resolve().parent.parent))


def _strip(s):
    s = re.sub(r"/\*.*?\*/", " ", s, flags=re.S)
    return re.sub(r"//[^\n]*", " ", s)


def reader_options_read(repo):
    """fields of carquet_reader_options_t that src/reader/*.c reads (beyond initialising / copying the struct).
    The I/O-mode model of C03 knows use_mmap (the mode itself) and verify_checksums (page CRC decision, C14); any other
    field that starts to influence the open or read path is a configuration the model does not cover - checks/C03.py
    reports that as a broken tie."""
    repo = Path(repo)
    found = {}
    for f in sorted((repo / "src/reader").glob("*.c")):
        txt = _strip(f.read_text())
        txt = re.sub(r"void\s+carquet_reader_options_init\s*\(.*?\n\}", " ", txt, flags=re.S)
        for m in re.finditer(r"options\s*(?:\.|->)\s*(\w+)", txt):
            found.setdefault(m.group(1), set()).add(f.name)
    return {k: sorted(v) for k, v in found.items()}


def generate(repo, outdir):
    repo, outdir = Path(repo), Path(outdir)
    col = _strip((repo / "src/reader/column_reader.c").read_text())
    m = re.search(r"carquet_column_skip\s*\(.*?int64_t\s+chunk_size\s*=\s*(\d+)\s*;", col, re.S)
    if not m:
        raise TieError("reader: chunk_size of carquet_column_skip not found in src/reader/column_reader.c")
    chunk = int(m.group(1))

    mm = _strip((repo / "src/reader/mmap_reader.c").read_text())
    m = re.search(r"bool\s+carquet_page_is_zero_copy_eligible\s*\((.*?)\)\s*\{(.*?)\n\}", mm, re.S)
    if not m:
        raise TieError("reader: carquet_page_is_zero_copy_eligible not found in src/reader/mmap_reader.c")
    body = m.group(2)
    if not re.search(r"codec\s*!=\s*CARQUET_COMPRESSION_UNCOMPRESSED\s*\)\s*\{\s*return\s+false", body):
        raise TieError("reader: zero-copy eligibility no longer requires an uncompressed chunk")
    if not re.search(r"encoding\s*!=\s*CARQUET_ENCODING_PLAIN\s*\)\s*\{\s*return\s+false", body):
        raise TieError("reader: zero-copy eligibility no longer requires PLAIN encoding")
    sw = re.search(r"switch\s*\(\s*type\s*\)\s*\{(.*)\}", body, re.S)
    if not sw:
        raise TieError("reader: type switch of carquet_page_is_zero_copy_eligible not found")
    elig, pending = {}, []
    for tokm in re.finditer(r"case\s+CARQUET_PHYSICAL_(\w+)\s*:|default\s*:|return\s+(true|false)\s*;", sw.group(1)):
        if tokm.group(2):
            for t in pending:
                elig[t] = tokm.group(2) == "true"
            pending = []
        elif tokm.group(1):
            pending.append(tokm.group(1))
        else:
            pending.append("default")
    names = ["BOOLEAN", "INT32", "INT64", "INT96", "FLOAT", "DOUBLE", "BYTE_ARRAY", "FIXED_LEN_BYTE_ARRAY"]
    for t in names:
        if t not in elig:
            if "default" in elig:
                elig[t] = elig["default"]
            else:
                raise TieError("reader: zero-copy eligibility of %s cannot be read from the type switch" % t)

    br = _strip((repo / "src/reader/batch_reader.c").read_text())
    sets = re.findall(r"if\s*\(\s*def_levels\s*\[[^\]]*\]\s*(<|>=|==|!=|>|<=)\s*max_def\s*\)\s*(?:\{\s*)?(?:null_bits|col_data->null_bitmap\s*\[[^\]]*\])\s*\|=", br)
    if not sets:
        raise TieError("reader: the null-bitmap construction loop of src/reader/batch_reader.c was not recognised")
    if len(set(sets)) != 1:
        raise TieError("reader: the null-bitmap construction uses different comparisons: %s" % sorted(set(sets)))
    if sets[0] != "<":
        raise TieError("reader: null bitmap bit is now set when def_level %s max_def (the models and the "
                       "specification fix: bit set = null, i.e. def_level < max_def)" % sets[0])
    # the public documentation must not contradict that polarity (it did in the pinned tree); a reworded comment is
    # not an error, only the explicit opposite statement is
    hdr = (repo / "include/carquet/carquet.h").read_text()
    m2 = re.search(r"carquet_status_t\s+carquet_row_batch_column\s*\(", hdr)
    if m2:
        doc = hdr[max(0, m2.start() - 2500):m2.start()]
        if re.search(r"set\s*=\s*not\s+null|set\s+if\s+value\s+i\s+is\s+NOT\s+null", doc, re.I):
            raise TieError("reader: include/carquet/carquet.h documents the null bitmap as 'bit set = NOT null' while "
                           "src/reader/batch_reader.c sets the bit for null rows")
    zc = re.search(r"col_data->null_bitmap\s*=\s*calloc\s*\(\s*1\s*,\s*bitmap_size\s*\)", br)
    if not zc:
        raise TieError("reader: the bitmaps of the batch reader are no longer zero-initialised (calloc)")

    lines = ["(** GENERATED by tools/gen.d/reader.py from the repository's working tree - do not edit. *)",
             "From Coq Require Import ZArith List Bool.", "Import ListNotations.", "",
             "(** chunk size of the read-and-discard loop of carquet_column_skip *)",
             "Definition Reader_skip_chunk : Z := %d%%Z." % chunk, "",
             "(** carquet_page_is_zero_copy_eligible by physical type id (codec UNCOMPRESSED and encoding PLAIN required) *)",
             "Definition Reader_zero_copy_type (physical_type : nat) : bool :=",
             "  match physical_type with"]
    for i, t in enumerate(names):
        lines.append("  | %d => %s   (* %s *)" % (i, "true" if elig[t] else "false", t))
    lines += ["  | _ => false", "  end.", "",
              "(** a set bit of the null bitmap means: definition level < max_def (null) *)",
              "Definition Reader_bit_set_means_null : bool := true.", ""]
    from vlib import write_if_changed
    write_if_changed(outdir / "Reader_gen.v", "\n".join(lines))
    return {"reader": {"skip_chunk": chunk, "zero_copy_types": [t for t in names if elig[t]], "bitmap_bit_set": "def<max_def"}}
