"""Translator for C15, tie (a): the SIMD dispatch table and the intrinsic inventory, as Coq data.

Reads (from the repository's *current* working tree)

  src/simd/dispatch.c      the slots of carquet_simd_dispatch_t, the scalar base assignments, and for each
                           `if (cpu->has_X [&& cpu->has_Y ...]) { ... }` block of carquet_simd_dispatch_init the
                           list of (slot, kernel symbol) assignments in source order; the carquet_dispatch_*
                           wrappers (entry point -> slot)
  include/carquet/carquet.h  the x86 has_* fields of carquet_cpu_info_t (the features detection can report)
  src/simd/detect.c        every has_* field must be assigned from CPUID there
  CMakeLists.txt           per-file COMPILE_FLAGS of the three x86 kernel files (GCC-like branch)
  src/simd/x86/*.c         per function: the _mm* intrinsics it uses (after conditional compilation with exactly
                           those flags, `gcc -E -fdirectives-only`), transitively through same-file callees

and writes coq/theories/Gen/Dispatch_gen.v and Gen/Intrinsics_gen.v.  Every intrinsic must be in the
table INTRINSIC_FEATURE below (which is itself cross-checked against the `#pragma GCC target` sections
of the compiler's own intrinsic headers); an unknown intrinsic - in particular any aligned load/store form -
or any construct of carquet_simd_dispatch_init that is not one of the shapes above raises TieError.
"""
import re, subprocess, glob, os, json
from pathlib import Path

try:
    from gen_consts import TieError
except Exception:  # pragma: no cover
    class TieError(Exception):
        pass

X86_FILES = ["src/simd/x86/sse_ops.c", "src/simd/x86/avx2_ops.c", "src/simd/x86/avx512_ops.c"]
DISPATCH_DEFINES = ["CARQUET_ARCH_X86", "CARQUET_ENABLE_SSE", "CARQUET_ENABLE_AVX2", "CARQUET_ENABLE_AVX512"]

# feature names (Coq constructors are F_<name>); order = bit order of capability masks used by the check
FEATURES = ["sse", "sse2", "sse3", "ssse3", "sse41", "sse42", "avx", "avx2", "avx512f", "avx512bw", "avx512vl",
            "avx512vbmi", "avx512cd", "bmi2"]
# gcc target string -> feature
TARGET_FEATURE = {"sse": "sse", "sse2": "sse2", "sse3": "sse3", "ssse3": "ssse3", "sse4.1": "sse41",
                  "sse4.2": "sse42", "crc32": "sse42", "avx": "avx", "avx2": "avx2", "avx512f": "avx512f",
                  "avx512bw": "avx512bw", "avx512vl": "avx512vl", "avx512vbmi": "avx512vbmi",
                  "avx512cd": "avx512cd", "bmi2": "bmi2", None: "sse"}
# -m flag -> feature (CMake COMPILE_FLAGS)
FLAG_FEATURE = {"-msse4.2": "sse42", "-mavx2": "avx2", "-mbmi2": "bmi2", "-mavx512f": "avx512f",
                "-mavx512bw": "avx512bw", "-mavx512vl": "avx512vl", "-mavx512vbmi": "avx512vbmi",
                "-mavx512cd": "avx512cd", "-mavx": "avx", "-msse4.1": "sse41", "-mssse3": "ssse3"}

_I = {
    "sse": ["_mm_prefetch", "_mm_set_ps", "_mm_storeu_ps"],
    "sse2": ["_mm_add_epi16", "_mm_add_epi32", "_mm_add_epi64", "_mm_and_si128", "_mm_cmpeq_epi16",
             "_mm_cmpeq_epi32", "_mm_cmpeq_epi8", "_mm_cmplt_epi16", "_mm_cvtsi128_si32", "_mm_cvtsi32_si128",
             "_mm_cvtsi64_si128", "_mm_extract_epi16", "_mm_loadl_epi64", "_mm_loadu_si128", "_mm_min_epu8",
             "_mm_movemask_epi8", "_mm_mullo_epi16", "_mm_packs_epi16", "_mm_set1_epi16", "_mm_set1_epi32",
             "_mm_set1_epi64x", "_mm_set1_epi8", "_mm_set_epi32", "_mm_set_epi64x", "_mm_set_epi8", "_mm_set_pd",
             "_mm_setzero_si128", "_mm_slli_epi32", "_mm_slli_si128", "_mm_srli_epi16", "_mm_srli_si128",
             "_mm_storel_epi64", "_mm_storeu_pd", "_mm_storeu_si128", "_mm_unpackhi_epi16", "_mm_unpackhi_epi64",
             "_mm_unpackhi_epi8", "_mm_unpacklo_epi16", "_mm_unpacklo_epi8"],
    "ssse3": ["_mm_shuffle_epi8"],
    "sse41": ["_mm_extract_epi32"],
    "sse42": ["_mm_crc32_u8", "_mm_crc32_u16", "_mm_crc32_u32", "_mm_crc32_u64"],
    "avx": ["_mm256_extract_epi32", "_mm256_loadu_si256", "_mm256_set1_epi32", "_mm256_set1_epi64x",
            "_mm256_set1_epi8", "_mm256_set_epi8", "_mm256_storeu_si256"],
    "avx2": ["_mm256_add_epi32", "_mm256_add_epi64", "_mm256_and_si256", "_mm256_cmpeq_epi32",
             "_mm256_cvtepu16_epi32", "_mm256_cvtepu8_epi32", "_mm256_extracti128_si256", "_mm256_i32gather_epi32",
             "_mm256_i32gather_epi64", "_mm256_inserti128_si256", "_mm256_min_epu8", "_mm256_movemask_epi8",
             "_mm256_shuffle_epi8", "_mm256_slli_si256"],
    "avx512f": ["_mm512_add_epi32", "_mm512_add_epi64", "_mm512_castsi512_si128", "_mm512_cmpeq_epi32_mask",
                "_mm512_cmpneq_epi32_mask", "_mm512_cvtepu16_epi32", "_mm512_cvtepu8_epi32",
                "_mm512_extracti32x4_epi32", "_mm512_i32gather_epi32", "_mm512_i32gather_epi64",
                "_mm512_loadu_si512", "_mm512_maskz_alignr_epi32", "_mm512_maskz_alignr_epi64",
                "_mm512_permutexvar_epi32", "_mm512_set1_epi32", "_mm512_set1_epi64", "_mm512_set1_epi8",
                "_mm512_set_epi32", "_mm512_set_epi8", "_mm512_setzero_si512", "_mm512_storeu_si512"],
    "avx512bw": ["_mm512_maskz_loadu_epi8", "_mm512_maskz_set1_epi8", "_mm512_shuffle_epi8",
                 "_mm512_test_epi8_mask"],
    "avx512vbmi": ["_mm512_permutexvar_epi8"],
    "avx512cd": ["_mm512_conflict_epi32"],
}
INTRINSIC_FEATURE = {n: f for f, ns in _I.items() for n in ns}

_HDR_DIRS = sorted(glob.glob("/usr/lib/gcc/x86_64-linux-gnu/*/include"))


def header_targets():
    """intrinsic name -> set of gcc target strings, read from the compiler's intrinsic headers."""
    m = {}
    for d in _HDR_DIRS[-1:]:
        for f in sorted(glob.glob(d + "/*intrin.h")):
            cur = None
            for line in open(f, errors="replace"):
                t = re.match(r'\s*#\s*pragma\s+GCC\s+target\s*\(\s*"([^"]*)"', line)
                if t:
                    cur = t.group(1)
                    continue
                if re.match(r"\s*#\s*pragma\s+GCC\s+pop_options", line):
                    cur = None
                    continue
                n = re.match(r"(_mm\d*_\w+)\s*\(", line) or re.match(r"\s*#\s*define\s+(_mm\d*_\w+)\s*\(", line)
                if n:
                    m.setdefault(n.group(1), set()).add(cur)
    return m


def _strip_comments(s):
    s = re.sub(r"/\*.*?\*/", lambda m: re.sub(r"[^\n]", " ", m.group(0)), s, flags=re.S)
    return re.sub(r"//[^\n]*", " ", s)


# ---------------------------------------------------------------------------------------------- dispatch.c

def _active_lines(body, defined):
    """Evaluate the #if/#ifdef structure of `body` with exactly `defined` macros defined; returns the
    active lines.  Only `defined(X)` / `#ifdef X` / `#ifndef X` / `#else` / `#endif` are understood."""
    out, stack = [], []   # stack of [active_now, any_branch_taken, parent_active]
    for line in body.splitlines():
        s = line.strip()
        m = re.match(r"#\s*(ifdef|ifndef|if|elif|else|endif)\b(.*)", s)
        if not m:
            if all(fr[0] for fr in stack):
                out.append(line)
            continue
        kind, rest = m.group(1), m.group(2).strip()
        if kind in ("ifdef", "ifndef", "if", "elif"):
            if kind == "ifdef":
                v = rest in defined
            elif kind == "ifndef":
                v = rest not in defined
            else:
                e = re.sub(r"defined\s*\(\s*(\w+)\s*\)", lambda k: "1" if k.group(1) in defined else "0", rest)
                if not re.fullmatch(r"[01\s()&|!]*", e):
                    raise TieError("dispatch.c: preprocessor condition not understood: #%s %s" % (kind, rest))
                e = e.replace("&&", " and ").replace("||", " or ").replace("!", " not ")
                v = bool(eval(e))
            if kind == "elif":
                if not stack:
                    raise TieError("dispatch.c: #elif without #if")
                fr = stack[-1]
                fr[0] = (not fr[1]) and v
                fr[1] = fr[1] or v
            else:
                stack.append([v, v])
        elif kind == "else":
            fr = stack[-1]
            fr[0] = not fr[1]
            fr[1] = True
        else:
            if not stack:
                raise TieError("dispatch.c: unbalanced #endif")
            stack.pop()
    if stack:
        raise TieError("dispatch.c: unbalanced #if")
    return out


def parse_dispatch(text):
    code = _strip_comments(text)
    m = re.search(r"typedef\s+struct\s*\{([^}]*)\}\s*carquet_simd_dispatch_t\s*;", code, re.S)
    if not m:
        raise TieError("dispatch.c: carquet_simd_dispatch_t not found")
    slots = re.findall(r"\b\w+\s+(\w+)\s*;", m.group(1))
    if not slots or len(set(slots)) != len(slots):
        raise TieError("dispatch.c: cannot read the slots of carquet_simd_dispatch_t")
    m = re.search(r"^void\s+carquet_simd_dispatch_init\s*\(\s*void\s*\)\s*\{\n(.*?)^\}", code, re.S | re.M)
    if not m:
        raise TieError("dispatch.c: carquet_simd_dispatch_init not found")
    lines = _active_lines(m.group(1), set(DISPATCH_DEFINES))
    body = "\n".join(lines)
    # tokenise into statements / blocks
    pos, n = 0, len(body)
    base, blocks = [], []
    seen_end = False
    assign_re = re.compile(r"\s*g_dispatch\.(\w+)\s*=\s*(\w+)\s*;")
    if_re = re.compile(r"\s*if\s*\(([^{}]*)\)\s*\{")
    skip_res = [re.compile(r"\s*if\s*\(\s*g_dispatch_initialized\s*\)\s*\{\s*return\s*;\s*\}"),
                re.compile(r"\s*const\s+carquet_cpu_info_t\s*\*\s*cpu\s*=\s*carquet_get_cpu_info\s*\(\s*\)\s*;"),
                re.compile(r"\s*\(\s*void\s*\)\s*cpu\s*;")]
    end_re = re.compile(r"\s*g_dispatch_initialized\s*=\s*1\s*;")
    while True:
        ws = re.compile(r"\s*").match(body, pos)
        pos = ws.end()
        if pos >= n:
            break
        if seen_end:
            raise TieError("dispatch.c: statements after g_dispatch_initialized = 1")
        hit = False
        for r in skip_res:
            k = r.match(body, pos)
            if k:
                pos = k.end()
                hit = True
                break
        if hit:
            continue
        k = end_re.match(body, pos)
        if k:
            pos = k.end()
            seen_end = True
            continue
        k = assign_re.match(body, pos)
        if k:
            if blocks:
                raise TieError("dispatch.c: unconditional assignment after a feature block (override order changed)")
            base.append((k.group(1), k.group(2)))
            pos = k.end()
            continue
        k = if_re.match(body, pos)
        if k:
            cond = k.group(1).strip()
            feats = []
            for part in cond.split("&&"):
                c = re.fullmatch(r"\s*\(?\s*cpu->has_(\w+)\s*\)?\s*", part)
                if not c:
                    raise TieError("dispatch.c: block condition not a conjunction of cpu->has_*: %r" % cond)
                feats.append(c.group(1))
            pos = k.end()
            asg = []
            while True:
                ws = re.compile(r"\s*").match(body, pos)
                pos = ws.end()
                if body.startswith("}", pos):
                    pos += 1
                    break
                a = assign_re.match(body, pos)
                if not a:
                    raise TieError("dispatch.c: statement inside `if (%s)` is not a slot assignment: %r"
                                   % (cond, body[pos:pos + 60]))
                asg.append((a.group(1), a.group(2)))
                pos = a.end()
            blocks.append((feats, asg))
            continue
        raise TieError("dispatch.c: construct in carquet_simd_dispatch_init not understood: %r" % body[pos:pos + 80])
    if not seen_end:
        raise TieError("dispatch.c: g_dispatch_initialized = 1 not found")
    for s, _ in base + [a for _, asg in blocks for a in asg]:
        if s not in slots:
            raise TieError("dispatch.c: assignment to unknown slot %s" % s)
    missing = [s for s in slots if s not in [b[0] for b in base]]
    if missing:
        raise TieError("dispatch.c: slots without a scalar base assignment: %s" % missing)
    # wrappers: carquet_dispatch_X(...) { ... g_dispatch.SLOT(...) }
    entries = []
    for w in re.finditer(r"^[\w\s\*]+?\b(carquet_dispatch_\w+)\s*\([^)]*\)\s*\{\n(.*?)^\}", code, re.S | re.M):
        used = re.findall(r"g_dispatch\.(\w+)\s*\(", w.group(2))
        if len(used) != 1 or "carquet_simd_dispatch_init" not in w.group(2):
            raise TieError("dispatch.c: wrapper %s does not have the expected shape" % w.group(1))
        entries.append((w.group(1), used[0]))
    if sorted(e[1] for e in entries) != sorted(slots):
        raise TieError("dispatch.c: wrappers and slots do not correspond one to one")
    # scalar definitions present
    statics = set(re.findall(r"^static\s+[\w\s\*]+?\b(scalar_\w+)\s*\(", code, re.M))
    for s, k in base:
        if k not in statics:
            raise TieError("dispatch.c: base assignment %s = %s is not a static scalar definition" % (s, k))
    return {"slots": slots, "base": base, "blocks": blocks, "entries": entries}


def parse_cpu_info(hdr, detect):
    m = re.search(r"typedef\s+struct\s+carquet_cpu_info\s*\{(.*?)\}\s*carquet_cpu_info_t\s*;", _strip_comments(hdr), re.S)
    if not m:
        raise TieError("carquet.h: carquet_cpu_info_t not found")
    fields = re.findall(r"\bbool\s+has_(\w+)\s*;", m.group(1))
    x86 = [f for f in fields if f in FEATURES]
    for f in x86:
        if not re.search(r"g_cpu_info\.has_%s\s*=\s*\(" % f, detect):
            raise TieError("detect.c: has_%s is never assigned from CPUID" % f)
    return x86


# ---------------------------------------------------------------------------------------------- kernels

def cmake_flags(cm):
    """per-file COMPILE_FLAGS of the GCC-like branch (the first set_source_files_properties for each file)."""
    out = {}
    for rel in X86_FILES:
        m = re.search(r"set_source_files_properties\(\s*" + re.escape(rel) + r"\s+PROPERTIES\s+COMPILE_FLAGS\s+\"([^\"]*)\"", cm)
        if not m:
            raise TieError("CMakeLists.txt: COMPILE_FLAGS of %s not found" % rel)
        flags = m.group(1).split()
        for f in flags:
            if f not in FLAG_FEATURE:
                raise TieError("CMakeLists.txt: flag %s of %s is not a known ISA flag" % (f, rel))
        out[rel] = flags
    return out


def preprocess(repo, rel, flags):
    """The file's own text after conditional compilation (macros not expanded)."""
    cmd = (["gcc", "-E", "-fdirectives-only", "-std=gnu11"] + flags + ["-D" + d for d in DISPATCH_DEFINES] +
           ["-I", str(repo / "include"), "-I", str(repo / "src"), str(repo / rel)])
    p = subprocess.run(cmd, capture_output=True, text=True, timeout=120)
    if p.returncode != 0:
        raise TieError("%s does not preprocess with its CMake flags %s: %s" % (rel, flags, p.stderr[-500:]))
    keep, mine = [], False
    me = str(repo / rel)
    for line in p.stdout.splitlines():
        m = re.match(r'#\s+\d+\s+"([^"]*)"', line)
        if m:
            mine = (m.group(1) == me)
            continue
        if mine and not line.lstrip().startswith("#"):
            keep.append(line)
    return _strip_comments("\n".join(keep))


def split_functions(text, rel):
    """name -> body for every function defined at top level (definitions end with a `}` in column 0)."""
    fns = {}
    for m in re.finditer(r"^(?!typedef)([A-Za-z_][\w\s\*]*?)\b(\w+)\s*\(([^;{}]*)\)\s*\{\n(.*?)^\}", text, re.S | re.M):
        name = m.group(2)
        if name in ("if", "for", "while", "switch"):
            continue
        fns[name] = m.group(4)
    if not fns:
        raise TieError("%s: no function definitions found" % rel)
    return fns


def kernel_inventory(repo, flags, strict=True, errors=None):
    inv = {}
    for rel in X86_FILES:
        text = preprocess(repo, rel, flags[rel])
        fns = split_functions(text, rel)
        direct = {n: sorted(set(re.findall(r"\b_mm\d*_\w+", b))) for n, b in fns.items()}
        calls = {n: sorted({c for c in fns if c != n and re.search(r"\b%s\s*\(" % re.escape(c), b)})
                 for n, b in fns.items()}
        for n in fns:
            seen, todo, acc = {n}, [n], set()
            while todo:
                x = todo.pop()
                acc |= set(direct[x])
                for c in calls[x]:
                    if c not in seen:
                        seen.add(c)
                        todo.append(c)
            unknown = sorted(i for i in acc if i not in INTRINSIC_FEATURE)
            if unknown:
                msg = ("%s: %s uses intrinsics with no modelled ISA requirement / semantics: %s"
                       % (rel, n, ", ".join(unknown)))
                if strict:
                    raise TieError(msg)
                errors.append(msg)
            inv[n] = {"file": rel, "intrinsics": sorted(acc), "static": not n.startswith("carquet_"), "unknown": unknown,
                      "features": sorted({INTRINSIC_FEATURE[i] for i in acc if i in INTRINSIC_FEATURE}, key=FEATURES.index)}
    return inv


def check_table_against_headers():
    ht = header_targets()
    if not ht:
        return "compiler intrinsic headers not found; INTRINSIC_FEATURE used unchecked"
    for n, f in INTRINSIC_FEATURE.items():
        if n not in ht:
            raise TieError("intrinsic %s is not defined by the compiler's headers" % n)
        feats = set()
        for t in ht[n]:
            for part in ([None] if t is None else t.split(",")):
                if part not in TARGET_FEATURE:
                    raise TieError("intrinsic %s: unknown gcc target %r" % (n, part))
                feats.add(TARGET_FEATURE[part])
        if feats != {f}:
            raise TieError("intrinsic %s: table says %s, compiler headers say %s" % (n, f, sorted(feats)))
    return "INTRINSIC_FEATURE agrees with the #pragma GCC target sections of %s" % _HDR_DIRS[-1]


# ---------------------------------------------------------------------------------------------- output

def coq_list(items, per_line=4, indent="  "):
    if not items:
        return "[]"
    rows = ["; ".join(items[i:i + per_line]) for i in range(0, len(items), per_line)]
    return "[" + (";\n" + indent + " ").join(rows) + "]"


def analyse(repo, strict=True):
    """strict=False (used by the check only to keep searching for a failing input after the tie broke): unknown intrinsics are
    recorded in result['errors'] instead of raising."""
    repo = Path(repo)
    errors = []
    for rel in ["src/simd/dispatch.c", "src/simd/detect.c", "include/carquet/carquet.h", "CMakeLists.txt"] + X86_FILES:
        if not (repo / rel).exists():
            raise TieError("%s is gone" % rel)
    d = parse_dispatch((repo / "src/simd/dispatch.c").read_text())
    detected = parse_cpu_info((repo / "include/carquet/carquet.h").read_text(), (repo / "src/simd/detect.c").read_text())
    for feats, _ in d["blocks"]:
        for f in feats:
            if f not in detected:
                raise TieError("dispatch.c: block keyed on has_%s, which is not an x86 field of carquet_cpu_info_t" % f)
    flags = cmake_flags((repo / "CMakeLists.txt").read_text())
    inv = kernel_inventory(repo, flags, strict, errors)
    for _, asg in d["blocks"]:
        for s, k in asg:
            if k not in inv:
                raise TieError("dispatch.c assigns %s = %s, which is not defined in src/simd/x86/*.c" % (s, k))
    note = check_table_against_headers()
    return {"dispatch": d, "detected": detected, "flags": flags, "inventory": inv, "headers": note, "errors": errors}


def generate(repo, outdir):
    from vlib import write_if_changed
    a = analyse(repo)
    d, inv = a["dispatch"], a["inventory"]
    outdir = Path(outdir)
    kernels = [k for _, k in d["base"]] + sorted(inv, key=lambda n: (X86_FILES.index(inv[n]["file"]), n))
    L = ["(* GENERATED by tools/gen.d/dispatch.py from src/simd/dispatch.c, include/carquet/carquet.h - do not edit. *)",
         "From Coq Require Import List Bool String.", "Import ListNotations.", "Local Open Scope string_scope.", "",
         "(* the slots of carquet_simd_dispatch_t, in declaration order *)",
         "Inductive slot : Set := " + " | ".join("S_" + s for s in d["slots"]) + ".",
         "Scheme Equality for slot.",
         "Definition all_slots : list slot := " + coq_list(["S_" + s for s in d["slots"]], 6) + ".",
         "Definition slot_index (s : slot) : nat :=\n  match s with\n" +
         "\n".join('  | S_%s => %d' % (x, i) for i, x in enumerate(d["slots"])) + "\n  end.",
         "Definition slot_name (s : slot) : string :=\n  match s with\n" +
         "\n".join('  | S_%s => "%s"' % (x, x) for x in d["slots"]) + "\n  end.", "",
         "(* x86 ISA features: those a kernel may require; [detected_features] are the has_* fields detection reports *)",
         "Inductive feature : Set := " + " | ".join("F_" + f for f in FEATURES) + ".",
         "Scheme Equality for feature.",
         "Definition all_features : list feature := " + coq_list(["F_" + f for f in FEATURES], 8) + ".",
         "Definition detected_features : list feature := " + coq_list(["F_" + f for f in a["detected"]], 8) + ".", "",
         "(* the scalar definitions of dispatch.c and every function defined in src/simd/x86/*.c *)",
         "Inductive kernel : Set :=\n  " + "\n  | ".join("K_" + k for k in kernels) + ".",
         "Definition all_kernels : list kernel := " + coq_list(["K_" + k for k in kernels], 3) + ".", "",
         "(* carquet_simd_dispatch_init: unconditional scalar assignments first ... *)",
         "Definition base_table : list (slot * kernel) :=\n  " +
         coq_list(["(S_%s, K_%s)" % sk for sk in d["base"]], 2) + ".", "",
         "(* ... then, in source order, each `if (cpu->has_X && ...)` block: (features tested, assignments in order) *)",
         "Definition override_blocks : list (list feature * list (slot * kernel)) :=\n  [" +
         ";\n   ".join("(%s,\n    %s)" % (coq_list(["F_" + f for f in feats]),
                                          coq_list(["(S_%s, K_%s)" % sk for sk in asg], 2, "    "))
                        for feats, asg in d["blocks"]) + "].", ""]
    write_if_changed(outdir / "Dispatch_gen.v", "\n".join(L) + "\n")

    names = sorted(inv, key=lambda n: (X86_FILES.index(inv[n]["file"]), n))
    allint = sorted(INTRINSIC_FEATURE)
    M = ["(* GENERATED by tools/gen.d/dispatch.py from src/simd/x86/*.c and CMakeLists.txt - do not edit. *)",
         "From Coq Require Import List String.", "From Carquet Require Import Gen.Dispatch_gen.",
         "Import ListNotations.", "Local Open Scope string_scope.", "",
         "(* ISA feature whose instructions implement each intrinsic (cross-checked against the compiler's headers) *)",
         "Definition intrinsic_feature : list (string * feature) :=\n  " +
         coq_list(['("%s", F_%s)' % (i, INTRINSIC_FEATURE[i]) for i in allint], 2) + ".", "",
         "(* intrinsics used by each function after conditional compilation with its CMake flags, transitively through same-file callees *)",
         "Definition intrinsics_of (k : kernel) : list string :=\n  match k with"]
    for n in names:
        M.append("  | K_%s => %s" % (n, coq_list(['"%s"' % i for i in inv[n]["intrinsics"]], 4, "      ")))
    M += ["  | _ => []", "  end.", "",
          "Definition kernel_index (k : kernel) : nat :=\n  match k with\n" +
          "\n".join('  | K_%s => %d' % (k, i) for i, k in enumerate(kernels)) + "\n  end.", "",
          "Definition kernel_name (k : kernel) : string :=\n  match k with\n" +
          "\n".join('  | K_%s => "%s"' % (k, k) for k in kernels) + "\n  end.", "",
          "(* hence the ISA features each function needs in order to execute *)",
          "Definition requires (k : kernel) : list feature :=\n  match k with"]
    for n in names:
        M.append("  | K_%s => %s" % (n, coq_list(["F_" + f for f in inv[n]["features"]], 8)))
    M += ["  | _ => []", "  end.", "",
          "(* the -m flags of the translation unit each function is compiled in (CMakeLists.txt, GCC-like branch) *)",
          "Definition tu_flags (k : kernel) : list feature :=\n  match k with"]
    for n in names:
        M.append("  | K_%s => %s" % (n, coq_list(["F_" + FLAG_FEATURE[f] for f in a["flags"][inv[n]["file"]]], 8)))
    M += ["  | _ => []", "  end.", ""]
    write_if_changed(outdir / "Intrinsics_gen.v", "\n".join(M) + "\n")
    return {"Dispatch_slots": len(d["slots"]), "Dispatch_slot_names": d["slots"], "Dispatch_kernel_names": kernels,
            "Dispatch_blocks": [[feats, len(asg)] for feats, asg in d["blocks"]],
            "Intrinsics_functions": len(inv), "Intrinsics_distinct": len({i for v in inv.values() for i in v["intrinsics"]}),
            "Intrinsics_headers": a["headers"]}


if __name__ == "__main__":
    import sys
    sys.path.insert(0, str(Path(__file__).resolve().parent.parent))
    r = analyse(sys.argv[1] if len(sys.argv) > 1 else "/repo")
    print(json.dumps({"blocks": r["dispatch"]["blocks"], "detected": r["detected"], "flags": r["flags"],
                      "features": {k: v["features"] for k, v in r["inventory"].items()}, "headers": r["headers"]}, indent=1))
