"""Translator for C19: the table of allocation call sites of the library, read from the sources.

For every call of an allocating function (malloc family, arena requests, growable-buffer appends and the
status-returning helpers that wrap them) in the files the allocation-failure scenarios pass through, decide
from the text around the call what the code does with the result:

  Checked     the pointer / status is tested before it is used (if (!p), if (status != OK), p ? .. : ..,
              CHECK_ARENA_ARRAY(p, ..), latched into an encoder/decoder status, ...)
  Propagated  the result is returned to the caller as it is (return malloc(..); return f(..);)
  Ignored     a status result is dropped (call used as a statement, or cast to void)
  Unchecked   a pointer result is used (or stored for later use) without a test

The output coq/theories/Gen/AllocSites_gen.v is what Alloc/SiteModel.v's theorem `all_sites_checked`
is checked against on every run, so a new unchecked site breaks the proof.  The classification is
validated against the observed behaviour of the k-th-request-fails harness by checks/C19.py.
"""
import re
from pathlib import Path

FILES = [
    "src/core/arena.c", "src/core/buffer.c",
    "src/writer/page_writer.c", "src/writer/column_writer.c", "src/writer/row_group_writer.c", "src/writer/file_writer.c",
    "src/reader/file_reader.c", "src/reader/mmap_reader.c", "src/reader/page_reader.c", "src/reader/column_reader.c",
    "src/reader/batch_reader.c", "src/thrift/parquet_types.c", "src/thrift/thrift_encode.c", "src/metadata/schema.c",
    "src/encoding/rle.c", "src/encoding/plain.c",
]

PTR_FUNCS = r"(?:malloc|calloc|realloc|strdup|carquet_arena_alloc_aligned|carquet_arena_alloc|carquet_arena_calloc|" \
            r"carquet_arena_strdup|carquet_arena_strndup|carquet_arena_memdup|arena_new_block|arena_strdup_thrift|" \
            r"arena_bindup_thrift|carquet_buffer_advance|carquet_column_writer_create|carquet_page_writer_create|" \
            r"carquet_row_group_writer_create)"
STATUS_FUNCS = r"(?:carquet_buffer_append\w*|carquet_buffer_reserve|carquet_buffer_resize|carquet_buffer_init_capacity|" \
               r"carquet_buffer_init_copy|ensure_capacity|carquet_arena_init_size|carquet_arena_init|encode_levels|" \
               r"compress_data|carquet_rle_encode_all|carquet_rle_encode_levels|carquet_rle_encoder_put|carquet_rle_encoder_flush|" \
               r"carquet_encode_plain_\w+|schema_ensure_capacity|carquet_page_writer_add_values|carquet_page_writer_finalize|" \
               r"flush_current_page|carquet_column_writer_write_batch|carquet_column_writer_finalize|" \
               r"carquet_row_group_writer_add_column|carquet_row_group_writer_finalize|flush_row_group|ensure_row_group|" \
               r"add_column_internal|build_file_metadata|parquet_write_file_metadata)"

FUNC_RE = re.compile(r"^(?:static\s+)?(?:inline\s+)?[A-Za-z_][\w\s\*]*?\b([A-Za-z_]\w*)\s*\([^;{]*\)\s*\{", re.M)


def strip_comments(t):
    t = re.sub(r"/\*.*?\*/", lambda m: re.sub(r"[^\n]", " ", m.group(0)), t, flags=re.S)
    t = re.sub(r"//[^\n]*", "", t)
    return t


def functions(text):
    """[(name, start, end)] of top-level function bodies"""
    out = []
    for m in FUNC_RE.finditer(text):
        name = m.group(1)
        if name in ("if", "for", "while", "switch", "return", "sizeof"):
            continue
        i = m.end() - 1
        depth = 0
        j = i
        while j < len(text):
            c = text[j]
            if c == "{":
                depth += 1
            elif c == "}":
                depth -= 1
                if depth == 0:
                    break
            j += 1
        out.append((name, m.start(), j))
    return out


def stmt_around(body, pos):
    """the statement containing pos: from the previous ; { } to the matching ;"""
    a = pos
    while a > 0 and body[a - 1] not in ";{}":
        a -= 1
    b = pos
    depth = 0
    while b < len(body):
        c = body[b]
        if c == "(":
            depth += 1
        elif c == ")":
            depth -= 1
        elif c in ";{" and depth <= 0:
            break
        b += 1
    return a, b


def classify_ptr(body, a, b, call_start):
    stmt = body[a:b].strip()
    after = body[b:b + 900]
    if re.match(r"return\b", stmt):
        return "Propagated"
    # inside a condition: if (!(p = malloc..)) / if (!malloc(..))
    if re.match(r"(?:else\s+)?if\s*\(", stmt) or re.match(r"while\s*\(", stmt):
        return "Checked"
    m = re.match(r"(?:[A-Za-z_][\w\s\*]*?\s+\**)?([A-Za-z_][\w\.\->\[\]\s\+\*]*?)\s*=\s*(?:\([^)]*\)\s*)?" + PTR_FUNCS + r"\s*\(", stmt, re.S)
    if not m:
        # result passed straight into another call or dropped
        return "Unchecked"
    var = m.group(1).strip()
    var = re.sub(r"\s+", "", var)
    v = re.escape(var)
    nb = r"(?![\w\[\.\-])"
    neg = [rf"!\s*{v}{nb}", rf"{v}\s*==\s*NULL", rf"NULL\s*==\s*{v}{nb}", rf"CHECK_ARENA_ARRAY\(\s*{v}\s*,"]
    pos = [rf"if\s*\(\s*{v}\s*\)", rf"if\s*\(\s*{v}\s*&&", rf"&&\s*{v}\s*[\)&]", rf"{v}\s*\?", rf"{v}\s*!=\s*NULL"]
    ret = [rf"return\s+{v}\s*;"]
    # look ahead: up to the next 16 lines, but a dereference of the variable that comes first decides
    look = "\n".join(after.split("\n")[:16])

    def first(pats):
        return min([mm.start() for t in pats for mm in [re.search(t, look)] if mm] or [10 ** 9])
    first_neg, first_pos, first_ret = first(neg), first(pos), first(ret)
    deref = [rf"{v}\s*\[", rf"{v}\s*->", rf"\*\s*{v}{nb}", rf"mem(?:cpy|set|move)\s*\(\s*{v}{nb}"]
    first_use = first(deref)
    first_test = min(first_neg, first_pos, first_ret)
    if first_use < first_test:
        return "Unchecked"
    if first_neg < 10 ** 9 and first_neg <= first_pos:
        return "Checked"
    if first_ret < 10 ** 9:
        return "Propagated"          # e.g. if (copy) memcpy(copy, ..); return copy;
    if first_pos < 10 ** 9:
        # only a positive guard: NULL is silently treated as "nothing to do" unless an else branch (or a
        # later negative test) deals with it
        tail = look[first_pos:]
        if re.search(r"\}\s*else\b", tail) or first_neg < 10 ** 9:
            return "Checked"
        return "Ignored"
    return "Unchecked"


def enclosing_switch_end(body, pos):
    """end of the innermost switch block that contains pos (or None)"""
    best = None
    for m in re.finditer(r"\bswitch\s*\([^)]*\)\s*\{", body[:pos]):
        i = m.end() - 1
        depth = 0
        j = i
        while j < len(body):
            if body[j] == "{":
                depth += 1
            elif body[j] == "}":
                depth -= 1
                if depth == 0:
                    break
            j += 1
        if j > pos:
            best = j
    return best


def classify_status(body, a, b):
    stmt = body[a:b].strip()
    if re.match(r"return\b", stmt):
        return "Propagated"
    if re.match(r"(?:else\s+)?if\s*\(", stmt) or "?" in stmt.split("(")[0]:
        return "Checked"
    if re.match(r"\(void\)", stmt):
        return "Ignored"
    m = re.match(r"(?:carquet_status_t\s+|int\s+)?([A-Za-z_]\w*)\s*=\s*" + STATUS_FUNCS + r"\s*\(", stmt, re.S)
    if m:
        v = re.escape(m.group(1))
        pos = b
        # a `break;` that follows directly leaves the enclosing switch: continue the search behind it
        nxt = re.match(r"[\s;]*(?:update_statistics_\w+\([^;]*\);\s*)?break\s*;", body[pos:])
        if nxt:
            end = enclosing_switch_end(body, a)
            if end:
                pos = end
        use = re.search(rf"\b{v}\b", body[pos:])
        if not use:
            return "Ignored"
        ctx_before = body[max(0, pos + use.start() - 40):pos + use.start()]
        ctx_after = body[pos + use.end():pos + use.end() + 30]
        if re.match(r"\s*=[^=]", ctx_after):
            return "Ignored"          # overwritten before it is looked at
        return "Checked"              # tested, compared or returned
    if re.match(STATUS_FUNCS + r"\s*\(", stmt):
        return "Ignored"
    # used inside a larger expression (e.g. a condition written over several lines)
    return "Checked"


LATCHING_HELPERS = ("arena_strdup_thrift", "arena_bindup_thrift")

# Sites where a failed request is, by the function's contract, an accepted no-op (nothing is lost): a
# positive-only guard is the correct handling there.  Everything else with a positive-only guard is Ignored.
ACCEPTED_NOOP = {
    ("core/buffer.c", "carquet_buffer_shrink_to_fit", "realloc"):
        "shrinking is an optimisation: when realloc fails the buffer keeps its larger allocation and OK is correct",
}


def scan(repo):
    sites = _scan(repo)
    # a helper that latches out-of-memory in the decoder: its callers need not test the pointer, provided
    # every request inside the helper is itself checked
    for s in sites:
        if s["cls"] == "Ignored" and (s["file"], s["func"], s["callee"]) in ACCEPTED_NOOP:
            s["cls"] = "Checked"
    for h in LATCHING_HELPERS:
        inner = [s for s in sites if s["func"] == h]
        latching = bool(inner) and all(s["cls"] == "Checked" for s in inner)
        for s in sites:
            if s["callee"] == h and s["cls"] == "Unchecked" and latching:
                s["cls"] = "Checked"
    return sites


def _scan(repo):
    sites = []
    for rel in FILES:
        p = Path(repo) / rel
        if not p.exists():
            continue
        text = strip_comments(p.read_text())
        for fname, s, e in functions(text):
            body = text[s:e + 1]
            hdr_end = body.index("{")
            ords = {}
            for m in re.finditer(r"\b(" + PTR_FUNCS[3:-1] + "|" + STATUS_FUNCS[3:-1] + r")\s*\(", body):
                if m.start() < hdr_end:
                    continue
                callee = m.group(1)
                if callee == fname:
                    continue
                # skip declarations / function pointers
                a, b = stmt_around(body, m.start())
                kind = "ptr" if re.fullmatch(PTR_FUNCS, callee) else "status"
                cls = classify_ptr(body, a, b, m.start()) if kind == "ptr" else classify_status(body, a, b)
                ords[callee] = ords.get(callee, 0) + 1
                line = text.count("\n", 0, s + m.start()) + 1
                sites.append({"file": rel[4:], "func": fname, "callee": callee, "ord": ords[callee], "cls": cls, "line": line})
    return sites


def generate(repo, outdir):
    import vlib, gen_consts
    try:
        sites = scan(repo)
    except Exception as e:      # never take the other checks' prelude down with a parsing accident
        raise gen_consts.TieError(f"alloc_sites: cannot read the allocation call sites: {type(e).__name__}: {e}")
    if len(sites) < 60:
        import gen_consts
        raise gen_consts.TieError(f"alloc_sites: only {len(sites)} allocation call sites found in the anchored files (expected > 60)")
    lines = ["(** GENERATED by tools/gen.d/alloc_sites.py from the C sources - do not edit.",
             "    One entry per call of an allocating function: file, enclosing function, callee, ordinal of",
             "    that callee inside the function, and what the code does with the result. *)",
             "From Coq Require Import List String.",
             "From Carquet Require Import Alloc.AllocMonad.",
             "Import ListNotations.",
             "Local Open Scope string_scope.",
             "",
             "Definition alloc_sites : list site := ["]
    rows = []
    for s in sites:
        rows.append(f'  mkSite "{s["file"]}" "{s["func"]}" "{s["callee"]}" {s["ord"]} {s["cls"]}')
    lines.append(";\n".join(rows))
    lines.append("].")
    lines.append("")
    # atomic replace: other checks regenerate Gen/ concurrently and coqc may be reading the file
    out = Path(outdir) / "AllocSites_gen.v"
    text = "\n".join(lines)
    if not out.exists() or out.read_text() != text:
        import os
        tmp = out.with_name(out.name + ".tmp%d" % os.getpid())
        tmp.write_text(text)
        os.replace(tmp, out)
    return {"alloc_sites": len(sites), "alloc_sites_not_checked": sum(1 for s in sites if s["cls"] in ("Ignored", "Unchecked"))}


if __name__ == "__main__":
    import sys
    for s in scan(sys.argv[1] if len(sys.argv) > 1 else "/repo"):
        if len(sys.argv) > 2 or s["cls"] in ("Ignored", "Unchecked"):
            print(f'{s["cls"]:10s} {s["file"]}:{s["line"]} {s["func"]} -> {s["callee"]}#{s["ord"]}')
