"""Translator for C14, tie (a): the reader's page-checksum decision, read from the repository's *current* working tree
and written to coq/theories/Gen/CrcSites_gen.v.

src/reader/page_reader.c verifies a page body at several sites (dictionary page and data page of the stdio loader, of
the mmap/buffer loader, ...).  The Coq model has ONE decision, Crc32Model.page_crc_ok: "verify iff the header carries a
crc and verify_checksums is on; reject iff the CRC-32 of the compressed_page_size stored bytes differs from the stored
field taken as uint32".  For every call of carquet_crc32 in the file this translator reads

  * the condition of the enclosing `if`, translated to a Gallina function of (has_crc verify : bool) (stored : Z) -
    atoms it knows: page_header.has_crc, <...>verify_checksums, comparisons of page_header.crc with an integer literal;
    connectives && || ! and parentheses; anything else is a TieError naming the site;
  * the length argument (must be page_header.compressed_page_size),
  * the expected value (must be (uint32_t)page_header.crc) and the rejecting comparison (must be computed != expected),

and emits the list of guards.  Util/Crc32Sites.v proves that every guard equals `has_crc && verify` for all arguments,
so a site that starts to skip some stored values, or drops one of the two conditions, breaks a proof obligation of C14.
A site that disappears or a new one is fine as long as it has the same shape (the lemma quantifies over the list)."""
import re
from pathlib import Path

try:
    from gen_consts import TieError
except Exception:  # pragma: no cover
    class TieError(Exception):
        pass

import sys
sys.path.insert(0, str(Path(__file__).resolve().parent.parent))

OUTPUTS = ["CrcSites_gen.v"]
SRC = "src/reader/page_reader.c"


def _strip(s):
    s = re.sub(r"/\*.*?\*/", lambda m: re.sub(r"[^\n]", " ", m.group(0)), s, flags=re.S)
    return re.sub(r"//[^\n]*", " ", s)


def _enclosing_if(txt, pos):
    """condition text of the innermost `if (...) {` whose block contains position pos (brace matching backwards)"""
    depth = 0
    i = pos
    while i > 0:
        i -= 1
        c = txt[i]
        if c == "}":
            depth += 1
        elif c == "{":
            if depth == 0:
                # the text in front of this brace must end with `if ( ... )`
                j = i - 1
                while j >= 0 and txt[j].isspace():
                    j -= 1
                if txt[j] != ")":
                    return None
                d, k = 0, j
                while k >= 0:
                    if txt[k] == ")":
                        d += 1
                    elif txt[k] == "(":
                        d -= 1
                        if d == 0:
                            break
                    k -= 1
                head = txt[max(0, k - 12):k]
                if not re.search(r"\bif\s*$", head):
                    return None
                # the block: from this brace to its partner
                d2, e = 0, i
                while e < len(txt):
                    if txt[e] == "{":
                        d2 += 1
                    elif txt[e] == "}":
                        d2 -= 1
                        if d2 == 0:
                            break
                    e += 1
                return txt[k + 1:j], txt[i:e + 1]
            depth -= 1
    return None


class _P:
    """recursive-descent translation of a C boolean condition to Gallina"""
    def __init__(self, s, where):
        self.t = re.findall(r"&&|\|\||[<>!=]=|->|[()!<>.]|\w+|\S", s)
        self.i = 0
        self.where = where

    def peek(self):
        return self.t[self.i] if self.i < len(self.t) else None

    def eat(self, x=None):
        v = self.peek()
        if v is None or (x is not None and v != x):
            raise TieError("crcsites: %s: cannot read the condition at token %r (wanted %r)" % (self.where, v, x))
        self.i += 1
        return v

    def disj(self):
        a = self.conj()
        while self.peek() == "||":
            self.eat(); a = "(%s || %s)" % (a, self.conj())
        return a

    def conj(self):
        a = self.neg()
        while self.peek() == "&&":
            self.eat(); a = "(%s && %s)" % (a, self.neg())
        return a

    def neg(self):
        if self.peek() == "!":
            self.eat(); return "(negb %s)" % self.neg()
        if self.peek() == "(":
            self.eat(); a = self.disj(); self.eat(")"); return a
        return self.atom()

    def path(self):
        parts = [self.eat()]
        if not re.match(r"[A-Za-z_]\w*$", parts[0]):
            raise TieError("crcsites: %s: unexpected token %r in the condition" % (self.where, parts[0]))
        while self.peek() in (".", "->"):
            self.eat(); parts.append(self.eat())
        return parts

    def atom(self):
        p = self.path()
        last = p[-1]
        if last == "has_crc" and "page_header" in p:
            return "has_crc"
        if last == "verify_checksums":
            return "verify"
        if last == "crc" and "page_header" in p and self.peek() in ("<", ">", "<=", ">=", "==", "!="):
            op = self.eat(); neg = False
            if self.peek() == "-":
                self.eat(); neg = True
            lit = self.eat()
            if not re.match(r"\d+$|0[xX][0-9a-fA-F]+$", lit):
                raise TieError("crcsites: %s: page_header.crc is compared with %r" % (self.where, lit))
            n = int(lit, 0) * (-1 if neg else 1)
            z = "(%d)%%Z" % n
            return {"<": "(stored <? %s)%%Z", ">": "(%s <? stored)%%Z", "<=": "(stored <=? %s)%%Z", ">=": "(%s <=? stored)%%Z",
                    "==": "(stored =? %s)%%Z", "!=": "(negb (stored =? %s)%%Z)"}[op] % z
        raise TieError("crcsites: %s: the checksum decision now depends on `%s`, which the model's page_crc_ok does not know"
                       % (self.where, ".".join(p)))


def sites(repo):
    txt = _strip((Path(repo) / SRC).read_text())
    out = []
    for m in re.finditer(r"(?<![\w])carquet_crc32\s*\(", txt):
        line = txt.count("\n", 0, m.start()) + 1
        stmt_start = txt.rfind("\n", 0, m.start()) + 1
        if re.match(r"\s*extern\b", txt[stmt_start:m.start()]):
            continue
        where = "%s:%d" % (SRC, line)
        # arguments
        d, k = 0, m.end() - 1
        while k < len(txt):
            if txt[k] == "(":
                d += 1
            elif txt[k] == ")":
                d -= 1
                if d == 0:
                    break
            k += 1
        args = [a.strip() for a in txt[m.end():k].split(",")]
        if len(args) != 2 or not re.match(r"page_header\s*\.\s*compressed_page_size$", args[1]):
            raise TieError("crcsites: %s: the checksum is no longer taken over page_header.compressed_page_size bytes (%s)" % (where, args))
        mv = re.search(r"(\w+)\s*=\s*$", txt[stmt_start:m.start()])
        if not mv:
            raise TieError("crcsites: %s: the result of carquet_crc32 is not assigned to a variable" % where)
        comp = mv.group(1)
        enc = _enclosing_if(txt, m.start())
        if enc is None:
            raise TieError("crcsites: %s: carquet_crc32 is not called inside an `if (...) {` block" % where)
        cond, block = enc
        guard = _P(cond, where).disj()
        # the expected value and the rejecting comparison, anywhere inside that block (statement order is free; the
        # stored field may also be cast in the comparison itself)
        U32 = r"\(\s*uint32_t\s*\)\s*page_header\s*\.\s*crc"
        me = re.search(r"(\w+)\s*=\s*" + U32 + r"\s*;", block)
        exp_pat = r"(?:%s|%s)" % (re.escape(me.group(1)), U32) if me else U32
        if not me and not re.search(U32, block):
            raise TieError("crcsites: %s: the stored checksum is no longer taken as (uint32_t)page_header.crc" % where)
        cmps = re.findall(r"if\s*\(\s*(%s|%s)\s*(==|!=|<=|>=|<|>)\s*(%s|%s)\s*\)" % (re.escape(comp), exp_pat, re.escape(comp), exp_pat), block)
        cmps = [c for c in cmps if (c[0] == comp) != (c[2] == comp)]
        if len(cmps) != 1 or cmps[0][1] != "!=":
            raise TieError("crcsites: %s: the page is no longer rejected exactly when %s differs from (uint32_t)page_header.crc (found: %s)"
                           % (where, comp, [" ".join(c) for c in cmps] or "no comparison"))
        out.append((line, " ".join(cond.split()), guard))
    if not out:
        raise TieError("crcsites: no call of carquet_crc32 left in %s (page checksums are not verified any more)" % SRC)
    return out


def generate(repo, outdir):
    ss = sites(repo)
    lines = ["(** GENERATED by tools/gen.d/crcsites.py from the repository's working tree - do not edit. *)",
             "From Coq Require Import ZArith List Bool.", "Import ListNotations.", "",
             "(** the condition under which each call of carquet_crc32 in %s verifies a page body," % SRC,
             "    as a function of page_header.has_crc, options.verify_checksums and the stored crc field (int32) *)",
             "Definition CrcSite_guards : list (bool -> bool -> Z -> bool) :=", "  ["]
    for i, (line, cond, g) in enumerate(ss):
        lines.append("    (fun (has_crc verify : bool) (stored : Z) => %s)%s   (* site %d: if (%s) *)"
                     % (g, ";" if i + 1 < len(ss) else "", i + 1, cond.replace("(*", "( *").replace("*)", "* )")))
    lines += ["  ].", "", "Definition CrcSite_count : nat := %d." % len(ss), ""]
    from vlib import write_if_changed
    write_if_changed(Path(outdir) / "CrcSites_gen.v", "\n".join(lines))
    return {"crcsites": {"sites": len(ss), "guards": sorted(set(c for _, c, _ in ss))}}


if __name__ == "__main__":
    for s in sites(sys.argv[1] if len(sys.argv) > 1 else "/repo"):
        print(s)
