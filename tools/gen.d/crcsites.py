"""Translator for C14, tie (a): the reader's page-checksum decision, read from the repository's *current* working tree
and written to coq/theories/Gen/CrcSites_gen.v.

src/reader/page_reader.c verifies a page body at several sites (dictionary page and data page of the stdio loader, of
the mmap/buffer loader, ...).  The Coq model has ONE decision, Crc32Model.page_crc_ok: "verify iff the header carries a
crc and verify_checksums is on; reject iff the CRC-32 of the compressed_page_size stored bytes differs from the stored
field taken as uint32".  For every call of carquet_crc32 in the file this translator reads

  * the condition of the enclosing `if`, translated to a Gallina function of (has_crc verify : bool) (stored : Z) -
    atoms it knows: page_header.has_crc, <...>verify_checksums, comparisons of page_header.crc with an integer literal;
    connectives && || ! and parentheses; anything else is a TieError naming the site;
  * the length argument (must be page_header.compressed_page_size),
  * the expected value (must be (uint32_t)page_header.crc) and the rejecting comparison (must be computed != expected),

and emits the list of guards.  Util/Crc32Sites.v proves that every guard equals `has_crc && verify` for all arguments,
so a site that starts to skip some stored values, or drops one of the two conditions, breaks a proof obligation of C14.
A site that disappears or a new one is fine as long as it has the same shape (the lemma quantifies over the list)."""
import re
from pathlib import Path

try:
    from gen_consts import TieError
except Exception:  # pragma: no cover
    class TieError(Exception):
        pass

import sys
sys.path.insert(0, str(Path(__file__).resolve().parent.parent))

OUTPUTS = ["CrcSites_gen.v"]
SRC = "src/reader/page_reader.c"


def _strip(s):
    s = re.sub(r"/\*.*?\*/", lambda m: re.sub(r"[^\n]", " ", m.group(0)), s, flags=re.S)
    return re.sub(r"//[^\n]*", " ", s)


def _enclosing_if(txt, pos):
    """condition text of the innermost `if (...) {` whose block contains position pos (brace matching backwards)"""
    depth = 0
    i = pos
    while i > 0:
        i -= 1
        c = txt[i]
        if c == "}":
            depth += 1
        elif c == "{":
            if depth == 0:
                # the text in front of this brace must end with `if ( ... )`
                j = i - 1
                while j >= 0 and txt[j].isspace():
                    j -= 1
                if txt[j] != ")":
                    return None
                d, k = 0, j
                while k >= 0:
                    if txt[k] == ")":
                        d += 1
                    elif txt[k] == "(":
                        d -= 1
                        if d == 0:
                            break
                    k -= 1
                head = txt[max(0, k - 12):k]
                if not re.search(r"\bif\s*$", head):
                    return None
                # the block: from this brace to its partner
                d2, e = 0, i
                while e < len(txt):
                    if txt[e] == "{":
                        d2 += 1
                    elif txt[e] == "}":
                        d2 -= 1
                        if d2 == 0:
                            break
                    e += 1
                return txt[k + 1:j], txt[i:e + 1]
            depth -= 1
    return None


class _P:
    """recursive-descent translation of a C boolean condition to Gallina"""
    def __init__(self, s, where):
        self.t = re.findall(r"&&|\|\||[<>!=]=|->|[()!<>.]|\w+|\S", s)
        self.i = 0
        self.where = where

    def peek(self):
        return self.t[self.i] if self.i < len(self.t) else None

    def eat(self, x=None):
        v = self.peek()
        if v is None or (x is not None and v != x):
            raise TieError("crcsites: %s: cannot read the condition at token %r (wanted %r)" % (self.where, v, x))
        self.i += 1
        return v

    def disj(self):
        a = self.conj()
        while self.peek() == "||":
            self.eat(); a = "(%s || %s)" % (a, self.conj())
        return a

    def conj(self):
        a = self.neg()
        while self.peek() == "&&":
            self.eat(); a = "(%s && %s)" % (a, self.neg())
        return a

    def neg(self):
        if self.peek() == "!":
            self.eat(); return "(negb %s)" % self.neg()
        if self.peek() == "(":
            self.eat(); a = self.disj(); self.eat(")"); return a
        return self.atom()

    def path(self):
        parts = [self.eat()]
        if not re.match(r"[A-Za-z_]\w*$", parts[0]):
            raise TieError("crcsites: %s: unexpected token %r in the condition" % (self.where, parts[0]))
        while self.peek() in (".", "->"):
            self.eat(); parts.append(self.eat())
        return parts

    # reader side: flags (last path component, required other component or None) -> Gallina variable; integers likewise
    flags = {"has_crc": ("page_header", "has_crc"), "verify_checksums": (None, "verify")}
    ints = {"crc": ("page_header", "stored")}

    def atom(self):
        p = self.path()
        last = p[-1]
        if last in self.flags and (self.flags[last][0] is None or self.flags[last][0] in p):
            return self.flags[last][1]
        if last in self.ints and (self.ints[last][0] is None or self.ints[last][0] in p) and self.peek() in ("<", ">", "<=", ">=", "==", "!="):
            v = self.ints[last][1]
            op = self.eat(); neg = False
            if self.peek() == "-":
                self.eat(); neg = True
            lit = self.eat()
            if not re.match(r"\d+$|0[xX][0-9a-fA-F]+$", lit):
                raise TieError("crcsites: %s: %s is compared with %r" % (self.where, ".".join(p), lit))
            n = int(lit, 0) * (-1 if neg else 1)
            z = "(%d)%%Z" % n
            return {"<": "(V <? %s)%%Z", ">": "(%s <? V)%%Z", "<=": "(V <=? %s)%%Z", ">=": "(%s <=? V)%%Z",
                    "==": "(V =? %s)%%Z", "!=": "(negb (V =? %s)%%Z)"}[op].replace("V", v) % z
        raise TieError("crcsites: %s: the checksum decision now depends on `%s`, which the model does not know"
                       % (self.where, ".".join(p)))


class _PW(_P):
    """writer side: writer->write_crc, and sizes / counts of the page being written compared with literals"""
    flags = {"write_crc": (None, "write_crc")}
    ints = {"size": (None, "size"), "num_values": (None, "size")}


WSRC = "src/writer/page_writer.c"


def writer_pair(repo):
    """(guard of the carquet_crc32 call, guard of the crc field written to the page header) in page_writer.c.
    The checksum variable must be the one the header writer stores; both must sit in `if (...) {` blocks."""
    txt = _strip((Path(repo) / WSRC).read_text())
    calls = [m for m in re.finditer(r"(?<![\w])carquet_crc32\s*\(", txt)
             if not re.match(r"\s*extern\b", txt[txt.rfind("\n", 0, m.start()) + 1:m.start()])]
    if len(calls) != 1:
        raise TieError("crcsites: %s: expected exactly one call of carquet_crc32, found %d" % (WSRC, len(calls)))
    m = calls[0]
    where = "%s:%d" % (WSRC, txt.count("\n", 0, m.start()) + 1)
    mv = re.search(r"(\w+)\s*=\s*$", txt[txt.rfind("\n", 0, m.start()) + 1:m.start()])
    if not mv:
        raise TieError("crcsites: %s: the result of carquet_crc32 is not assigned to a variable" % where)
    var = mv.group(1)
    ma = re.match(r"\s*(\w+)\s*\.\s*data\s*,\s*(\w+)\s*\.\s*size\s*\)", txt[m.end():m.end() + 120])
    if not ma or ma.group(1) != ma.group(2):
        raise TieError("crcsites: %s: the checksum is no longer taken over <buffer>.data, <buffer>.size of one buffer" % where)
    enc = _enclosing_if(txt, m.start())
    if enc is None:
        raise TieError("crcsites: %s: carquet_crc32 is not called inside an `if (...) {` block" % where)
    g1 = _PW(enc[0], where).disj()
    mw = [x for x in re.finditer(r"thrift_write_i32\s*\(\s*&?\w+\s*,\s*\(\s*int32_t\s*\)\s*%s\s*\)" % re.escape(var), txt)]
    if len(mw) != 1:
        raise TieError("crcsites: %s: expected exactly one thrift_write_i32(.., (int32_t)%s) writing the header's crc field, found %d"
                       % (WSRC, var, len(mw)))
    where2 = "%s:%d" % (WSRC, txt.count("\n", 0, mw[0].start()) + 1)
    enc2 = _enclosing_if(txt, mw[0].start())
    if enc2 is None:
        raise TieError("crcsites: %s: the crc field is not written inside an `if (...) {` block" % where2)
    g2 = _PW(enc2[0], where2).disj()
    return (" ".join(enc[0].split()), g1), (" ".join(enc2[0].split()), g2)


def sites(repo):
    txt = _strip((Path(repo) / SRC).read_text())
    out = []
    for m in re.finditer(r"(?<![\w])carquet_crc32\s*\(", txt):
        line = txt.count("\n", 0, m.start()) + 1
        stmt_start = txt.rfind("\n", 0, m.start()) + 1
        if re.match(r"\s*extern\b", txt[stmt_start:m.start()]):
            continue
        where = "%s:%d" % (SRC, line)
        # arguments
        d, k = 0, m.end() - 1
        while k < len(txt):
            if txt[k] == "(":
                d += 1
            elif txt[k] == ")":
                d -= 1
                if d == 0:
                    break
            k += 1
        args = [a.strip() for a in txt[m.end():k].split(",")]
        if len(args) != 2 or not re.match(r"page_header\s*\.\s*compressed_page_size$", args[1]):
            raise TieError("crcsites: %s: the checksum is no longer taken over page_header.compressed_page_size bytes (%s)" % (where, args))
        mv = re.search(r"(\w+)\s*=\s*$", txt[stmt_start:m.start()])
        if not mv:
            raise TieError("crcsites: %s: the result of carquet_crc32 is not assigned to a variable" % where)
        comp = mv.group(1)
        enc = _enclosing_if(txt, m.start())
        if enc is None:
            raise TieError("crcsites: %s: carquet_crc32 is not called inside an `if (...) {` block" % where)
        cond, block = enc
        guard = _P(cond, where).disj()
        # the expected value and the rejecting comparison, anywhere inside that block (statement order is free; the
        # stored field may also be cast in the comparison itself)
        U32 = r"\(\s*uint32_t\s*\)\s*page_header\s*\.\s*crc"
        me = re.search(r"(\w+)\s*=\s*" + U32 + r"\s*;", block)
        exp_pat = r"(?:%s|%s)" % (re.escape(me.group(1)), U32) if me else U32
        if not me and not re.search(U32, block):
            raise TieError("crcsites: %s: the stored checksum is no longer taken as (uint32_t)page_header.crc" % where)
        cmps = re.findall(r"if\s*\(\s*(%s|%s)\s*(==|!=|<=|>=|<|>)\s*(%s|%s)\s*\)" % (re.escape(comp), exp_pat, re.escape(comp), exp_pat), block)
        cmps = [c for c in cmps if (c[0] == comp) != (c[2] == comp)]
        if len(cmps) != 1 or cmps[0][1] != "!=":
            raise TieError("crcsites: %s: the page is no longer rejected exactly when %s differs from (uint32_t)page_header.crc (found: %s)"
                           % (where, comp, [" ".join(c) for c in cmps] or "no comparison"))
        out.append((line, " ".join(cond.split()), guard))
    if not out:
        raise TieError("crcsites: no call of carquet_crc32 left in %s (page checksums are not verified any more)" % SRC)
    return out


def generate(repo, outdir):
    ss = sites(repo)
    lines = ["(** GENERATED by tools/gen.d/crcsites.py from the repository's working tree - do not edit. *)",
             "From Coq Require Import ZArith List Bool.", "Import ListNotations.", "",
             "(** the condition under which each call of carquet_crc32 in %s verifies a page body," % SRC,
             "    as a function of page_header.has_crc, options.verify_checksums and the stored crc field (int32) *)",
             "Definition CrcSite_guards : list (bool -> bool -> Z -> bool) :=", "  ["]
    for i, (line, cond, g) in enumerate(ss):
        lines.append("    (fun (has_crc verify : bool) (stored : Z) => %s)%s   (* site %d: if (%s) *)"
                     % (g, ";" if i + 1 < len(ss) else "", i + 1, cond.replace("(*", "( *").replace("*)", "* )")))
    lines += ["  ].", "", "Definition CrcSite_count : nat := %d." % len(ss), ""]
    (c1, g1), (c2, g2) = writer_pair(repo)
    cm = lambda c: c.replace("(*", "( *").replace("*)", "* )")
    lines += ["(** %s, two cooperating sites: when the page's checksum is computed ..." % WSRC,
              "    (size stands for the sizes / counts of the page being written that a guard compares with literals) *)",
              "Definition CrcWriter_computes (write_crc : bool) (size : Z) : bool := %s.   (* if (%s) *)" % (g1, cm(c1)), "",
              "(** ... and when the crc field is written into the page header *)",
              "Definition CrcWriter_stores (write_crc : bool) (size : Z) : bool := %s.   (* if (%s) *)" % (g2, cm(c2)), ""]
    from vlib import write_if_changed
    write_if_changed(Path(outdir) / "CrcSites_gen.v", "\n".join(lines))
    return {"crcsites": {"sites": len(ss), "guards": sorted(set(c for _, c, _ in ss)), "writer_computes": c1, "writer_stores": c2}}


if __name__ == "__main__":
    for s in sites(sys.argv[1] if len(sys.argv) > 1 else "/repo"):
        print(s)
    print(writer_pair(sys.argv[1] if len(sys.argv) > 1 else "/repo"))
