"""Translator, tie (a) at the CODE level: pure C leaf functions -> Gallina.

For every target in tools/c2coq.d/targets.json the function is read from clang's typed JSON AST
(`clang -Xclang -ast-dump=json`; every expression node carries its C type, implicit promotions and
conversions are explicit ImplicitCastExpr nodes) and written to coq/theories/Gen/CLeaf_gen.v as

    Definition c_<function> (args) : <result> := let ... in ...          (SSA lets, loops unrolled)

over the operators of coq/theories/Base/CSem.v.  coq/theories/Tie/Tie_<engine>.v proves each c_<function>
equal to the hand-written model function, so a semantic edit of the C function changes the generated
text and the lemma stops compiling.  Subset, semantics and limits: tools/c2coq.d/README.md.

A function that leaves the subset is NOT written (a comment with the reason takes its place), so only the
Tie file of its engine stops compiling; `generate(..., strict=True)` / `--strict` raises TieError instead.
"""
import hashlib, json, os, re, subprocess, sys

sys.setrecursionlimit(20000)
from pathlib import Path

try:
    from gen_consts import TieError
except Exception:  # pragma: no cover
    class TieError(Exception):
        pass

OUTPUTS = ["CLeaf_gen.v"]      # files of coq/theories/Gen written by this module (read by vlib.gen_translators)

HERE = Path(__file__).resolve().parent
TOOLS = HERE.parent if HERE.name == "gen.d" else HERE
TARGETS = TOOLS / "c2coq.d" / "targets.json"
CLANG_FLAGS = ["-std=gnu11", "-fsyntax-only", "-DCARQUET_VERIF", "-DCARQUET_ARCH_X86", "-DCARQUET_ENABLE_SSE",
               "-DCARQUET_ENABLE_AVX2", "-DCARQUET_ENABLE_AVX512"]
UNROLL_CAP = 64          # iterations of one loop
SIZE_CAP = 6000          # emitted let/if nodes per function


class Unsupported(Exception):
    """The function leaves the translated subset; the message names the construct."""


# ------------------------------------------------------------------------------------------ C types

class T:
    """('int', signed, width) | ('bool') | ('ptr', elem T or None for void, const) | ('void') | ('other', text)"""
    def __init__(self, kind, signed=False, width=0, elem=None, const=False, text=""):
        self.kind, self.signed, self.width, self.elem, self.const, self.text = kind, signed, width, elem, const, text

    def isint(self):
        return self.kind in ("int", "bool")

    def rng(self):
        if self.kind == "bool":
            return (0, 1)
        if self.signed:
            return (-(1 << (self.width - 1)), (1 << (self.width - 1)) - 1)
        return (0, (1 << self.width) - 1)

    def __repr__(self):
        if self.kind == "int":
            return ("s" if self.signed else "u") + str(self.width)
        if self.kind == "ptr":
            return ("const " if self.const else "") + (repr(self.elem) if self.elem else "void") + "*"
        return self.kind if self.kind != "other" else "other(%s)" % self.text

    def same(self, o):
        return repr(self) == repr(o)


BUILTIN = {
    "unsigned char": (False, 8), "unsigned short": (False, 16), "unsigned int": (False, 32), "unsigned": (False, 32),
    "unsigned long": (False, 64), "unsigned long long": (False, 64),
    "signed char": (True, 8), "char": (True, 8), "short": (True, 16), "int": (True, 32), "long": (True, 64),
    "long long": (True, 64), "__int128": None,
}


def wrapu(w, x):
    return x % (1 << w)


def wraps(w, x):
    y = x % (1 << w)
    return y if y < (1 << (w - 1)) else y - (1 << w)


def wrap_t(t, x):
    if t.kind == "bool":
        return 1 if x != 0 else 0
    return wraps(t.width, x) if t.signed else wrapu(t.width, x)


# ------------------------------------------------------------------------------------------ translation units

class TU:
    """Slim view of one translation unit: function definitions, typedefs, static const integer arrays, enum
    constants (everything else of the 4-14 MB AST is dropped before caching)."""
    def __init__(self, slim):
        self.funcs = slim["funcs"]          # name -> FunctionDecl node (definition)
        self.typedefs = slim["typedefs"]    # name -> underlying type text
        self.arrays = slim["arrays"]        # VarDecl id -> {"name", "type", "values": [...]} (static const integer arrays)
        self.enums = slim["enums"]          # EnumConstantDecl id -> value
        self.enumtypes = slim.get("enumtypes", {})   # enum tag -> underlying integer type text
        self.sizeofs = slim.get("sizeofs", {})       # type text -> sizeof (filled on demand by a second clang run)
        self.probe = None                   # callable(type text) -> int
        self._tcache = {}

    def ctype(self, tnode):
        if tnode is None:
            return T("void")
        txt = tnode.get("desugaredQualType") or tnode.get("qualType")
        return self.parse_type(txt)

    def parse_type(self, txt):
        if txt in self._tcache:
            return self._tcache[txt]
        r = self._parse_type(txt.strip())
        self._tcache[txt] = r
        return r

    def _parse_type(self, txt):
        if txt.endswith("*") or re.search(r"\*\s*(const|restrict|__restrict)$", txt):
            base = re.sub(r"\*\s*(const|restrict|__restrict)?$", "", txt).strip()
            const = bool(re.search(r"\bconst\b", base))
            base = re.sub(r"\b(const|volatile)\b", "", base).strip()
            if "(" in base:
                return T("other", text=txt)
            if base == "void":
                return T("ptr", elem=None, const=const)
            e = self.parse_type(base)
            if not e.isint():
                return T("other", text=txt)
            return T("ptr", elem=e, const=const)
        m = re.fullmatch(r"(.*?)\s*\[(\d+)\]", txt)
        if m:
            const = bool(re.search(r"\bconst\b", m.group(1)))
            e = self.parse_type(re.sub(r"\b(const|volatile)\b", "", m.group(1)).strip())
            if not e.isint():
                return T("other", text=txt)
            return T("ptr", elem=e, const=const, text="array")
        base = re.sub(r"\b(const|volatile)\b", "", txt).strip()
        base = re.sub(r"\s+", " ", base)
        if base in ("_Bool", "bool"):
            return T("bool", False, 1)
        if base == "void":
            return T("void")
        if base in BUILTIN and BUILTIN[base]:
            s, w = BUILTIN[base]
            return T("int", s, w)
        if base in self.typedefs:
            return self.parse_type(self.typedefs[base])
        if base.startswith("enum ") and base[5:] in self.enumtypes:
            return self.parse_type(self.enumtypes[base[5:]])
        return T("other", text=txt)


def _git_blob_hash(data):
    return hashlib.sha1(b"blob %d\0" % len(data) + data).hexdigest()


def _slim(node):
    """Drop ids we do not need, locations (except function ranges) and comments: smaller cache, faster reload."""
    if isinstance(node, dict):
        out = {}
        for k, v in node.items():
            if k in ("loc", "range", "isUsed", "isReferenced", "mangledName", "isImplicit", "valueCategory",
                     "isPartOfExplicitCast", "canOverflow", "nonOdrUseReason"):
                continue
            out[k] = _slim(v)
        if "inner" in out:
            out["inner"] = [c for c in out["inner"] if not (isinstance(c, dict) and str(c.get("kind", "")).endswith("Comment"))]
        return out
    if isinstance(node, list):
        return [_slim(c) for c in node]
    return node


def _const_int(node):
    """Integer value of a constant initialiser element (literal, possibly cast / negated / parenthesised)."""
    k = node.get("kind")
    if k == "IntegerLiteral":
        return int(node["value"])
    if k in ("ImplicitCastExpr", "ParenExpr", "CStyleCastExpr", "ConstantExpr"):
        if k == "ConstantExpr" and "value" in node:
            return int(node["value"])
        return _const_int(node["inner"][0])
    if k == "UnaryOperator" and node.get("opcode") == "-":
        return -_const_int(node["inner"][0])
    raise Unsupported("non-literal array initialiser element (%s)" % k)


_HH = {}


def _headers_hash(repo):
    if repo not in _HH:
        h = hashlib.sha1()
        for base in ("include", "src"):
            for q in sorted((repo / base).rglob("*.h")):
                h.update(q.relative_to(repo).as_posix().encode() + b"\0" + q.read_bytes() + b"\0")
        _HH[repo] = h.hexdigest()
    return _HH[repo]


def load_tu(repo, rel, cache_dir):
    repo = Path(repo)
    path = repo / rel
    if not path.exists():
        raise Unsupported("%s is gone" % rel)
    inc = ["-I", str(repo / "include"), "-I", str(repo / "src")]
    if rel.endswith(".h"):
        src_args, stdin = ["-x", "c", "-"], '#include "%s"\n' % path
    else:
        src_args, stdin = [str(path)], None
    # cache key: the file, every header of the repository (an #include may reach any of them), the flags
    key = hashlib.sha1((rel + "\0" + " ".join(CLANG_FLAGS) + "\0v5\0").encode() + path.read_bytes() + b"\0" +
                       _headers_hash(repo).encode()).hexdigest()
    cfile = Path(cache_dir) / (key + ".json")

    def make_tu(slim):
        tu = TU(slim)

        def probe(type_text):
            """sizeof(type) as clang evaluates it in this translation unit (second run, cached with the unit)"""
            if type_text not in slim["sizeofs"]:
                if not re.fullmatch(r"[A-Za-z_][A-Za-z0-9_ ]*\*?", type_text):
                    raise Unsupported("sizeof(%s)" % type_text)
                text = '#include "%s"\nenum { c2coq_sizeof_probe = sizeof(%s) };\n' % (path, type_text)
                q = subprocess.run(["clang"] + CLANG_FLAGS + inc + ["-Xclang", "-ast-dump=json", "-Xclang",
                                    "-ast-dump-filter=c2coq_sizeof_probe", "-x", "c", "-"], input=text, capture_output=True, text=True)
                m = re.search(r'"kind":\s*"ConstantExpr".*?"value":\s*"(\d+)"', q.stdout, re.S)
                if q.returncode != 0 or not m:
                    raise Unsupported("sizeof(%s) could not be evaluated" % type_text)
                slim["sizeofs"][type_text] = int(m.group(1))
                tmp = cfile.with_suffix(".tmp%d" % os.getpid())
                tmp.write_text(json.dumps(slim))
                os.replace(tmp, cfile)
            return slim["sizeofs"][type_text]
        tu.probe = probe
        return tu
    if cfile.exists():
        try:
            return make_tu(json.loads(cfile.read_text()))
        except Exception:
            pass
    p = subprocess.run(["clang"] + CLANG_FLAGS + inc + ["-Xclang", "-ast-dump=json"] + src_args, input=stdin,
                       capture_output=True, text=True)
    if p.returncode != 0 or not p.stdout.startswith("{"):
        raise Unsupported("%s does not compile with clang: %s" % (rel, p.stderr.strip()[:300]))
    ast = json.loads(p.stdout)
    slim = {"funcs": {}, "typedefs": {}, "arrays": {}, "enums": {}, "enumtypes": {}, "sizeofs": {}}
    for n in ast.get("inner", []):
        k = n.get("kind")
        if k == "TypedefDecl":
            t = n.get("type", {})
            slim["typedefs"][n["name"]] = t.get("desugaredQualType") or t.get("qualType")
        elif k == "FunctionDecl" and any(c.get("kind") == "CompoundStmt" for c in n.get("inner", [])):
            f = _slim(n)
            b, e = n["range"]["begin"], n["range"]["end"]
            b = b.get("expansionLoc", b)
            e = e.get("expansionLoc", e)
            f["_range"] = [b.get("offset"), e.get("offset", 0) + e.get("tokLen", 1)]
            slim["funcs"][n["name"]] = f
        elif k == "VarDecl" and "inner" in n:
            qt = n.get("type", {}).get("qualType", "")
            init = [c for c in n["inner"] if c.get("kind") == "InitListExpr"]
            if init and re.search(r"\bconst\b", qt) and re.search(r"\[\d+\]$", qt):
                try:
                    vals = [_const_int(c) for c in init[0].get("inner", []) if c.get("kind") != "ImplicitValueInitExpr"]
                    filler = [c for c in init[0].get("inner", []) if c.get("kind") == "ImplicitValueInitExpr"]
                    if "array_filler" in init[0] or filler:
                        raise Unsupported("partially initialised array")
                    slim["arrays"][n["id"]] = {"name": n["name"], "type": qt, "values": vals}
                except Unsupported:
                    pass
        elif k == "EnumDecl":
            nxt = 0
            vals = []
            for c in n.get("inner", []):
                if c.get("kind") != "EnumConstantDecl":
                    continue
                v = nxt
                for ci in c.get("inner", []):
                    try:
                        v = _const_int(ci)
                    except Unsupported:
                        v = None
                if v is not None:
                    slim["enums"][c["id"]] = v
                    nxt = v + 1
                    vals.append(v)
            if n.get("name"):
                fixed = n.get("fixedUnderlyingType", {})
                slim["enumtypes"][n["name"]] = fixed.get("desugaredQualType") or fixed.get("qualType") or \
                    ("int" if any(v < 0 for v in vals) else "unsigned int")
    Path(cache_dir).mkdir(parents=True, exist_ok=True)
    tmp = cfile.with_suffix(".tmp%d" % os.getpid())
    tmp.write_text(json.dumps(slim))
    os.replace(tmp, cfile)
    return make_tu(slim)


# ------------------------------------------------------------------------------------------ values

COQ_RESERVED = set("""as at cofix else end exists exists2 fix for forall fun if IF in let match mod Prop return Set
then Type using where with by lazymatch multimatch nth length map fst snd pair nil cons app rev true false negb andb orb
wrapu wraps ctrue b2z shamt_ok cshl_u cshl_s cshr cnot_u cdiv crem rd upd upd_nat le_load le_store clz ctz popcount loop_exhausted
Z N nat bool list option Some None O S xH xI xO Zpos Zneg Z0 tt unit eq and or not""".split())


def lit(n):
    return str(n) if n >= 0 else "(%d)" % n


class V:
    """A translated C scalar: a Coq term of type Z (isbool=False) or bool (isbool=True); const = known value."""
    def __init__(self, term, isbool=False, const=None, atomic=False):
        self.term, self.isbool, self.const, self.atomic = term, isbool, const, atomic

    @staticmethod
    def k(n):
        return V(lit(n), False, n, True)

    def z(self):
        if self.const is not None:
            return lit(self.const)
        if self.isbool:
            return "b2z %s" % self.pb()
        return self.term

    def pz(self):       # as an argument
        if self.const is not None:
            return lit(self.const)
        if self.isbool:
            return "(b2z %s)" % self.pb()
        return self.term if self.atomic else "(%s)" % self.term

    def b(self):
        if self.const is not None:
            return "true" if self.const != 0 else "false"
        if self.isbool:
            return self.term
        return "ctrue %s" % self.pz()

    def pb(self):
        if self.const is not None or (self.isbool and self.atomic):
            return self.b()
        return "(%s)" % self.b()


class IntVar:
    def __init__(self, cname, ctype, cur):
        self.cname, self.ctype, self.cur = cname, ctype, cur      # cur: V or None (uninitialised)


class ArrVar:
    """meta is shared between the copies of an environment: the element type of a void* parameter is fixed by the
    first cast that views it"""
    def __init__(self, cname, elem, cur, writable, is_param, void=False, meta=None):
        self.cname, self.cur, self.writable, self.is_param, self.void = cname, cur, writable, is_param, void
        self.meta = meta if meta is not None else {"elem": elem}

    @property
    def elem(self):
        return self.meta["elem"]

    @elem.setter
    def elem(self, t):
        self.meta["elem"] = t


class Alias:
    def __init__(self, target):
        self.target = target


class Env:
    def __init__(self, vars=None):
        self.vars = vars or {}

    def copy(self):
        e = Env()
        for k, v in self.vars.items():
            if isinstance(v, IntVar):
                e.vars[k] = IntVar(v.cname, v.ctype, v.cur)
            elif isinstance(v, ArrVar):
                e.vars[k] = ArrVar(v.cname, None, v.cur, v.writable, v.is_param, v.void, v.meta)
            else:
                e.vars[k] = v
        return e


class FuncInfo:
    def __init__(self):
        self.name = self.coqname = None
        self.params = []        # (cname, 'int'|'arr', T)
        self.written = []       # indexes of array params that are written, in parameter order
        self.ret = None         # T
        self.text = None        # Coq Definition
        self.deps = []          # coq names of callees / arrays emitted before this one
        self.iface = ""


# ------------------------------------------------------------------------------------------ the translator

BUILTIN_CALLS = {
    # name -> (CSem function, width of the argument type)
    "__builtin_clz": ("clz", 32), "__builtin_clzl": ("clz", 64), "__builtin_clzll": ("clz", 64),
    "__builtin_ctz": ("ctz", 32), "__builtin_ctzl": ("ctz", 64), "__builtin_ctzll": ("ctz", 64),
    "__builtin_popcount": ("popcount", None), "__builtin_popcountl": ("popcount", None),
    "__builtin_popcountll": ("popcount", None),
}


class FnTranslator:
    def __init__(self, unit, tu, node, coqname, opts=None):
        self.unit, self.tu, self.node, self.coqname = unit, tu, node, coqname
        self.opts = opts or {}
        self.names = {}
        self.used = set()
        self.size = 0
        self.pre = []           # pending lets produced while translating an expression
        self.cond_depth = 0     # > 0 inside an operand that is evaluated conditionally
        self.info = FuncInfo()
        self.deps = []

    # ---- names
    def fresh(self, cname):
        base = cname if cname not in COQ_RESERVED else cname + "_"
        n = self.names.get(base, -1) + 1
        while True:
            cand = base if n == 0 else "%s_%d" % (base, n)
            n += 1
            if cand not in self.used and cand not in COQ_RESERVED:
                break
        self.names[base] = n - 1
        self.used.add(cand)
        return cand

    def grow(self, n=1):
        self.size += n
        if self.size > SIZE_CAP:
            raise Unsupported("expansion larger than %d nodes (loop unrolling / duplicated continuations)" % SIZE_CAP)

    # ---- prescan: which arrays are written
    def refs_of_ptr(self, node, env_ids):
        """decl id of the array object a pointer expression denotes, or None"""
        k = node.get("kind")
        if k == "DeclRefExpr":
            return node["referencedDecl"]["id"]
        if k in ("ImplicitCastExpr", "ParenExpr", "CStyleCastExpr"):
            return self.refs_of_ptr(node["inner"][0], env_ids)
        return None

    def scan_writes(self, node, acc, aliases):
        k = node.get("kind")
        inner = node.get("inner", [])
        if k == "VarDecl" and inner and self.tu.ctype(node.get("type")).kind == "ptr":
            t = self.refs_of_ptr(inner[-1], None)
            if t:
                aliases[node["id"]] = aliases.get(t, t)
        if k in ("BinaryOperator", "CompoundAssignOperator") and (k == "CompoundAssignOperator" or node.get("opcode") == "="):
            self.scan_lhs(inner[0], acc, aliases)
        if k == "UnaryOperator" and node.get("opcode") in ("++", "--"):
            self.scan_lhs(inner[0], acc, aliases)
        if k == "CallExpr":
            name = self.callee_name(node)
            if name == "memcpy":
                t = self.refs_of_ptr(inner[1], None)
                if t:
                    acc.add(aliases.get(t, t))
            elif name not in BUILTIN_CALLS:
                fi = self.unit.function(self.tu, name, self)
                for i in fi.written:
                    t = self.refs_of_ptr(inner[1 + i], None)
                    if t:
                        acc.add(aliases.get(t, t))
        for c in inner:
            if isinstance(c, dict) and c:
                self.scan_writes(c, acc, aliases)

    def scan_lhs(self, lhs, acc, aliases):
        k = lhs.get("kind")
        if k == "ParenExpr":
            return self.scan_lhs(lhs["inner"][0], acc, aliases)
        if k == "ArraySubscriptExpr" or (k == "UnaryOperator" and lhs.get("opcode") == "*"):
            t = self.refs_of_ptr(lhs["inner"][0], None)
            if t:
                acc.add(aliases.get(t, t))

    def callee_name(self, call):
        f = call["inner"][0]
        while f.get("kind") in ("ImplicitCastExpr", "ParenExpr"):
            f = f["inner"][0]
        if f.get("kind") != "DeclRefExpr" or f["referencedDecl"].get("kind") != "FunctionDecl":
            raise Unsupported("indirect call")
        return f["referencedDecl"]["name"]

    # ---- expressions
    def typ(self, node):
        return self.tu.ctype(node.get("type"))

    def need_int(self, t, what):
        if not t.isint():
            raise Unsupported("%s of type %r" % (what, t.text or t.kind))
        return t

    def convert(self, v, src, dst):
        """integer conversion src -> dst"""
        if dst.kind == "bool":
            if v.const is not None:
                return V.k(1 if v.const != 0 else 0)
            if src.kind == "bool":
                return v
            return V(v.b(), True)
        self.need_int(dst, "conversion to a value")
        if v.const is not None:
            return V.k(wrap_t(dst, v.const))
        lo, hi = src.rng()
        dlo, dhi = dst.rng()
        if dlo <= lo and hi <= dhi:
            return v
        return V("%s %d %s" % ("wraps" if dst.signed else "wrapu", dst.width, v.pz()))

    def wrap(self, t, term, const=None):
        if const is not None:
            return V.k(wrap_t(t, const))
        return V("%s %d (%s)" % ("wraps" if t.signed else "wrapu", t.width, term))

    def lookup_arr(self, env, did):
        b = env.vars.get(did)
        seen = 0
        while isinstance(b, Alias):
            did, b = b.target, env.vars.get(b.target)
            seen += 1
            if seen > 8:
                break
        if isinstance(b, ArrVar):
            return did, b
        if did in self.tu.arrays:
            a = self.tu.arrays[did]
            name = self.unit.static_array(self.tu, did)
            if name not in self.deps:
                self.deps.append(name)
            et = self.tu.parse_type(re.sub(r"\[\d+\]$", "", a["type"]))
            return did, ArrVar(a["name"], et, name, False, False)
        raise Unsupported("pointer that is not a parameter array, a local alias of one or a static const array")

    def ptr(self, node, env, want_elem=None):
        """(decl id, ArrVar) of the array object the pointer expression denotes (no offsets)"""
        k = node.get("kind")
        if k == "DeclRefExpr":
            did, arr = self.lookup_arr(env, node["referencedDecl"]["id"])
        elif k in ("ImplicitCastExpr", "CStyleCastExpr"):
            ck = node.get("castKind")
            if ck not in ("LValueToRValue", "NoOp", "BitCast", "ArrayToPointerDecay"):
                raise Unsupported("pointer cast %s" % ck)
            did, arr = self.ptr(node["inner"][0], env)
            if ck == "BitCast":
                t = self.typ(node)
                if t.kind != "ptr":
                    raise Unsupported("cast of a pointer to %r" % (t.text or t.kind))
                if t.elem is not None:
                    if arr.void and arr.elem is None:
                        arr.elem = t.elem
                    elif not arr.elem.same(t.elem):
                        raise Unsupported("array %s viewed at two element types (%r and %r)" % (arr.cname, arr.elem, t.elem))
        elif k == "ParenExpr":
            did, arr = self.ptr(node["inner"][0], env)
        elif k == "BinaryOperator":
            raise Unsupported("pointer arithmetic (%s)" % node.get("opcode"))
        elif k == "UnaryOperator":
            raise Unsupported("pointer expression (unary %s)" % node.get("opcode"))
        else:
            raise Unsupported("pointer expression %s" % k)
        return did, arr

    def elem_read(self, node, env):
        """node: ArraySubscriptExpr or UnaryOperator '*' -> (did, arr, index V)"""
        if node["kind"] == "ArraySubscriptExpr":
            did, arr = self.ptr(node["inner"][0], env)
            idx = self.expr(node["inner"][1], env)
        else:
            did, arr = self.ptr(node["inner"][0], env)
            idx = V.k(0)
        if arr.elem is None:
            raise Unsupported("access through void*")
        t = self.typ(node)
        if not (t.isint() and t.same(arr.elem)):
            raise Unsupported("array %s of %r accessed at type %r" % (arr.cname, arr.elem, t))
        return did, arr, idx

    def side_effect(self, what):
        if self.cond_depth:
            raise Unsupported("%s inside a conditionally evaluated operand" % what)

    def full_expr(self, node, env):
        """a full expression (statement level, condition, initialiser, returned value)"""
        self.check_unsequenced(node)
        return self.expr(node, env)

    def expr(self, node, env):
        k = node.get("kind")
        if k == "IntegerLiteral":
            self.need_int(self.typ(node), "literal")
            return V.k(int(node["value"]))
        if k == "CharacterLiteral":
            return V.k(int(node["value"]))
        if k == "ConstantExpr":
            if "value" in node:
                return V.k(int(node["value"]))
            return self.expr(node["inner"][0], env)
        if k == "ParenExpr":
            return self.expr(node["inner"][0], env)
        if k in ("ImplicitCastExpr", "CStyleCastExpr"):
            return self.cast(node, env)
        if k == "DeclRefExpr":
            rd = node["referencedDecl"]
            if rd.get("kind") == "EnumConstantDecl":
                if rd["id"] in self.tu.enums:
                    return V.k(self.tu.enums[rd["id"]])
                raise Unsupported("enum constant %s without a literal value" % rd.get("name"))
            b = env.vars.get(rd["id"])
            if isinstance(b, IntVar):
                if b.cur is None:
                    raise Unsupported("read of %s before it is assigned" % b.cname)
                return b.cur
            raise Unsupported("reference to %s (%s) as a value" % (rd.get("name"), rd.get("kind")))
        if k == "ArraySubscriptExpr" or (k == "UnaryOperator" and node.get("opcode") == "*"):
            did, arr, idx = self.elem_read(node, env)
            return V("rd %s %s" % (arr.cur, idx.pz()))
        if k == "UnaryOperator":
            return self.unary(node, env)
        if k == "BinaryOperator":
            return self.binary(node, env)
        if k == "CompoundAssignOperator":
            self.side_effect("assignment")
            return self.assign(node, env)
        if k == "ConditionalOperator":
            c = self.expr(node["inner"][0], env)
            t = self.need_int(self.typ(node), "?:")
            if c.const is not None:
                return self.expr(node["inner"][1 if c.const != 0 else 2], env)
            self.cond_depth += 1
            a = self.expr(node["inner"][1], env)
            b = self.expr(node["inner"][2], env)
            self.cond_depth -= 1
            if a.isbool and b.isbool and t.kind == "bool":
                return V("if %s then %s else %s" % (c.b(), a.b(), b.b()), True)
            return V("if %s then %s else %s" % (c.b(), a.z(), b.z()))
        if k == "CallExpr":
            return self.call(node, env, want_value=True)
        if k == "UnaryExprOrTypeTraitExpr" and node.get("name") == "sizeof":
            if "argType" in node:
                t = self.tu.ctype(node["argType"])
            else:
                t = self.typ(node["inner"][0])
            if t.isint():
                return V.k(1 if t.kind == "bool" else t.width // 8)
            if "argType" in node and self.tu.probe:
                return V.k(self.tu.probe(node["argType"]["qualType"]))
            raise Unsupported("sizeof of %r" % (t.text or t.kind))
        raise Unsupported("expression %s" % k)

    def cast(self, node, env):
        ck = node.get("castKind")
        sub = node["inner"][0]
        if ck == "LValueToRValue":
            return self.expr(sub, env)
        if ck == "NoOp":
            return self.expr(sub, env)
        if ck in ("IntegralCast", "IntegralToBoolean"):
            dst = self.typ(node)
            src = self.need_int(self.typ(sub), "conversion from a value")
            return self.convert(self.expr(sub, env), src, dst)
        if ck == "ToVoid":
            return self.expr(sub, env)
        raise Unsupported("cast %s to %r" % (ck, node.get("type", {}).get("qualType")))

    def unary(self, node, env):
        op = node.get("opcode")
        sub = node["inner"][0]
        t = self.typ(node)
        if op in ("++", "--"):
            self.side_effect(op)
            return self.incdec(node, env)
        if op == "!":
            a = self.expr(sub, env)
            if a.const is not None:
                return V.k(0 if a.const != 0 else 1)
            return V("negb %s" % a.pb(), True)
        self.need_int(t, "unary %s" % op)
        a = self.expr(sub, env)
        if op == "+":
            return a
        if op == "-":
            return self.wrap(t, "- %s" % a.pz(), None if a.const is None else -a.const)
        if op == "~":
            if t.signed:
                return V("Z.lnot %s" % a.pz(), const=None if a.const is None else ~a.const)
            if a.const is not None:
                return V.k((1 << t.width) - 1 - a.const)
            return V("cnot_u %d %s" % (t.width, a.pz()))
        raise Unsupported("unary operator %s" % op)

    CMP = {"<": ("Z.ltb", lambda a, b: a < b), "<=": ("Z.leb", lambda a, b: a <= b),
           ">": ("Z.gtb", lambda a, b: a > b), ">=": ("Z.geb", lambda a, b: a >= b),
           "==": ("Z.eqb", lambda a, b: a == b), "!=": (None, lambda a, b: a != b)}

    def arith(self, op, t, a, b):
        """a op b at integer type t (operands already converted to t; for shifts t is the left operand's type)"""
        both = a.const is not None and b.const is not None
        if op in ("+", "-", "*"):
            c = None
            if both:
                c = {"+": a.const + b.const, "-": a.const - b.const, "*": a.const * b.const}[op]
            return self.wrap(t, "%s %s %s" % (a.pz(), op, b.pz()), c)
        if op in ("/", "%"):
            if both:
                if b.const == 0:
                    raise Unsupported("constant division by zero")
                q = abs(a.const) // abs(b.const) * (1 if (a.const >= 0) == (b.const >= 0) else -1)
                return V.k(wrap_t(t, q if op == "/" else a.const - q * b.const))
            f = "cdiv" if op == "/" else "crem"
            if t.signed and op == "/":
                return self.wrap(t, "%s %s %s" % (f, a.pz(), b.pz()))
            return V("%s %s %s" % (f, a.pz(), b.pz()))
        if op in ("&", "|", "^"):
            f = {"&": "Z.land", "|": "Z.lor", "^": "Z.lxor"}[op]
            if both:
                return V.k({"&": a.const & b.const, "|": a.const | b.const, "^": a.const ^ b.const}[op])
            return V("%s %s %s" % (f, a.pz(), b.pz()))
        if op in ("<<", ">>"):
            if both:
                if not (0 <= b.const < t.width):
                    raise Unsupported("constant shift by %d at a %d-bit type" % (b.const, t.width))
                return V.k(wrap_t(t, a.const << b.const) if op == "<<" else a.const >> b.const)
            if op == "<<":
                return V("%s %d %s %s" % ("cshl_s" if t.signed else "cshl_u", t.width, a.pz(), b.pz()))
            return V("cshr %d %s %s" % (t.width, a.pz(), b.pz()))
        raise Unsupported("binary operator %s" % op)

    def binary(self, node, env):
        op = node.get("opcode")
        l, r = node["inner"]
        if op == "=":
            self.side_effect("assignment")
            return self.assign(node, env)
        if op == ",":
            raise Unsupported("comma operator")
        if op in ("&&", "||"):
            a = self.expr(l, env)
            if a.const is not None:
                if (a.const != 0) == (op == "||"):
                    return V.k(1 if op == "||" else 0)
                b = self.expr(r, env)
                return V.k(1 if b.const != 0 else 0) if b.const is not None else V(b.b(), True)
            self.cond_depth += 1
            b = self.expr(r, env)
            self.cond_depth -= 1
            if b.const is not None:
                # a is free of side effects (they are refused under && || ?:) and total: a && 0 = 0, a || 1 = 1
                if (b.const != 0) == (op == "||"):
                    return V.k(1 if op == "||" else 0)
                return V(a.b(), True)
            return V("%s %s %s" % (a.pb(), "&&" if op == "&&" else "||", b.pb()), True)
        if op in self.CMP:
            lt, rt = self.typ(l), self.typ(r)
            if lt.kind == "ptr" or rt.kind == "ptr":
                raise Unsupported("pointer comparison")
            self.need_int(lt, "comparison operand")
            a, b = self.expr(l, env), self.expr(r, env)
            f, py = self.CMP[op]
            if a.const is not None and b.const is not None:
                return V.k(1 if py(a.const, b.const) else 0)
            if op == "!=":
                return V("negb (Z.eqb %s %s)" % (a.pz(), b.pz()), True)
            return V("%s %s %s" % (f, a.pz(), b.pz()), True)
        t = self.typ(node)
        if t.kind == "ptr" or self.typ(l).kind == "ptr" or self.typ(r).kind == "ptr":
            raise Unsupported("pointer arithmetic (%s)" % op)
        self.need_int(t, "operator %s" % op)
        a, b = self.expr(l, env), self.expr(r, env)
        if op in ("<<", ">>"):
            t = self.need_int(self.typ(l), "shift")
        return self.arith(op, t, a, b)

    # ---- assignments (statement level and, with restrictions, nested)
    def bind(self, cname, term):
        """emit `let x := term in`, return the V of x"""
        x = self.fresh(cname)
        self.grow()
        self.pre.append("let %s := %s in" % (x, term))
        return V(x, atomic=True)

    def store(self, lhs, env, val, vt):
        """lhs = val (val of the lhs type)"""
        k = lhs.get("kind")
        if k == "ParenExpr":
            return self.store(lhs["inner"][0], env, val, vt)
        if k == "DeclRefExpr":
            b = env.vars.get(lhs["referencedDecl"]["id"])
            if not isinstance(b, IntVar):
                raise Unsupported("assignment to %s" % lhs["referencedDecl"].get("name"))
            b.cur = val if val.const is not None else self.bind(b.cname, val.z())
            return b.cur
        if k == "ArraySubscriptExpr" or (k == "UnaryOperator" and lhs.get("opcode") == "*"):
            did, arr, idx = self.elem_read(lhs, env)
            if not arr.writable:
                raise Unsupported("write to the read-only array %s" % arr.cname)
            x = self.fresh(arr.cname)
            self.grow()
            self.pre.append("let %s := upd %s %s %s in" % (x, arr.cur, idx.pz(), val.pz()))
            arr.cur = x
            return val
        raise Unsupported("assignment to %s" % k)

    def load(self, lhs, env):
        return self.expr(lhs, env)

    def assign(self, node, env):
        lhs, rhs = node["inner"]
        lt = self.need_int(self.typ(lhs), "assignment target")
        if node["kind"] == "BinaryOperator":
            v = self.expr(rhs, env)     # already converted to the lhs type by an implicit cast
            rt = self.typ(rhs)
            if not rt.same(lt):
                v = self.convert(v, self.need_int(rt, "assigned value"), lt)
            return self.store(lhs, env, v, lt)
        op = node["opcode"][:-1]
        clt = self.need_int(self.tu.ctype(node.get("computeLHSType")), "compound assignment")
        crt = self.need_int(self.tu.ctype(node.get("computeResultType")), "compound assignment")
        old = self.convert(self.load(lhs, env), lt, clt)
        b = self.expr(rhs, env)
        r = self.arith(op, clt if op in ("<<", ">>") else crt, old, b)
        r = self.convert(r, clt if op in ("<<", ">>") else crt, lt)
        return self.store(lhs, env, r, lt)

    def incdec(self, node, env):
        lhs = node["inner"][0]
        t = self.need_int(self.typ(lhs), "++/--")
        old = self.load(lhs, env)
        d = 1 if node["opcode"] == "++" else -1
        new = self.wrap(t, "%s %s 1" % (old.pz(), "+" if d > 0 else "-"), None if old.const is None else old.const + d)
        new = self.store(lhs, env, new, t)
        return old if node.get("isPostfix") else new

    # ---- calls
    def call(self, node, env, want_value):
        name = self.callee_name(node)
        args = node["inner"][1:]
        if name in BUILTIN_CALLS:
            f, w = BUILTIN_CALLS[name]
            a = self.expr(args[0], env)
            return V("%s %s" % (f, a.pz()) if w is None else "%s %d %s" % (f, w, a.pz()))
        if name == "memcpy":
            return self.memcpy(node, env, want_value)
        fi = self.unit.function(self.tu, name, self)
        if fi.coqname not in self.deps:
            self.deps.append(fi.coqname)
        terms, outs = [], []
        for i, (pn, pk, pt) in enumerate(fi.params):
            if pk == "int":
                terms.append(self.expr(args[i], env).pz())
            else:
                did, arr = self.ptr(args[i], env)
                if arr.elem is None or not arr.elem.same(pt.elem):
                    raise Unsupported("array argument %s of %r passed as %r" % (arr.cname, arr.elem, pt.elem))
                terms.append(arr.cur)
                if i in fi.written:
                    if not arr.writable:
                        raise Unsupported("read-only array %s passed to %s, which writes it" % (arr.cname, name))
                    outs.append(arr)
        app = " ".join([fi.coqname] + terms)
        if not outs:
            if fi.ret.kind == "void":
                raise Unsupported("call of %s, which has no effect" % name)
            return V(app)
        self.side_effect("call that writes an array")
        names = []
        for arr in outs:
            x = self.fresh(arr.cname)
            arr.cur = x
            names.append(x)
        rv = None
        if fi.ret.kind != "void":
            rv = self.fresh("r")
            names.append(rv)
        self.grow()
        if len(names) == 1:
            self.pre.append("let %s := %s in" % (names[0], app))
        else:
            self.pre.append("let '(%s) := %s in" % (", ".join(names), app))
        if rv is None:
            if want_value:
                raise Unsupported("value of the void function %s" % name)
            return None
        return V(rv, atomic=True)

    def memcpy(self, node, env, want_value):
        """memcpy(&v, p, k) / memcpy(p, &v, k): v an unsigned integer variable of exactly k bytes, p a byte array"""
        if want_value:
            raise Unsupported("value of memcpy")
        self.side_effect("memcpy")
        dst, src, n = node["inner"][1:4]

        def addr_of_var(e):
            while e.get("kind") in ("ImplicitCastExpr", "ParenExpr", "CStyleCastExpr"):
                e = e["inner"][0]
            if e.get("kind") == "UnaryOperator" and e.get("opcode") == "&" and e["inner"][0].get("kind") == "DeclRefExpr":
                b = env.vars.get(e["inner"][0]["referencedDecl"]["id"])
                if isinstance(b, IntVar):
                    return b
            return None
        size = self.expr(n, env)
        if size.const is None:
            raise Unsupported("memcpy with a non-constant size")
        dv, sv = addr_of_var(dst), addr_of_var(src)
        if dv is not None and sv is None:
            var, (did, arr), load = dv, self.ptr(src, env), True
        elif sv is not None and dv is None:
            var, (did, arr), load = sv, self.ptr(dst, env), False
        else:
            raise Unsupported("memcpy that is not between an integer variable and a byte array")
        t = var.ctype
        if not (t.kind == "int" and not t.signed and t.width == 8 * size.const):
            raise Unsupported("memcpy of %d bytes and a variable of type %r" % (size.const, t))
        if arr.elem is None or not (arr.elem.kind == "int" and arr.elem.width == 8 and not arr.elem.signed):
            raise Unsupported("memcpy and an array of %r" % arr.elem)
        if load:
            var.cur = self.bind(var.cname, "le_load %d %s 0" % (size.const, arr.cur))
        else:
            if var.cur is None:
                raise Unsupported("read of %s before it is assigned" % var.cname)
            if not arr.writable:
                raise Unsupported("write to the read-only array %s" % arr.cname)
            x = self.fresh(arr.cname)
            self.grow()
            self.pre.append("let %s := le_store %d %s 0 %s in" % (x, size.const, arr.cur, var.cur.pz()))
            arr.cur = x
        return None

    # ---- statements (continuation passing; every function returns the Coq text of "this and what follows")
    def flush(self):
        p, self.pre = self.pre, []
        return "".join(x + "\n" for x in p)

    def jumps(self, node):
        """does the statement contain return / break / continue"""
        if not isinstance(node, dict) or not node:
            return False
        if node.get("kind") in ("ReturnStmt", "BreakStmt", "ContinueStmt"):
            return True
        return any(self.jumps(c) for c in node.get("inner", []))

    def assigned(self, node, acc, aliases=None):
        """decl ids assigned (scalars) or written (arrays) in the statement"""
        if not isinstance(node, dict) or not node:
            return acc
        k = node.get("kind")
        inner = node.get("inner", [])

        def target(lhs):
            kk = lhs.get("kind")
            if kk == "ParenExpr":
                return target(lhs["inner"][0])
            if kk == "DeclRefExpr":
                acc.add(lhs["referencedDecl"]["id"])
            elif kk == "ArraySubscriptExpr" or (kk == "UnaryOperator" and lhs.get("opcode") == "*"):
                t = self.refs_of_ptr(lhs["inner"][0], None)
                if t:
                    acc.add(t)
        if k == "CompoundAssignOperator" or (k == "BinaryOperator" and node.get("opcode") == "="):
            target(inner[0])
        if k == "UnaryOperator" and node.get("opcode") in ("++", "--"):
            target(inner[0])
        if k == "CallExpr":
            name = self.callee_name(node)
            if name == "memcpy":
                for e in inner[1:2]:
                    x = e
                    while x.get("kind") in ("ImplicitCastExpr", "ParenExpr", "CStyleCastExpr"):
                        x = x["inner"][0]
                    if x.get("kind") == "UnaryOperator" and x.get("opcode") == "&":
                        target(x["inner"][0])
                    else:
                        t = self.refs_of_ptr(e, None)
                        if t:
                            acc.add(t)
            elif name not in BUILTIN_CALLS:
                fi = self.unit.function(self.tu, name, self)
                for i in fi.written:
                    t = self.refs_of_ptr(inner[1 + i], None)
                    if t:
                        acc.add(t)
        for c in inner:
            self.assigned(c, acc)
        return acc

    def stmts(self, todo, env, k, kb=None, kc=None):
        """todo: list of statement nodes; k: env -> text for falling off the end; kb / kc: break / continue"""
        if not todo:
            return k(env)
        s, rest = todo[0], todo[1:]
        kind = s.get("kind") if s else None
        cont = lambda e: self.stmts(rest, e, k, kb, kc)
        if not s or kind == "NullStmt":
            return cont(env)
        if kind == "CompoundStmt":
            return self.stmts(list(s.get("inner", [])) + rest, env, k, kb, kc)
        if kind == "DeclStmt":
            for d in s.get("inner", []):
                self.decl(d, env)
            return self.flush() + cont(env)
        if kind == "ReturnStmt":
            v = None
            if s.get("inner"):
                v = self.full_expr(s["inner"][0], env)
            return self.flush() + self.result(env, v)
        if kind == "BreakStmt":
            if kb is None:
                raise Unsupported("break outside a loop")
            return kb(env)
        if kind == "ContinueStmt":
            if kc is None:
                raise Unsupported("continue outside a loop")
            return kc(env)
        if kind == "IfStmt":
            return self.ifstmt(s, rest, env, k, kb, kc)
        if kind in ("ForStmt", "WhileStmt", "DoStmt"):
            return self.loop(s, rest, env, k, kb, kc)
        if kind == "SwitchStmt":
            return self.switch(s, rest, env, k, kb, kc)
        if kind in ("BinaryOperator", "CompoundAssignOperator", "UnaryOperator", "ParenExpr"):
            x = s
            while x.get("kind") == "ParenExpr":
                x = x["inner"][0]
            if x["kind"] == "UnaryOperator" and x.get("opcode") not in ("++", "--"):
                raise Unsupported("expression statement without effect")
            if x["kind"] == "BinaryOperator" and x.get("opcode") != "=":
                raise Unsupported("expression statement without effect (%s)" % x.get("opcode"))
            self.full_expr(x, env)
            return self.flush() + cont(env)
        if kind == "CallExpr":
            self.check_unsequenced(s)
            self.call(s, env, want_value=False)
            return self.flush() + cont(env)
        if kind in ("ImplicitCastExpr", "CStyleCastExpr") and s.get("castKind") == "ToVoid":
            return cont(env)
        raise Unsupported("statement %s" % kind)

    def check_unsequenced(self, node):
        """C leaves the evaluation order inside a full expression open.  The translation is order independent when
        (1) a variable modified by a nested ++ -- = op= occurs nowhere else in the full expression and (2) a call
        that writes an array is the whole expression or the whole right-hand side of the top-level assignment."""
        mods, uses = [], []

        def walk(n, top, direct):
            if not isinstance(n, dict) or not n:
                return
            k = n.get("kind")
            if k == "DeclRefExpr":
                uses.append(n["referencedDecl"]["id"])
            is_mod = (k == "UnaryOperator" and n.get("opcode") in ("++", "--")) or k == "CompoundAssignOperator" or \
                     (k == "BinaryOperator" and n.get("opcode") == "=")
            if is_mod and not top:
                x = n["inner"][0]
                while x.get("kind") == "ParenExpr":
                    x = x["inner"][0]
                if x.get("kind") != "DeclRefExpr":
                    raise Unsupported("nested assignment to an array element")
                mods.append(x["referencedDecl"]["id"])
            if k == "CallExpr" and not direct:
                name = self.callee_name(n)
                if name == "memcpy" or (name not in BUILTIN_CALLS and self.unit.function(self.tu, name, self).written):
                    raise Unsupported("call of %s, which writes an array, inside a larger expression" % name)
            inner = n.get("inner", [])
            for i, c in enumerate(inner):
                d = direct and (k in ("ParenExpr", "ImplicitCastExpr", "CStyleCastExpr", "Init") or
                                (top and k == "BinaryOperator" and n.get("opcode") == "=" and i == 1))
                walk(c, False, d)
        walk(node, True, True)
        for m in mods:
            if uses.count(m) > 1:
                raise Unsupported("variable modified and used in the same expression")

    def decl(self, d, env):
        if d.get("kind") != "VarDecl":
            raise Unsupported("declaration %s" % d.get("kind"))
        if d.get("storageClass") == "static":
            raise Unsupported("static local %s" % d.get("name"))
        t = self.typ(d)
        init = [c for c in d.get("inner", []) if isinstance(c, dict) and c]
        if t.isint():
            v = None
            if init:
                self.check_unsequenced({"kind": "Init", "inner": [init[0]]})
                v = self.expr(init[0], env)
                it = self.typ(init[0])
                if not it.same(t):
                    v = self.convert(v, self.need_int(it, "initialiser"), t)
            var = IntVar(d["name"], t, None)
            env.vars[d["id"]] = var
            if v is not None:
                var.cur = v if v.const is not None else self.bind(var.cname, v.z())
            return
        if t.kind == "ptr" and t.text != "array" and init:
            did, arr = self.ptr(init[0], env)
            if t.elem is None:
                raise Unsupported("local void* %s" % d["name"])
            if arr.elem is None or not arr.elem.same(t.elem):
                raise Unsupported("pointer %s of %r initialised from an array of %r" % (d["name"], t.elem, arr.elem))
            if did in self.tu.arrays:
                raise Unsupported("local pointer to a static array")
            env.vars[d["id"]] = Alias(did)
            return
        raise Unsupported("local %s of type %s" % (d.get("name"), d.get("type", {}).get("qualType")))

    def result(self, env, v):
        parts = []
        for i in self.info.written:
            pid = self.param_ids[i]
            parts.append(env.vars[pid].cur)
        if self.info.ret.kind != "void":
            if v is None:
                raise Unsupported("return without a value")
            if self.info.ret.kind == "bool" and v.const is None and v.isbool:
                parts.append(v.z())
            else:
                parts.append(v.z())
        elif v is not None:
            raise Unsupported("return with a value in a void function")
        self.grow()
        if len(parts) == 1:
            return parts[0] + "\n"
        return "(" + ", ".join(parts) + ")\n"

    def switch(self, s, rest, env, k, kb, kc):
        """switch over a flat body: labels and statements at the top level of one compound statement.  Control enters
        at the matching label (or default, or leaves) and runs to the end of the body; break leaves."""
        inner = [c for c in s["inner"] if c]
        cond, body = inner[0], inner[-1]
        if len(inner) != 2 or body.get("kind") != "CompoundStmt":
            raise Unsupported("switch whose body is not a compound statement")
        v = self.full_expr(cond, env)
        head = self.flush()
        items = []      # ('case', value) | ('default',) | ('stmt', node)
        def flatten(n):
            kk = n.get("kind")
            if kk == "CaseStmt":
                if n.get("isGNURange"):
                    raise Unsupported("case range")
                sub = [c for c in n["inner"] if c]
                cv = self.expr(sub[0], env)
                if cv.const is None:
                    raise Unsupported("case label that is not a constant")
                items.append(("case", cv.const))
                flatten(sub[-1])
            elif kk == "DefaultStmt":
                items.append(("default",))
                flatten([c for c in n["inner"] if c][-1])
            else:
                items.append(("stmt", n))
        for c in body.get("inner", []):
            flatten(c)
        for it in items:
            if it[0] == "stmt" and self.has_label(it[1]):
                raise Unsupported("case label nested inside a statement")
        after = lambda e: self.stmts(rest, e, k, kb, kc)

        def code_from(i, e):
            todo = [it[1] for it in items[i:] if it[0] == "stmt"]
            return self.stmts(todo, e, after, after, kc)
        cases = [(it[1], i) for i, it in enumerate(items) if it[0] == "case"]
        if len({c for c, _ in cases}) != len(cases):
            raise Unsupported("duplicate case labels")
        dflt = [i for i, it in enumerate(items) if it[0] == "default"]
        if v.const is not None:
            for c, i in cases:
                if c == v.const:
                    return head + code_from(i, env)
            return head + (code_from(dflt[0], env) if dflt else after(env))
        text = code_from(dflt[0], env.copy()) if dflt else after(env.copy())
        for c, i in reversed(cases):
            self.grow()
            text = "if Z.eqb %s %s then\n%selse\n%s" % (v.pz(), lit(c), indent(code_from(i, env.copy())), indent(text))
        return head + text

    def has_label(self, node):
        if not isinstance(node, dict) or not node:
            return False
        if node.get("kind") in ("CaseStmt", "DefaultStmt"):
            return True
        if node.get("kind") == "SwitchStmt":
            return False
        return any(self.has_label(c) for c in node.get("inner", []))

    def exhausted(self):
        n = len(self.info.written)
        parts = ["[loop_exhausted]"] * n + (["loop_exhausted"] if self.info.ret.kind != "void" else [])
        self.grow()
        return (parts[0] if len(parts) == 1 else "(" + ", ".join(parts) + ")") + "\n"

    def ifstmt(self, s, rest, env, k, kb, kc):
        inner = s["inner"]
        c = self.full_expr(inner[0], env)
        head = self.flush()
        then = inner[1]
        els = inner[2] if len(inner) > 2 else None
        if c.const is not None:
            br = then if c.const != 0 else els
            return head + self.stmts(([br] if br else []) + rest, env, k, kb, kc)
        self.grow()
        if self.jumps(then) or self.jumps(els):
            a = self.stmts([then] + rest, env.copy(), k, kb, kc)
            b = self.stmts(([els] if els else []) + rest, env.copy(), k, kb, kc)
            return head + "if %s then\n%selse\n%s" % (c.b(), indent(a), indent(b))
        # no jumps: merge the variables assigned in either branch
        mod = self.assigned(then, set())
        if els:
            self.assigned(els, mod)
        rmod = self.resolve_all(env, mod)
        mod = [m for m in env.vars if m in rmod]
        if not mod:
            # branches without visible effect (only locals of their own)
            self.stmts([then], env.copy(), lambda e: "", None, None)
            if els:
                self.stmts([els], env.copy(), lambda e: "", None, None)
            return head + self.stmts(rest, env, k, kb, kc)

        def tup(e):
            vals = []
            for m in mod:
                b = e.vars[m]
                if isinstance(b, IntVar):
                    if b.cur is None:
                        raise Unsupported("%s is assigned in only one branch and was not initialised" % b.cname)
                    vals.append(b.cur.z())
                else:
                    vals.append(b.cur)
            return (vals[0] if len(vals) == 1 else "(" + ", ".join(vals) + ")") + "\n"
        for m in mod:
            b = env.vars[m]
            if isinstance(b, IntVar) and b.cur is None:
                raise Unsupported("%s is assigned under an if before it is initialised" % b.cname)
        a = self.stmts([then], env.copy(), tup, None, None)
        b = self.stmts([els] if els else [], env.copy(), tup, None, None)
        names = []
        for m in mod:
            bnd = env.vars[m]
            x = self.fresh(bnd.cname)
            names.append(x)
            if isinstance(bnd, IntVar):
                bnd.cur = V(x, atomic=True)
            else:
                bnd.cur = x
        pat = names[0] if len(names) == 1 else "'(%s)" % ", ".join(names)
        txt = head + "let %s :=\n  if %s then\n%s  else\n%s  in\n" % (pat, c.b(), indent(a, 4), indent(b, 4))
        return txt + self.stmts(rest, env, k, kb, kc)

    def resolve_all(self, env, ids):
        out = set()
        for i in ids:
            b = env.vars.get(i)
            n = 0
            while isinstance(b, Alias) and n < 8:
                i, b = b.target, env.vars.get(b.target)
                n += 1
            out.add(i)
        return out

    def loop(self, s, rest, env, k, kb, kc):
        kind = s["kind"]
        inner = s["inner"]
        if kind == "ForStmt":
            init, condvar, cond, inc, body = inner
            if condvar:
                raise Unsupported("for with a condition variable")
        elif kind == "WhileStmt":
            init, cond, inc, body = None, inner[0], None, inner[1]
        else:
            init, cond, inc, body = None, inner[1], None, inner[0]
        after = lambda e: self.stmts(rest, e, k, kb, kc)

        def test(e):
            """evaluate the condition; run the body or leave"""
            if cond:
                c = self.full_expr(cond, e)
                head = self.flush()
            else:
                c, head = V.k(1), ""
            if c.const is not None:
                if c.const == 0:
                    return head + after(e)
                return head + iteration(e)
            self.grow()
            a = iteration(e.copy())
            b = after(e.copy())
            return head + "if %s then\n%selse\n%s" % (c.b(), indent(a), indent(b))

        bound = self.opts.get("unroll")

        def iteration(e):
            if bound is not None and depth[0] >= int(bound):
                # the target allows a data-dependent exit within `unroll` iterations: past them the result is
                # [loop_exhausted], a value outside every C type (see CSem.v)
                return self.exhausted()
            depth[0] += 1
            if depth[0] > UNROLL_CAP:
                depth[0] -= 1
                raise Unsupported("loop does not end within %d unrolled iterations (the trip count must follow from "
                                  "constants, or the target must give an \"unroll\" bound)" % UNROLL_CAP)
            try:
                def step(e2):
                    if inc:
                        self.full_expr(inc, e2)
                        return self.flush() + test(e2)
                    return test(e2)
                return self.stmts([body], e, step, after, step)
            finally:
                depth[0] -= 1
        depth = [0]
        pre = ""
        if init:
            pre = self.stmts([init], env, lambda e: "", None, None)
        if kind == "DoStmt":
            return pre + iteration(env)
        return pre + test(env)

    # ---- the function
    def translate(self):
        node, info = self.node, self.info
        info.name, info.coqname = node["name"], self.coqname
        ft = node["type"]["qualType"]
        if node.get("variadic"):
            raise Unsupported("variadic function")
        params = [c for c in node.get("inner", []) if c.get("kind") == "ParmVarDecl"]
        body = [c for c in node.get("inner", []) if c.get("kind") == "CompoundStmt"][0]
        rett = self.tu.parse_type(ft[:ft.index("(")].strip())
        if not (rett.isint() or rett.kind == "void"):
            raise Unsupported("return type %s" % ft[:ft.index("(")].strip())
        info.ret = rett
        env = Env()
        self.param_ids = []
        for p in params:
            t = self.typ(p)
            if "name" not in p:
                raise Unsupported("unnamed parameter")
            name = self.fresh(p["name"])
            self.param_ids.append(p["id"])
            if t.isint():
                env.vars[p["id"]] = IntVar(p["name"], t, V(name, atomic=True))
                info.params.append((name, "int", t))
            elif t.kind == "ptr":
                env.vars[p["id"]] = ArrVar(p["name"], t.elem, name, not t.const, True, void=t.elem is None)
                info.params.append((name, "arr", t))
            else:
                raise Unsupported("parameter %s of type %s" % (p["name"], p["type"]["qualType"]))
        # which array parameters are written
        acc, aliases = set(), {}
        self.scan_writes(body, acc, aliases)
        for i, p in enumerate(params):
            if p["id"] in acc:
                if not env.vars[p["id"]].writable:
                    raise Unsupported("write through the const pointer %s" % p["name"])
                info.written.append(i)
        for did in acc:
            if did not in self.param_ids:
                raise Unsupported("write to an array that is not a parameter")
        if rett.kind == "void" and not info.written:
            raise Unsupported("void function that writes no parameter array")

        def fall_off(e):
            if rett.kind != "void":
                raise Unsupported("control reaches the end of a non-void function")
            return self.result(e, None)
        text = self.stmts([body], env, fall_off)
        # void* parameters: the element type they were viewed at
        sig = []
        for i, p in enumerate(params):
            name, kind, t = info.params[i]
            if kind == "int":
                sig.append("(%s : Z)" % name)
                continue
            b = env.vars[p["id"]]
            if b.elem is None:
                raise Unsupported("void* parameter %s is never accessed" % p["name"])
            if t.elem is None:
                info.params[i] = (name, kind, T("ptr", elem=b.elem, const=t.const))
            sig.append("(%s : list Z)" % name)
        res = ["list Z"] * len(info.written) + (["Z"] if rett.kind != "void" else [])
        info.iface = ", ".join("%s : %r" % (n, t) for n, _, t in info.params) + " -> " + \
            " * ".join(["%s' : %r[]" % (info.params[i][0], info.params[i][2].elem) for i in info.written] +
                       ([repr(rett)] if rett.kind != "void" else []))
        info.text = "Definition %s %s : %s :=\n%s." % (self.coqname, " ".join(sig), " * ".join(res), indent(text).rstrip("\n"))
        info.deps = self.deps
        return info


def indent(text, n=2):
    pad = " " * n
    return "".join((pad + l if l else l) + "\n" for l in text.rstrip("\n").split("\n"))


class Unit:
    """One run of the translator: translation units, translated functions (memoised), emitted definitions in order."""
    def __init__(self, repo, cache_dir):
        self.repo, self.cache_dir = Path(repo), cache_dir
        self.tus = {}
        self.done = {}          # (id(tu), function name) -> FuncInfo | Unsupported
        self.arrays = {}        # (id(tu), decl id) -> coq name
        self.out = []           # (coqname, header comment or None, text)
        self.names = set()
        self.in_progress = []
        self.tu_rel = {}

    def tu(self, rel):
        if rel not in self.tus:
            self.tus[rel] = load_tu(self.repo, rel, self.cache_dir)
            self.tu_rel[id(self.tus[rel])] = rel
        return self.tus[rel]

    def static_array(self, tu, did):
        key = (id(tu), did)
        if key not in self.arrays:
            a = tu.arrays[did]
            stem = Path(self.tu_rel[id(tu)]).stem
            name = "c_%s_%s" % (stem, a["name"])
            if name in self.names:
                raise Unsupported("two static arrays named %s" % name)
            self.names.add(name)
            self.arrays[key] = name
            et = tu.parse_type(re.sub(r"\[\d+\]$", "", a["type"]))
            if not et.isint():
                raise Unsupported("static array %s of %s" % (a["name"], a["type"]))
            self.out.append((name, None, "(* %s: static %s %s *)\nDefinition %s : list Z := [%s]." % (
                self.tu_rel[id(tu)], a["type"], a["name"], name, "; ".join(lit(wrap_t(et, v)) for v in a["values"]))))
        return self.arrays[key]

    def function(self, tu, name, caller=None, coqname=None, opts=None):
        key = (id(tu), name)
        if key in self.done:
            r = self.done[key]
            if isinstance(r, Unsupported):
                raise Unsupported("call of %s, which is not translatable (%s)" % (name, r))
            return r
        if key in self.in_progress:
            raise Unsupported("recursion through %s" % name)
        if name not in tu.funcs:
            raise Unsupported("call of %s, which is not defined in this translation unit" % name if caller else
                              "function %s is not defined in %s" % (name, self.tu_rel[id(tu)]))
        self.in_progress.append(key)
        try:
            stem = Path(self.tu_rel[id(tu)]).stem
            cn = coqname or "c_" + name
            if cn in self.names:
                cn = "c_%s_%s" % (stem, name)
            if cn in self.names:
                raise Unsupported("two translated functions named %s" % cn)
            try:
                info = FnTranslator(self, tu, tu.funcs[name], cn, opts).translate()
            except Unsupported as e:
                self.done[key] = e
                raise
            except (KeyError, IndexError, ValueError, TypeError) as e:
                err = Unsupported("AST shape not understood (%s: %s)" % (type(e).__name__, e))
                self.done[key] = err
                raise err
            self.names.add(cn)
            self.done[key] = info
            self.out.append((cn, self.header(tu, name, info), info.text))
            return info
        finally:
            self.in_progress.pop()

    def header(self, tu, name, info):
        rel = self.tu_rel[id(tu)]
        data = (self.repo / rel).read_bytes()
        b, e = tu.funcs[name]["_range"]
        ctext = data[b:e].decode("utf-8", "replace") if b is not None else ""
        if name not in ctext:
            ctext = "(text not located: the definition is not in %s itself)" % rel
        ctext = ctext.replace("(*", "( *").replace("*)", "* )").replace('"', "''")
        return "(* %s: %s      git blob %s\n   %s\n%s\n*)" % (rel, name, _git_blob_hash(data), info.iface,
                                                         "".join("   | " + l + "\n" for l in ctext.split("\n")).rstrip("\n"))


def load_targets():
    return json.loads(Path(os.environ.get("C2COQ_TARGETS", TARGETS)).read_text())


def generate(repo, outdir, strict=False):
    """Never raises anything but TieError; without a target list nothing is written."""
    if not TARGETS.exists():
        return {}
    try:
        return _generate(repo, outdir, strict)
    except TieError:
        raise
    except Exception as e:      # a defect of the translator itself must not take the checks down with a traceback
        raise TieError("c2coq: internal error %s: %s" % (type(e).__name__, e))


def translate_all(repo, targets=None):
    """-> (unit, [(target, FuncInfo)], [(coqname, file, function, reason)])"""
    verif = TOOLS.parent
    unit = Unit(Path(repo), verif / "build" / "c2coq_cache")
    done, failures = [], []
    for tg in (targets if targets is not None else load_targets()):
        rel, name = tg["file"], tg["function"]
        cn = tg.get("as") or "c_" + name
        try:
            tu = unit.tu(rel)
            info = unit.function(tu, name, coqname=cn, opts=tg)
            if info.coqname != cn:
                raise Unsupported("the name %s is already taken" % cn)
            done.append((tg, info))
        except Unsupported as e:
            failures.append((cn, rel, name, str(e)))
            unit.out.append((cn, None, "(* %s: %s in %s is NOT TRANSLATED: %s *)" % (
                cn, name, rel, str(e).replace("(*", "( *").replace("*)", "* )").replace('"', "''"))))
    return unit, done, failures


def _generate(repo, outdir, strict=False):
    from vlib import write_if_changed
    repo, outdir = Path(repo), Path(outdir)
    unit, done, failures = translate_all(repo)
    summary = {"c2coq:" + info.coqname: info.iface for _, info in done}
    lines = ["(* GENERATED by tools/gen.d/c2coq.py from the repository's current sources - do not edit.",
             "   One Definition c_<function> per target of tools/c2coq.d/targets.json (and per helper they call), over the",
             "   operators of Base/CSem.v; Tie/Tie_<engine>.v proves each of them equal to its model function. *)",
             "From Coq Require Import ZArith List Bool.", "From Carquet Require Import Base.CSem.",
             "Import ListNotations.", "Local Open Scope Z_scope.", "Local Open Scope bool_scope.", ""]
    for cn, header, text in unit.out:
        if header:
            lines.append(header)
        lines.append(text)
        lines.append("")
    write_if_changed(outdir / "CLeaf_gen.v", "\n".join(lines))
    summary["c2coq:untranslated"] = ["%s (%s: %s): %s" % f for f in failures]
    if failures and strict:
        raise TieError("c2coq: " + "; ".join("%s in %s: %s" % (f[2], f[1], f[3]) for f in failures))
    return summary


if __name__ == "__main__":
    sys.path.insert(0, str(TOOLS))
    args = [a for a in sys.argv[1:] if not a.startswith("--")]
    s = generate(args[0] if args else os.environ.get("VERIF_REPO", "/repo"), TOOLS.parent / "coq/theories/Gen",
                 strict="--strict" in sys.argv)
    for k, v in s.items():
        if k == "c2coq:untranslated":
            for f in v:
                print("NOT TRANSLATED", f)
        else:
            print(k, "::", v)
