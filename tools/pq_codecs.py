"""pq_codecs - Parquet page compression through the SYSTEM libraries (independent of carquet's own codecs).

    compress(codec, data) -> bytes          decompress(codec, data, uncompressed_size) -> bytes

codec is the CompressionCodec name or number of parquet.thrift:
    UNCOMPRESSED 0, SNAPPY 1 (libsnappy.so.1 C API, raw block format), GZIP 2 (Python zlib, gzip members,
    RFC 1952; several members are concatenated on decompression), LZ4 5 (deprecated Hadoop framing:
    [u32 BE uncompressed size][u32 BE compressed size][LZ4 block] repeated; on decompression a payload that
    is not framed is tried as a raw block and reported through `lz4_was_raw`), ZSTD 6 (libzstd.so.1, frames),
    LZ4_RAW 7 (liblz4.so.1 block API LZ4_compress_default / LZ4_decompress_safe).
LZO 3 and BROTLI 4 are not available: CodecUnavailable.  Malformed input: CodecError.
"""
import ctypes, zlib, struct

CODEC_IDS = {"UNCOMPRESSED": 0, "SNAPPY": 1, "GZIP": 2, "LZO": 3, "BROTLI": 4, "LZ4": 5, "ZSTD": 6, "LZ4_RAW": 7}
CODEC_NAMES = {v: k for k, v in CODEC_IDS.items()}


class CodecError(Exception):
    """The compressed payload is not valid for the codec (or does not have the announced size)."""


class CodecUnavailable(Exception):
    """No implementation of this codec on this machine (LZO, BROTLI, unknown ids)."""


_libs = {}


def _lib(name):
    """Load a system shared library once."""
    if name not in _libs:
        _libs[name] = ctypes.CDLL(name)
    return _libs[name]


def codec_id(codec):
    """Name or number -> number."""
    if isinstance(codec, str):
        return CODEC_IDS[codec]
    return int(codec)


# ---- snappy

def snappy_compress(data):
    """Raw snappy block via libsnappy's C API."""
    lib = _lib("libsnappy.so.1")
    lib.snappy_max_compressed_length.restype = ctypes.c_size_t
    lib.snappy_max_compressed_length.argtypes = [ctypes.c_size_t]
    cap = lib.snappy_max_compressed_length(len(data))
    out = ctypes.create_string_buffer(cap)
    n = ctypes.c_size_t(cap)
    lib.snappy_compress.argtypes = [ctypes.c_char_p, ctypes.c_size_t, ctypes.c_char_p, ctypes.POINTER(ctypes.c_size_t)]
    rc = lib.snappy_compress(bytes(data), len(data), out, ctypes.byref(n))
    if rc != 0:
        raise CodecError("snappy_compress rc=%d" % rc)
    return out.raw[:n.value]


def snappy_decompress(data, size_hint=None):
    """Raw snappy block -> bytes (length taken from the block's own preamble)."""
    lib = _lib("libsnappy.so.1")
    data = bytes(data)
    n = ctypes.c_size_t(0)
    lib.snappy_uncompressed_length.argtypes = [ctypes.c_char_p, ctypes.c_size_t, ctypes.POINTER(ctypes.c_size_t)]
    if lib.snappy_uncompressed_length(data, len(data), ctypes.byref(n)) != 0:
        raise CodecError("snappy: bad length preamble")
    if n.value > (1 << 31):
        raise CodecError("snappy: absurd uncompressed length %d" % n.value)
    out = ctypes.create_string_buffer(max(n.value, 1))
    m = ctypes.c_size_t(n.value)
    lib.snappy_uncompress.argtypes = [ctypes.c_char_p, ctypes.c_size_t, ctypes.c_char_p, ctypes.POINTER(ctypes.c_size_t)]
    rc = lib.snappy_uncompress(data, len(data), out, ctypes.byref(m))
    if rc != 0:
        raise CodecError("snappy_uncompress rc=%d" % rc)
    return out.raw[:m.value]


# ---- lz4 block

def lz4_block_compress(data):
    """LZ4 block via LZ4_compress_default."""
    lib = _lib("liblz4.so.1")
    data = bytes(data)
    lib.LZ4_compressBound.restype = ctypes.c_int
    cap = lib.LZ4_compressBound(ctypes.c_int(len(data)))
    out = ctypes.create_string_buffer(max(cap, 1))
    lib.LZ4_compress_default.restype = ctypes.c_int
    lib.LZ4_compress_default.argtypes = [ctypes.c_char_p, ctypes.c_char_p, ctypes.c_int, ctypes.c_int]
    n = lib.LZ4_compress_default(data, out, len(data), cap)
    if n <= 0 and len(data) > 0:
        raise CodecError("LZ4_compress_default failed")
    if len(data) == 0:
        return b"\x00"          # a block holding one empty literal run
    return out.raw[:n]


def lz4_block_decompress(data, size):
    """LZ4 block -> exactly `size` bytes via LZ4_decompress_safe."""
    lib = _lib("liblz4.so.1")
    data = bytes(data)
    out = ctypes.create_string_buffer(max(size, 1))
    lib.LZ4_decompress_safe.restype = ctypes.c_int
    lib.LZ4_decompress_safe.argtypes = [ctypes.c_char_p, ctypes.c_char_p, ctypes.c_int, ctypes.c_int]
    n = lib.LZ4_decompress_safe(data, out, len(data), size)
    if n < 0:
        raise CodecError("LZ4_decompress_safe rc=%d" % n)
    if n != size:
        raise CodecError("lz4: decompressed to %d bytes, expected %d" % (n, size))
    return out.raw[:n]


def lz4_hadoop_compress(data):
    """Hadoop framing used by the deprecated LZ4 codec: one frame [BE usize][BE csize][block]."""
    blk = lz4_block_compress(data)
    return struct.pack(">II", len(data), len(blk)) + blk


lz4_was_raw = [False]     # set by the last decompress("LZ4", ...): payload was a bare block, not Hadoop-framed


def lz4_hadoop_decompress(data, size):
    """Deprecated LZ4 codec: Hadoop frames; falls back to a bare block (what several writers emit),
    recording the fact in lz4_was_raw[0]."""
    data = bytes(data)
    lz4_was_raw[0] = False
    out, pos, ok = [], 0, True
    total = 0
    while pos < len(data):
        if pos + 8 > len(data):
            ok = False
            break
        us, cs = struct.unpack_from(">II", data, pos)
        if pos + 8 + cs > len(data) or total + us > size:
            ok = False
            break
        try:
            out.append(lz4_block_decompress(data[pos + 8:pos + 8 + cs], us))
        except CodecError:
            ok = False
            break
        total += us
        pos += 8 + cs
    if ok and total == size:
        return b"".join(out)
    res = lz4_block_decompress(data, size)
    lz4_was_raw[0] = True
    return res


# ---- zstd

def zstd_compress(data, level=3):
    """One zstd frame via ZSTD_compress."""
    lib = _lib("libzstd.so.1")
    data = bytes(data)
    lib.ZSTD_compressBound.restype = ctypes.c_size_t
    lib.ZSTD_compressBound.argtypes = [ctypes.c_size_t]
    cap = lib.ZSTD_compressBound(len(data))
    out = ctypes.create_string_buffer(max(cap, 1))
    lib.ZSTD_compress.restype = ctypes.c_size_t
    lib.ZSTD_compress.argtypes = [ctypes.c_char_p, ctypes.c_size_t, ctypes.c_char_p, ctypes.c_size_t, ctypes.c_int]
    n = lib.ZSTD_compress(out, cap, data, len(data), level)
    lib.ZSTD_isError.argtypes = [ctypes.c_size_t]
    if lib.ZSTD_isError(n):
        raise CodecError("ZSTD_compress failed")
    return out.raw[:n]


def zstd_decompress(data, size):
    """zstd frame(s) -> exactly `size` bytes via ZSTD_decompress."""
    lib = _lib("libzstd.so.1")
    data = bytes(data)
    out = ctypes.create_string_buffer(max(size, 1))
    lib.ZSTD_decompress.restype = ctypes.c_size_t
    lib.ZSTD_decompress.argtypes = [ctypes.c_char_p, ctypes.c_size_t, ctypes.c_char_p, ctypes.c_size_t]
    n = lib.ZSTD_decompress(out, size, data, len(data))
    lib.ZSTD_isError.argtypes = [ctypes.c_size_t]
    if lib.ZSTD_isError(n):
        raise CodecError("ZSTD_decompress failed")
    if n != size:
        raise CodecError("zstd: decompressed to %d bytes, expected %d" % (n, size))
    return out.raw[:n]


# ---- gzip

def gzip_compress(data, level=6):
    """One gzip member (RFC 1952) with zeroed header fields, via zlib."""
    c = zlib.compressobj(level, zlib.DEFLATED, 31)
    return c.compress(bytes(data)) + c.flush()


def gzip_decompress(data, size=None):
    """Concatenated gzip members -> bytes."""
    data = bytes(data)
    out = []
    while data:
        d = zlib.decompressobj(31)
        try:
            out.append(d.decompress(data))
            out.append(d.flush())
        except zlib.error as e:
            raise CodecError("gzip: %s" % e)
        if not d.eof:
            raise CodecError("gzip: truncated member")
        data = d.unused_data
    res = b"".join(out)
    if size is not None and len(res) != size:
        raise CodecError("gzip: decompressed to %d bytes, expected %d" % (len(res), size))
    return res


# ---- front

def compress(codec, data, level=None):
    """Compress one page body with the codec (name or number)."""
    c = codec_id(codec)
    if c == 0:
        return bytes(data)
    if c == 1:
        return snappy_compress(data)
    if c == 2:
        return gzip_compress(data, 6 if level is None else level)
    if c == 5:
        return lz4_hadoop_compress(data)
    if c == 6:
        return zstd_compress(data, 3 if level is None else level)
    if c == 7:
        return lz4_block_compress(data)
    raise CodecUnavailable(CODEC_NAMES.get(c, str(c)))


def decompress(codec, data, size):
    """Decompress one page body; the result must be exactly `size` bytes (CodecError otherwise)."""
    c = codec_id(codec)
    if c == 0:
        if len(data) != size:
            raise CodecError("uncompressed page of %d bytes, header says %d" % (len(data), size))
        return bytes(data)
    if c == 1:
        r = snappy_decompress(data)
        if len(r) != size:
            raise CodecError("snappy: decompressed to %d bytes, expected %d" % (len(r), size))
        return r
    if c == 2:
        return gzip_decompress(data, size)
    if c == 5:
        return lz4_hadoop_decompress(data, size)
    if c == 6:
        return zstd_decompress(data, size)
    if c == 7:
        return lz4_block_decompress(data, size)
    raise CodecUnavailable(CODEC_NAMES.get(c, str(c)))


def _selftest():
    """Round trips of every codec over a few inputs."""
    import os
    for data in (b"", b"a", b"abc" * 1000, os.urandom(5000), bytes(70000)):
        for c in ("UNCOMPRESSED", "SNAPPY", "GZIP", "LZ4", "ZSTD", "LZ4_RAW"):
            z = compress(c, data)
            assert decompress(c, z, len(data)) == data, c
    assert decompress("LZ4", lz4_block_compress(b"xyz" * 50), 150) == b"xyz" * 50 and lz4_was_raw[0]
    try:
        decompress("SNAPPY", b"\x05\x00a\x01", 5)
        raise AssertionError("bad snappy accepted")
    except CodecError:
        pass
    return 0


if __name__ == "__main__":
    import sys
    sys.exit(_selftest())
