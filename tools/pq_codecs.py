"""pq_codecs - Parquet page compression through the SYSTEM libraries (independent of carquet's own codecs).

    compress(codec, data) -> bytes          decompress(codec, data, uncompressed_size) -> bytes

codec is the CompressionCodec name or number of parquet.thrift:
    UNCOMPRESSED 0, SNAPPY 1 (libsnappy.so.1 C API, raw block format), GZIP 2 (Python zlib, gzip members,
    RFC 1952; several members are concatenated on decompression), LZ4 5 (deprecated Hadoop framing:
    [u32 BE uncompressed size][u32 BE compressed size][LZ4 block] repeated; on decompression a payload that
    is not framed is tried as a raw block and reported through `lz4_was_raw`), ZSTD 6 (libzstd.so.1, frames),
    LZ4_RAW 7 (liblz4.so.1 block API LZ4_compress_default / LZ4_decompress_safe).
LZO 3 and BROTLI 4 are not available: CodecUnavailable.  Malformed input: CodecError.

Legal-but-unusual framings (property C06: "codecs x legal-but-unusual layouts"): compress(codec, data, variant=name)
with name from VARIANTS[codec] produces another byte stream that the codec's format equally allows for the same
content (see the table at VARIANTS).  `variant_chooser`, when set to a callable (codec number, data) -> name | None,
picks the variant for calls that do not name one (tools/pq.write_file calls compress(codec, body)); every choice is
appended to `variant_log`.
"""
import ctypes, zlib, struct

CODEC_IDS = {"UNCOMPRESSED": 0, "SNAPPY": 1, "GZIP": 2, "LZO": 3, "BROTLI": 4, "LZ4": 5, "ZSTD": 6, "LZ4_RAW": 7}
CODEC_NAMES = {v: k for k, v in CODEC_IDS.items()}


class CodecError(Exception):
    """The compressed payload is not valid for the codec (or does not have the announced size)."""


class CodecUnavailable(Exception):
    """No implementation of this codec on this machine (LZO, BROTLI, unknown ids)."""


_libs = {}


def _lib(name):
    """Load a system shared library once."""
    if name not in _libs:
        _libs[name] = ctypes.CDLL(name)
    return _libs[name]


def codec_id(codec):
    """Name or number -> number."""
    if isinstance(codec, str):
        return CODEC_IDS[codec]
    return int(codec)


# ---- snappy

def snappy_compress(data):
    """Raw snappy block via libsnappy's C API."""
    lib = _lib("libsnappy.so.1")
    lib.snappy_max_compressed_length.restype = ctypes.c_size_t
    lib.snappy_max_compressed_length.argtypes = [ctypes.c_size_t]
    cap = lib.snappy_max_compressed_length(len(data))
    out = ctypes.create_string_buffer(cap)
    n = ctypes.c_size_t(cap)
    lib.snappy_compress.argtypes = [ctypes.c_char_p, ctypes.c_size_t, ctypes.c_char_p, ctypes.POINTER(ctypes.c_size_t)]
    rc = lib.snappy_compress(bytes(data), len(data), out, ctypes.byref(n))
    if rc != 0:
        raise CodecError("snappy_compress rc=%d" % rc)
    return out.raw[:n.value]


def snappy_decompress(data, size_hint=None):
    """Raw snappy block -> bytes (length taken from the block's own preamble)."""
    lib = _lib("libsnappy.so.1")
    data = bytes(data)
    n = ctypes.c_size_t(0)
    lib.snappy_uncompressed_length.argtypes = [ctypes.c_char_p, ctypes.c_size_t, ctypes.POINTER(ctypes.c_size_t)]
    if lib.snappy_uncompressed_length(data, len(data), ctypes.byref(n)) != 0:
        raise CodecError("snappy: bad length preamble")
    if n.value > (1 << 31):
        raise CodecError("snappy: absurd uncompressed length %d" % n.value)
    out = ctypes.create_string_buffer(max(n.value, 1))
    m = ctypes.c_size_t(n.value)
    lib.snappy_uncompress.argtypes = [ctypes.c_char_p, ctypes.c_size_t, ctypes.c_char_p, ctypes.POINTER(ctypes.c_size_t)]
    rc = lib.snappy_uncompress(data, len(data), out, ctypes.byref(m))
    if rc != 0:
        raise CodecError("snappy_uncompress rc=%d" % rc)
    return out.raw[:m.value]


# ---- lz4 block

def lz4_block_compress(data):
    """LZ4 block via LZ4_compress_default."""
    lib = _lib("liblz4.so.1")
    data = bytes(data)
    lib.LZ4_compressBound.restype = ctypes.c_int
    cap = lib.LZ4_compressBound(ctypes.c_int(len(data)))
    out = ctypes.create_string_buffer(max(cap, 1))
    lib.LZ4_compress_default.restype = ctypes.c_int
    lib.LZ4_compress_default.argtypes = [ctypes.c_char_p, ctypes.c_char_p, ctypes.c_int, ctypes.c_int]
    n = lib.LZ4_compress_default(data, out, len(data), cap)
    if n <= 0 and len(data) > 0:
        raise CodecError("LZ4_compress_default failed")
    if len(data) == 0:
        return b"\x00"          # a block holding one empty literal run
    return out.raw[:n]


def lz4_block_decompress(data, size):
    """LZ4 block -> exactly `size` bytes via LZ4_decompress_safe."""
    lib = _lib("liblz4.so.1")
    data = bytes(data)
    out = ctypes.create_string_buffer(max(size, 1))
    lib.LZ4_decompress_safe.restype = ctypes.c_int
    lib.LZ4_decompress_safe.argtypes = [ctypes.c_char_p, ctypes.c_char_p, ctypes.c_int, ctypes.c_int]
    n = lib.LZ4_decompress_safe(data, out, len(data), size)
    if n < 0:
        raise CodecError("LZ4_decompress_safe rc=%d" % n)
    if n != size:
        raise CodecError("lz4: decompressed to %d bytes, expected %d" % (n, size))
    return out.raw[:n]


def lz4_hadoop_compress(data):
    """Hadoop framing used by the deprecated LZ4 codec: one frame [BE usize][BE csize][block]."""
    blk = lz4_block_compress(data)
    return struct.pack(">II", len(data), len(blk)) + blk


lz4_was_raw = [False]     # set by the last decompress("LZ4", ...): payload was a bare block, not Hadoop-framed


def lz4_hadoop_decompress(data, size):
    """Deprecated LZ4 codec: Hadoop frames; falls back to a bare block (what several writers emit),
    recording the fact in lz4_was_raw[0]."""
    data = bytes(data)
    lz4_was_raw[0] = False
    out, pos, ok = [], 0, True
    total = 0
    while pos < len(data):
        if pos + 8 > len(data):
            ok = False
            break
        us, cs = struct.unpack_from(">II", data, pos)
        if pos + 8 + cs > len(data) or total + us > size:
            ok = False
            break
        try:
            out.append(lz4_block_decompress(data[pos + 8:pos + 8 + cs], us))
        except CodecError:
            ok = False
            break
        total += us
        pos += 8 + cs
    if ok and total == size:
        return b"".join(out)
    res = lz4_block_decompress(data, size)
    lz4_was_raw[0] = True
    return res


# ---- zstd

def zstd_compress(data, level=3):
    """One zstd frame via ZSTD_compress."""
    lib = _lib("libzstd.so.1")
    data = bytes(data)
    lib.ZSTD_compressBound.restype = ctypes.c_size_t
    lib.ZSTD_compressBound.argtypes = [ctypes.c_size_t]
    cap = lib.ZSTD_compressBound(len(data))
    out = ctypes.create_string_buffer(max(cap, 1))
    lib.ZSTD_compress.restype = ctypes.c_size_t
    lib.ZSTD_compress.argtypes = [ctypes.c_char_p, ctypes.c_size_t, ctypes.c_char_p, ctypes.c_size_t, ctypes.c_int]
    n = lib.ZSTD_compress(out, cap, data, len(data), level)
    lib.ZSTD_isError.argtypes = [ctypes.c_size_t]
    if lib.ZSTD_isError(n):
        raise CodecError("ZSTD_compress failed")
    return out.raw[:n]


def zstd_decompress(data, size):
    """zstd frame(s) -> exactly `size` bytes via ZSTD_decompress."""
    lib = _lib("libzstd.so.1")
    data = bytes(data)
    out = ctypes.create_string_buffer(max(size, 1))
    lib.ZSTD_decompress.restype = ctypes.c_size_t
    lib.ZSTD_decompress.argtypes = [ctypes.c_char_p, ctypes.c_size_t, ctypes.c_char_p, ctypes.c_size_t]
    n = lib.ZSTD_decompress(out, size, data, len(data))
    lib.ZSTD_isError.argtypes = [ctypes.c_size_t]
    if lib.ZSTD_isError(n):
        raise CodecError("ZSTD_decompress failed")
    if n != size:
        raise CodecError("zstd: decompressed to %d bytes, expected %d" % (n, size))
    return out.raw[:n]


# ---- gzip

def gzip_compress(data, level=6):
    """One gzip member (RFC 1952) with zeroed header fields, via zlib."""
    c = zlib.compressobj(level, zlib.DEFLATED, 31)
    return c.compress(bytes(data)) + c.flush()


def gzip_decompress(data, size=None):
    """Concatenated gzip members -> bytes."""
    data = bytes(data)
    out = []
    while data:
        d = zlib.decompressobj(31)
        try:
            out.append(d.decompress(data))
            out.append(d.flush())
        except zlib.error as e:
            raise CodecError("gzip: %s" % e)
        if not d.eof:
            raise CodecError("gzip: truncated member")
        data = d.unused_data
    res = b"".join(out)
    if size is not None and len(res) != size:
        raise CodecError("gzip: decompressed to %d bytes, expected %d" % (len(res), size))
    return res


# ---- legal-but-unusual framings

ZSTD_c_compressionLevel, ZSTD_c_windowLog, ZSTD_c_contentSizeFlag, ZSTD_c_checksumFlag = 100, 101, 200, 201
ZSTD_e_continue, ZSTD_e_flush, ZSTD_e_end = 0, 1, 2


class _ZInBuf(ctypes.Structure):
    _fields_ = [("src", ctypes.c_void_p), ("size", ctypes.c_size_t), ("pos", ctypes.c_size_t)]


class _ZOutBuf(ctypes.Structure):
    _fields_ = [("dst", ctypes.c_void_p), ("size", ctypes.c_size_t), ("pos", ctypes.c_size_t)]


def _zstd():
    """libzstd with the prototypes of the advanced API."""
    lib = _lib("libzstd.so.1")
    if not getattr(lib, "_pq_ready", False):
        lib.ZSTD_createCCtx.restype = ctypes.c_void_p
        lib.ZSTD_freeCCtx.argtypes = [ctypes.c_void_p]
        lib.ZSTD_CCtx_setParameter.restype = ctypes.c_size_t
        lib.ZSTD_CCtx_setParameter.argtypes = [ctypes.c_void_p, ctypes.c_int, ctypes.c_int]
        lib.ZSTD_compress2.restype = ctypes.c_size_t
        lib.ZSTD_compress2.argtypes = [ctypes.c_void_p, ctypes.c_char_p, ctypes.c_size_t, ctypes.c_char_p, ctypes.c_size_t]
        lib.ZSTD_compressStream2.restype = ctypes.c_size_t
        lib.ZSTD_compressStream2.argtypes = [ctypes.c_void_p, ctypes.POINTER(_ZOutBuf), ctypes.POINTER(_ZInBuf), ctypes.c_int]
        lib.ZSTD_compressBound.restype = ctypes.c_size_t
        lib.ZSTD_compressBound.argtypes = [ctypes.c_size_t]
        lib.ZSTD_isError.argtypes = [ctypes.c_size_t]
        lib.ZSTD_getFrameContentSize.restype = ctypes.c_ulonglong
        lib.ZSTD_getFrameContentSize.argtypes = [ctypes.c_char_p, ctypes.c_size_t]
        lib.ZSTD_minCLevel.restype = ctypes.c_int
        lib._pq_ready = True
    return lib


def zstd_frame_content_size(frame):
    """ZSTD_getFrameContentSize: the declared size, 2^64-1 = unknown (no Frame_Content_Size field), 2^64-2 = error."""
    return _zstd().ZSTD_getFrameContentSize(bytes(frame), len(frame))


def zstd_compress_adv(data, level=3, content_size=True, checksum=False, window_log=None):
    """One frame via ZSTD_compress2 with explicit frame parameters (content_size=False: the frame header carries no
    Frame_Content_Size field, as frames of streaming compressors do)."""
    lib = _zstd()
    data = bytes(data)
    cctx = lib.ZSTD_createCCtx()
    try:
        for prm, val in ((ZSTD_c_compressionLevel, level), (ZSTD_c_contentSizeFlag, 1 if content_size else 0),
                         (ZSTD_c_checksumFlag, 1 if checksum else 0)) + (((ZSTD_c_windowLog, window_log),) if window_log else ()):
            if lib.ZSTD_isError(lib.ZSTD_CCtx_setParameter(cctx, prm, val)):
                raise CodecError("ZSTD_CCtx_setParameter(%d, %d) failed" % (prm, val))
        cap = lib.ZSTD_compressBound(len(data))
        out = ctypes.create_string_buffer(max(cap, 1))
        n = lib.ZSTD_compress2(cctx, out, cap, data, len(data))
        if lib.ZSTD_isError(n):
            raise CodecError("ZSTD_compress2 failed")
        return out.raw[:n]
    finally:
        lib.ZSTD_freeCCtx(cctx)


def zstd_compress_stream(data, level=3, chunk=97, flush_every=0, checksum=False):
    """One frame via ZSTD_compressStream2: the input is fed in `chunk`-byte pieces with ZSTD_e_continue (every
    `flush_every`-th piece with ZSTD_e_flush: block boundaries), then ZSTD_e_end.  No pledged source size: the frame
    header has no Frame_Content_Size (what zstd-jni's ZstdOutputStream / parquet-mr, klauspost/compress, `zstd` on a
    pipe produce)."""
    lib = _zstd()
    data = bytes(data)
    cctx = lib.ZSTD_createCCtx()
    try:
        lib.ZSTD_CCtx_setParameter(cctx, ZSTD_c_compressionLevel, level)
        lib.ZSTD_CCtx_setParameter(cctx, ZSTD_c_checksumFlag, 1 if checksum else 0)
        cap = lib.ZSTD_compressBound(len(data)) + 64 * (len(data) // max(chunk, 1) + 2)
        out = ctypes.create_string_buffer(cap)
        ob = _ZOutBuf(ctypes.cast(out, ctypes.c_void_p), cap, 0)
        src = ctypes.create_string_buffer(data, max(len(data), 1))
        pos, k = 0, 0
        while pos < len(data):
            n = min(chunk, len(data) - pos)
            ib = _ZInBuf(ctypes.cast(src, ctypes.c_void_p).value + pos, n, 0)
            k += 1
            mode = ZSTD_e_flush if flush_every and k % flush_every == 0 else ZSTD_e_continue
            while True:
                r = lib.ZSTD_compressStream2(cctx, ctypes.byref(ob), ctypes.byref(ib), mode)
                if lib.ZSTD_isError(r):
                    raise CodecError("ZSTD_compressStream2 failed")
                if ib.pos == ib.size and (mode == ZSTD_e_continue or r == 0):
                    break
            pos += n
        ib = _ZInBuf(ctypes.cast(src, ctypes.c_void_p).value, 0, 0)
        while True:
            r = lib.ZSTD_compressStream2(cctx, ctypes.byref(ob), ctypes.byref(ib), ZSTD_e_end)
            if lib.ZSTD_isError(r):
                raise CodecError("ZSTD_compressStream2(e_end) failed")
            if r == 0:
                break
        return out.raw[:ob.pos]
    finally:
        lib.ZSTD_freeCCtx(cctx)


def zstd_skippable_frame(payload=b"pq"):
    """A skippable frame (RFC 8878 3.1.2): magic 0x184D2A50..5F, 4-byte size, user data; decoders skip it."""
    return struct.pack("<II", 0x184D2A53, len(payload)) + bytes(payload)


def deflate_raw(data, level=6, strategy=zlib.Z_DEFAULT_STRATEGY, mem_level=8, full_flush_at=None):
    """Raw DEFLATE stream (RFC 1951).  level 0: stored blocks; Z_FIXED: fixed Huffman blocks; full_flush_at: a
    Z_FULL_FLUSH after that many input bytes (several blocks and an empty stored block in between)."""
    c = zlib.compressobj(level, zlib.DEFLATED, -15, mem_level, strategy)
    data = bytes(data)
    if full_flush_at is not None and 0 < full_flush_at < len(data):
        return c.compress(data[:full_flush_at]) + c.flush(zlib.Z_FULL_FLUSH) + c.compress(data[full_flush_at:]) + c.flush()
    return c.compress(data) + c.flush()


def gzip_member(data, level=6, strategy=zlib.Z_DEFAULT_STRATEGY, fname=None, fextra=None, fcomment=None, fhcrc=False,
                ftext=False, mtime=0, xfl=0, os_id=255, full_flush_at=None):
    """One gzip member (RFC 1952) assembled by hand: any of the optional header fields FEXTRA / FNAME / FCOMMENT /
    FHCRC, then a raw DEFLATE stream, CRC32 and ISIZE."""
    data = bytes(data)
    flg = (1 if ftext else 0) | (2 if fhcrc else 0) | (4 if fextra is not None else 0) | (8 if fname is not None else 0) | (16 if fcomment is not None else 0)
    h = bytes([0x1F, 0x8B, 8, flg]) + struct.pack("<I", mtime) + bytes([xfl, os_id])
    if fextra is not None:
        h += struct.pack("<H", len(fextra)) + bytes(fextra)
    if fname is not None:
        h += bytes(fname) + b"\x00"
    if fcomment is not None:
        h += bytes(fcomment) + b"\x00"
    if fhcrc:
        h += struct.pack("<H", zlib.crc32(h) & 0xFFFF)
    return h + deflate_raw(data, level, strategy, 8, full_flush_at) + struct.pack("<II", zlib.crc32(data) & 0xFFFFFFFF, len(data) & 0xFFFFFFFF)


def lz4_block_compress_hc(data, level=9):
    """LZ4 block via LZ4_compress_HC (levels 3..12)."""
    lib = _lib("liblz4.so.1")
    data = bytes(data)
    if len(data) == 0:
        return b"\x00"
    lib.LZ4_compressBound.restype = ctypes.c_int
    cap = lib.LZ4_compressBound(ctypes.c_int(len(data)))
    out = ctypes.create_string_buffer(max(cap, 1))
    lib.LZ4_compress_HC.restype = ctypes.c_int
    lib.LZ4_compress_HC.argtypes = [ctypes.c_char_p, ctypes.c_char_p, ctypes.c_int, ctypes.c_int, ctypes.c_int]
    n = lib.LZ4_compress_HC(data, out, len(data), cap, level)
    if n <= 0:
        raise CodecError("LZ4_compress_HC failed")
    return out.raw[:n]


def lz4_block_compress_fast(data, acceleration=8):
    """LZ4 block via LZ4_compress_fast (fewer, shorter matches: long literal runs)."""
    lib = _lib("liblz4.so.1")
    data = bytes(data)
    if len(data) == 0:
        return b"\x00"
    lib.LZ4_compressBound.restype = ctypes.c_int
    cap = lib.LZ4_compressBound(ctypes.c_int(len(data)))
    out = ctypes.create_string_buffer(max(cap, 1))
    lib.LZ4_compress_fast.restype = ctypes.c_int
    lib.LZ4_compress_fast.argtypes = [ctypes.c_char_p, ctypes.c_char_p, ctypes.c_int, ctypes.c_int, ctypes.c_int]
    n = lib.LZ4_compress_fast(data, out, len(data), cap, acceleration)
    if n <= 0:
        raise CodecError("LZ4_compress_fast failed")
    return out.raw[:n]


def lz4_block_literals(data):
    """An LZ4 block made of one literal run only (token 0xF0 + length extension bytes): legal, what a compressor
    emits for incompressible input."""
    data = bytes(data)
    n = len(data)
    if n < 15:
        return bytes([n << 4]) + data
    ext, rem = b"", n - 15
    while rem >= 255:
        ext += b"\xff"
        rem -= 255
    return b"\xf0" + ext + bytes([rem]) + data


def snappy_literals(data):
    """A raw snappy block made of literal elements only (length preamble + literals of at most 60 / 2^8 / 2^16 bytes
    with 0-, 1- and 2-byte length forms): legal, no copies."""
    data = bytes(data)
    out = bytearray()
    v = len(data)
    while True:
        b = v & 0x7F
        v >>= 7
        out.append(b | (0x80 if v else 0))
        if not v:
            break
    pos, k = 0, 0
    while pos < len(data):
        n = min(len(data) - pos, (60, 256, 65536, 7)[k % 4])
        k += 1
        if n <= 60:
            out.append((n - 1) << 2)
        elif n <= 256:
            out += bytes([60 << 2, n - 1])
        else:
            out += bytes([61 << 2]) + struct.pack("<H", n - 1)
        out += data[pos:pos + n]
        pos += n
    return bytes(out)


def snappy_copies(data, four_byte_offsets=True, long_literal_forms=True):
    """A raw snappy block from a small greedy matcher of our own that uses the element forms libsnappy never emits:
    copies with a 4-byte offset (tag 3; any offset, also small ones), overlapping copies (offset < length: run-length
    style), copy-1 / copy-2 elements when four_byte_offsets is off, and literals whose length is stored in 3 or 4 bytes
    (tags 62, 63) although it would fit a shorter form.  All of it is what the format description allows."""
    data = bytes(data)
    out = bytearray()
    v = len(data)
    while True:
        b = v & 0x7F
        v >>= 7
        out.append(b | (0x80 if v else 0))
        if not v:
            break
    lit_kind = [0]

    def literal(b):
        if not b:
            return
        n = len(b)
        k = lit_kind[0] = (lit_kind[0] + 1) % 4
        if long_literal_forms and k == 1 and n <= 1 << 24:
            out.extend(bytes([62 << 2]) + (n - 1).to_bytes(3, "little"))
        elif long_literal_forms and k == 2:
            out.extend(bytes([63 << 2]) + (n - 1).to_bytes(4, "little"))
        elif n <= 60:
            out.append((n - 1) << 2)
        elif n <= 256:
            out.extend(bytes([60 << 2, n - 1]))
        elif n <= 65536:
            out.extend(bytes([61 << 2]) + (n - 1).to_bytes(2, "little"))
        else:
            out.extend(bytes([62 << 2]) + (n - 1).to_bytes(3, "little"))
        out.extend(b)

    def copy(offset, length):
        while length > 0:
            n = min(length, 64)
            if length - n in (1, 2, 3) and not four_byte_offsets:
                n = length - 4 if length - 4 >= 4 else n      # keep every copy-1 piece >= 4
            if four_byte_offsets:
                out.extend(bytes([((n - 1) << 2) | 3]) + offset.to_bytes(4, "little"))
            elif 4 <= n <= 11 and offset < 2048:
                out.extend(bytes([((n - 4) << 2) | ((offset >> 8) << 5) | 1, offset & 0xFF]))
            else:
                out.extend(bytes([((n - 1) << 2) | 2]) + offset.to_bytes(2, "little"))
            length -= n

    table, pos, start, n = {}, 0, 0, len(data)
    while pos + 4 <= n:
        key = data[pos:pos + 4]
        cand = table.get(key)
        table[key] = pos
        if cand is not None and (four_byte_offsets or pos - cand < 65536):
            m = 4
            while pos + m < n and data[cand + m] == data[pos + m]:      # may run past pos: overlapping copy
                m += 1
            literal(data[start:pos])
            copy(pos - cand, m)
            pos += m
            start = pos
        else:
            pos += 1
    literal(data[start:])
    return bytes(out)


def _split3(data):
    n = len(data)
    return [data[:n // 3], data[n // 3:2 * n // 3], data[2 * n // 3:]]


# name -> (function, legal for a Parquet page?)  "legal" = the codec's format document defines this byte stream as an
# encoding of the content AND a page may hold it.  ZSTD: RFC 8878 - compressed data is one or more frames, the content
# is the concatenation; skippable frames are skipped.  GZIP: RFC 1952 defines a *file* as a series of members, but
# Compression.md names zlib as authoritative and zlib's inflate() stops at the end of the first member: whether a page
# may hold several members is open, so 'members3' is only required not to yield wrong data ("either").
VARIANTS = {
    1: {"libsnappy": (snappy_compress, True),
        "literals_only": (snappy_literals, True),
        "copy4_overlap_long_literals": (lambda d: snappy_copies(d, True, True), True),
        "copy1_copy2_own_matcher": (lambda d: snappy_copies(d, False, False), True)},
    2: {"level6": (lambda d: gzip_member(d, 6), True),
        "stored_blocks": (lambda d: gzip_member(d, 0), True),
        "fixed_huffman": (lambda d: gzip_member(d, 6, zlib.Z_FIXED), True),
        "huffman_only": (lambda d: gzip_member(d, 6, zlib.Z_HUFFMAN_ONLY), True),
        "rle_strategy_level9": (lambda d: gzip_member(d, 9, zlib.Z_RLE), True),
        "level1_full_flush": (lambda d: gzip_member(d, 1, full_flush_at=max(1, len(d) // 2)), True),
        "fname": (lambda d: gzip_member(d, fname=b"page.bin", mtime=1700000000, os_id=3), True),
        "fextra_fcomment": (lambda d: gzip_member(d, fextra=b"AP\x02\x00xy", fcomment=b"a comment", xfl=2), True),
        "all_header_fields": (lambda d: gzip_member(d, fname=b"n", fextra=b"", fcomment=b"", fhcrc=True, ftext=True), True),
        "fhcrc": (lambda d: gzip_member(d, fhcrc=True), True),
        "members3": (lambda d: b"".join(gzip_member(x) for x in _split3(bytes(d))), False)},
    6: {"oneshot_level3": (lambda d: zstd_compress(d, 3), True),
        "no_content_size": (lambda d: zstd_compress_adv(d, 3, content_size=False), True),
        "stream_continue": (lambda d: zstd_compress_stream(d, 3, chunk=61), True),
        "stream_flush_blocks": (lambda d: zstd_compress_stream(d, 1, chunk=40, flush_every=2), True),
        "checksum": (lambda d: zstd_compress_adv(d, 3, checksum=True), True),
        "stream_checksum": (lambda d: zstd_compress_stream(d, 5, chunk=1000, checksum=True), True),
        "level_negative5": (lambda d: zstd_compress_adv(d, -5), True),
        "level1": (lambda d: zstd_compress_adv(d, 1), True),
        "level19": (lambda d: zstd_compress_adv(d, 19), True),
        "window_log10": (lambda d: zstd_compress_adv(d, 3, window_log=10), True),
        "frames3": (lambda d: b"".join(zstd_compress_adv(x, 3, content_size=(i != 1)) for i, x in enumerate(_split3(bytes(d)))), True),
        "skippable_first": (lambda d: zstd_skippable_frame() + zstd_compress(d, 3), True)},
    7: {"default": (lz4_block_compress, True),
        "hc9": (lambda d: lz4_block_compress_hc(d, 9), True),
        "hc12": (lambda d: lz4_block_compress_hc(d, 12), True),
        "hc3": (lambda d: lz4_block_compress_hc(d, 3), True),
        "fast_accel8": (lambda d: lz4_block_compress_fast(d, 8), True),
        "literals_only": (lz4_block_literals, True)},
}

variant_chooser = None      # callable (codec number, data) -> variant name | None
variant_log = []            # (codec number, variant name) of every choice made through variant_chooser


def legal_variants(codec):
    """Names of the framings of `codec` that a Parquet page may certainly hold."""
    return [n for n, (f, legal) in VARIANTS.get(codec_id(codec), {}).items() if legal]


# ---- front

def compress(codec, data, level=None, variant=None):
    """Compress one page body with the codec (name or number); variant: a name of VARIANTS[codec]."""
    c = codec_id(codec)
    if c == 0:
        return bytes(data)
    if variant is None and variant_chooser is not None and level is None:
        variant = variant_chooser(c, data)
        if variant is not None:
            variant_log.append((c, variant))
    if variant is not None:
        return VARIANTS[c][variant][0](bytes(data))
    if c == 1:
        return snappy_compress(data)
    if c == 2:
        return gzip_compress(data, 6 if level is None else level)
    if c == 5:
        return lz4_hadoop_compress(data)
    if c == 6:
        return zstd_compress(data, 3 if level is None else level)
    if c == 7:
        return lz4_block_compress(data)
    raise CodecUnavailable(CODEC_NAMES.get(c, str(c)))


def decompress(codec, data, size):
    """Decompress one page body; the result must be exactly `size` bytes (CodecError otherwise)."""
    c = codec_id(codec)
    if c == 0:
        if len(data) != size:
            raise CodecError("uncompressed page of %d bytes, header says %d" % (len(data), size))
        return bytes(data)
    if c == 1:
        r = snappy_decompress(data)
        if len(r) != size:
            raise CodecError("snappy: decompressed to %d bytes, expected %d" % (len(r), size))
        return r
    if c == 2:
        return gzip_decompress(data, size)
    if c == 5:
        return lz4_hadoop_decompress(data, size)
    if c == 6:
        return zstd_decompress(data, size)
    if c == 7:
        return lz4_block_decompress(data, size)
    raise CodecUnavailable(CODEC_NAMES.get(c, str(c)))


def _selftest():
    """Round trips of every codec over a few inputs."""
    import os
    for data in (b"", b"a", b"abc" * 1000, os.urandom(5000), bytes(70000)):
        for c in ("UNCOMPRESSED", "SNAPPY", "GZIP", "LZ4", "ZSTD", "LZ4_RAW"):
            z = compress(c, data)
            assert decompress(c, z, len(data)) == data, c
    assert decompress("LZ4", lz4_block_compress(b"xyz" * 50), 150) == b"xyz" * 50 and lz4_was_raw[0]
    for data in (b"", b"a", b"abc" * 1000, os.urandom(5000), bytes(70000), os.urandom(300) * 300):
        for c, vs in VARIANTS.items():
            for name in vs:
                z = compress(c, data, variant=name)
                assert decompress(c, z, len(data)) == data, (c, name, len(data))
    assert zstd_frame_content_size(compress("ZSTD", b"x" * 100, variant="no_content_size")) == 2 ** 64 - 1
    assert zstd_frame_content_size(compress("ZSTD", b"x" * 100, variant="stream_continue")) == 2 ** 64 - 1
    assert zstd_frame_content_size(compress("ZSTD", b"x" * 100, variant="oneshot_level3")) == 100
    try:
        decompress("SNAPPY", b"\x05\x00a\x01", 5)
        raise AssertionError("bad snappy accepted")
    except CodecError:
        pass
    return 0


if __name__ == "__main__":
    import sys
    sys.exit(_selftest())
