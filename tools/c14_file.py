"""Shim: checks/C14.py does `import c14_file` with only tools/ on sys.path; the implementation lives in
checks/c14_file.py (file-level half of property C14)."""
import importlib.util
from pathlib import Path

_p = Path(__file__).resolve().parent.parent / "checks" / "c14_file.py"
_spec = importlib.util.spec_from_file_location("c14_file_impl", _p)
_m = importlib.util.module_from_spec(_spec)
_spec.loader.exec_module(_m)
check_files = _m.check_files
replay_file = _m.replay_file
