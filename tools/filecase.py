#!/usr/bin/env python3
"""filecase - the Python face of harness/h_file.c (carquet's public writer/reader API under ASan+UBSan).

What is here
------------
* Data model:  Column / Schema / Options / WriteOp / SinkSpec / Case   (all JSON-serialisable:
  case_to_json / case_from_json; values are raw little-endian bit patterns as `bytes`).
* Running the driver:  Script (a builder of driver command lines for ONE isolated case) and
  run_scripts(scripts) -> [CaseOut]  (many cases per driver process, sharded over the CPUs; a crash,
  sanitizer report, leak or hang in one case shows up as CaseOut.fault of exactly that case).
* Convenience calls (each runs one case):  write_case, dump, column_history, batch_read,
  and their batch forms write_cases / dump_many for throughput.
* Oracle:  expected_table(case) = the logical table a correct library must return for a write history.
* Generators (one random.Random drives everything):  gen_table, gen_write_history, enum_write_histories,
  gen_case;  knobs `avoid={...}` steer around the triggers of known defects (default: avoid nothing).

A *value* is `bytes`: BOOLEAN 1 byte (00/01), INT32/FLOAT 4 bytes LE, INT64/DOUBLE 8 bytes LE,
FIXED_LEN_BYTE_ARRAY type_length bytes, BYTE_ARRAY any length.  A *row* is a value or None (null).
A *table* (as returned by expected_table and Dump.table()) is
    [ row_group, ... ]   row_group = [ column, ... ]   column = [ row, ... ]

Dense convention of the C API (both directions): the values array holds only the non-null values;
definition levels (one per row) say which rows are null.

    python3 tools/filecase.py --selftest
"""
import os, sys, json, random, struct, atexit, shutil, itertools, subprocess, threading
from dataclasses import dataclass, field, asdict
from pathlib import Path
from typing import List, Optional, Sequence, Union
from concurrent.futures import ThreadPoolExecutor

sys.path.insert(0, str(Path(__file__).resolve().parent))
import vlib

TYPES = ["BOOLEAN", "INT32", "INT64", "FLOAT", "DOUBLE", "BYTE_ARRAY", "FIXED_LEN_BYTE_ARRAY"]
WIDTH = {"BOOLEAN": 1, "INT32": 4, "INT64": 8, "INT96": 12, "FLOAT": 4, "DOUBLE": 8}
CODECS = ["UNCOMPRESSED", "SNAPPY", "GZIP", "LZ4", "ZSTD"]          # the codecs named by property C01
ALL_CODECS = CODECS + ["LZ4_RAW"]
MODES = ["stdio", "mmap", "buffer"]           # the three I/O paths of property C03 ("fileptr" = open_file also exists)

# knobs understood by the generators (see gen_write_history)
AVOIDABLE = {
    "F1": "no run of >= 8 equal definition levels next to other levels inside one write_batch call",
    "F2": "at most one write_batch call per page (page_size <= 64 or one batch per column and row group; no zero-row calls)",
    "F3": "OPTIONAL columns are always written with definition levels",
    "F5": "OPTIONAL columns get one page per chunk (one batch per column and row group, page cut only at its end); read with one call",
    "EMPTY_RG": "no write_batch call with zero rows and no row group without rows",
    "FA2": "BYTE_ARRAY columns get one page per chunk (a read_batch call crossing a page boundary hands out dangling pointers)",
    "BOOLNULL": "no write_batch call on a BOOLEAN column whose rows are all null (FA1: it returns OUT_OF_MEMORY)",
}


# ----------------------------------------------------------------------------- data model

@dataclass
class Column:
    """One leaf column of a flat schema."""
    name: str
    ptype: str                    # one of TYPES
    rep: str = "REQUIRED"         # REQUIRED | OPTIONAL   (REPEATED is accepted by the driver, not generated)
    type_length: int = 0          # FIXED_LEN_BYTE_ARRAY only
    logical: Optional[str] = None  # LogicalType annotation passed to carquet_schema_add_column, e.g. "DECIMAL:18:0"
                                   # (precision:scale), "INT:8:0" (bits:signed), "TIME:0:MILLIS" / "TIMESTAMP:1:NANOS"
                                   # (isAdjustedToUTC:unit), "STRING", "DATE", "ENUM", "JSON", "BSON", "UUID", "FLOAT16"

    def width(self):
        """Bytes per value for fixed-width types, None for BYTE_ARRAY."""
        if self.ptype == "FIXED_LEN_BYTE_ARRAY":
            return self.type_length
        return WIDTH.get(self.ptype)


@dataclass
class Schema:
    """Flat schema: a list of leaf columns under the root."""
    columns: List[Column]


@dataclass
class Options:
    """Mirror of carquet_writer_options_t (defaults = carquet_writer_options_init)."""
    codec: str = "UNCOMPRESSED"
    level: int = 0
    page_size: int = 1 << 20
    row_group_size: int = 128 << 20
    stats: bool = True
    page_index: bool = False
    bloom: bool = False
    dict_enc: str = "PLAIN_DICTIONARY"
    dict_page_size: int = 1 << 20
    created_by: Optional[str] = "Carquet"
    null_options: bool = False     # pass options = NULL to carquet_writer_create

    def line(self):
        """The driver's OPT line for these options."""
        cb = "-" if self.created_by is None else self.created_by.encode().hex() or "-"
        s = (f"OPT codec={self.codec} level={self.level} page_size={self.page_size} "
             f"row_group_size={self.row_group_size} stats={int(self.stats)} page_index={int(self.page_index)} "
             f"bloom={int(self.bloom)} dict_enc={self.dict_enc} dict_page_size={self.dict_page_size} created_by={cb}")
        return s + (" NULL" if self.null_options else "")


@dataclass
class WriteOp:
    """One call of the write history.
    kind = 'batch': carquet_writer_write_batch(col, dense values of `rows`, len(rows), def levels, NULL)
           'new_row_group' | 'close' | 'abort'.
    rows: logical rows of this batch (None = null).  nodefs=True passes def_levels = NULL (the rows must
    then all be present); for REQUIRED columns def_levels is NULL anyway unless force_defs=True."""
    kind: str
    col: int = 0
    rows: List[Optional[bytes]] = field(default_factory=list)
    nodefs: bool = False
    force_defs: bool = False


@dataclass
class SinkSpec:
    """Write through carquet_writer_create_file to a fopencookie stream with a failure plan (C18).
    fail_byte: the sink accepts this many bytes in total, then fails; fail_op: index (1-based) of the first
    failing write operation of the stream; sticky: every later write fails too; fail_close: the stream's
    close hook fails; buf: None = stdio default buffering, 0 = unbuffered, n = n-byte full buffering."""
    fail_byte: int = -1
    fail_op: int = 0
    sticky: bool = True
    fail_close: bool = False
    buf: Optional[int] = None
    log: bool = True

    def tokens(self):
        """Driver tokens after 'WOPEN sink'."""
        t = [f"fail_byte={self.fail_byte}", f"fail_op={self.fail_op}", f"sticky={int(self.sticky)}",
             f"fail_close={int(self.fail_close)}", f"log={int(self.log)}"]
        if self.buf is not None:
            t.append("buf=none" if self.buf == 0 else f"buf={self.buf}")
        return " ".join(t)


@dataclass
class Case:
    """A complete write scenario: schema, options and the history of calls."""
    schema: Schema
    options: Options
    ops: List[WriteOp]
    name: str = ""
    sink: Optional[SinkSpec] = None


def _enc(o):
    """json.dumps default hook: bytes -> {'hex': ...}."""
    if isinstance(o, bytes):
        return {"hex": o.hex()}
    raise TypeError(type(o))


def case_to_json(case):
    """Case -> plain JSON-able dict (bytes as hex strings, None stays null)."""
    d = asdict(case)
    for op in d["ops"]:
        op["rows"] = [None if r is None else r.hex() for r in op["rows"]]
    return d


def case_from_json(d):
    """Inverse of case_to_json."""
    sch = Schema([Column(**c) for c in d["schema"]["columns"]])
    ops = [WriteOp(kind=o["kind"], col=o.get("col", 0),
                   rows=[None if r is None else bytes.fromhex(r) for r in o.get("rows", [])],
                   nodefs=o.get("nodefs", False), force_defs=o.get("force_defs", False)) for o in d["ops"]]
    sink = SinkSpec(**d["sink"]) if d.get("sink") else None
    return Case(schema=sch, options=Options(**d["options"]), ops=ops, name=d.get("name", ""), sink=sink)


# ----------------------------------------------------------------------------- oracle

def expected_table(case, keep_empty=False):
    """The logical table a correct library must return for the write history of `case`:
    list of row groups (in file order), each a list of columns, each a list of rows (bytes | None).
    Rows written between two new_row_group calls form one row group; a row group without rows does not
    exist (keep_empty=True keeps it).  An OPTIONAL column written without definition levels is
    all-present.  Returns None when the history is not a well-formed table (columns of one row group
    with different row counts, history ends with abort or without close)."""
    ncol = len(case.schema.columns)
    groups, cur, touched, closed = [], [[] for _ in range(ncol)], False, False
    for op in case.ops:
        if closed:
            break
        if op.kind == "batch":
            if not (0 <= op.col < ncol):
                return None
            cur[op.col].extend(op.rows)
            touched = True
        elif op.kind in ("new_row_group", "close"):
            if touched:
                n = {len(c) for c in cur}
                if len(n) != 1:
                    return None
                if keep_empty or n != {0}:
                    groups.append(cur)
            cur, touched = [[] for _ in range(ncol)], False
            if op.kind == "close":
                closed = True
        elif op.kind == "abort":
            return None
    return groups if closed else None


def table_rows(table):
    """Total number of rows of a table in the expected_table representation."""
    return sum(len(g[0]) if g else 0 for g in table)


# ----------------------------------------------------------------------------- driver plumbing

_DRV = {}
_TMP = None
_TMP_LOCK = threading.Lock()
_COUNTER = itertools.count()


def driver(name="h_file"):
    """Path of the built driver (harness/<name>.c against the ASan+UBSan build of vlib.REPO's working tree).
    name='h_file_alloc' is the same driver with the library's malloc/calloc/realloc wrapped at link time
    (commands ALLOC_FAIL / ALLOC_COUNT, see harness/h_file_alloc.c); pass it as run_scripts(..., drv=...)."""
    if name not in _DRV:
        extra = []
        if name == "h_file_alloc":
            import hashlib
            # h_file_alloc.c #includes h_file.c: make the build stamp depend on it
            h = hashlib.sha1((vlib.VERIF / "harness" / "h_file.c").read_bytes()).hexdigest()[:12]
            extra = ["-Wl,--wrap=malloc", "-Wl,--wrap=calloc", "-Wl,--wrap=realloc", f"-DHFILE_SRC_HASH=0x{h}"]
        _DRV[name] = vlib.build_driver(name, extra=extra)
    return _DRV[name]


def tmpdir():
    """A private scratch directory under /verif/build/tmp (removed at interpreter exit)."""
    global _TMP
    with _TMP_LOCK:
        if _TMP is None:
            _TMP = vlib.VERIF / "build" / "tmp" / f"fc_{os.getpid()}"
            _TMP.mkdir(parents=True, exist_ok=True)
            atexit.register(lambda: shutil.rmtree(_TMP, ignore_errors=True))
    return _TMP


def tmppath(suffix=".parquet"):
    """A fresh file name inside tmpdir()."""
    return str(tmpdir() / f"f{next(_COUNTER)}{suffix}")


def _vals_token(col, values):
    """The driver's values token for a list of raw values of column `col`."""
    if not values:
        return "-"
    if col.ptype == "BYTE_ARRAY":
        return ",".join("x" + v.hex() for v in values)
    return "".join(v.hex() for v in values)


class Script:
    """Builder for the command lines of ONE driver case (executed in a forked child of the driver).
    Methods append lines and return self; `lines` may also be extended by hand with any command of
    harness/h_file.md."""

    def __init__(self, tag=""):
        """tag: free text copied into the CaseOut."""
        self.tag = tag
        self.lines = []

    def raw(self, *lines):
        """Append literal driver lines."""
        self.lines.extend(lines)
        return self

    def write(self, case, path=None):
        """Append the whole write history of `case` (to `path`, or to case.sink)."""
        for c in case.schema.columns:
            self.lines.append(f"COL {c.name.encode().hex() or '-'} {c.ptype} {c.rep} {c.type_length}"
                              + (f" logical={c.logical}" if c.logical else ""))
        self.lines.append(case.options.line())
        if case.sink is not None:
            self.lines.append("WOPEN sink " + case.sink.tokens())
        else:
            self.lines.append(f"WOPEN path {path}")
        for op in case.ops:
            if op.kind == "batch":
                col = case.schema.columns[op.col] if 0 <= op.col < len(case.schema.columns) else Column("?", "INT32")
                vals = [r for r in op.rows if r is not None]
                if op.nodefs:
                    defs = "-"
                elif col.rep == "OPTIONAL" or op.force_defs:
                    defs = "".join("0" if r is None else "1" for r in op.rows) or "E"
                else:
                    defs = "-"
                self.lines.append(f"W {op.col} {len(op.rows)} {defs} - {len(vals)} {_vals_token(col, vals)}")
            elif op.kind == "new_row_group":
                self.lines.append("NEWRG")
            elif op.kind == "close":
                self.lines.append("CLOSE")
            elif op.kind == "abort":
                self.lines.append("ABORT")
            else:
                raise ValueError(op.kind)
        return self

    def load_image(self, src):
        """Make `src` (a path or bytes) the driver's file image (needed for buffer mode / damage commands)."""
        if isinstance(src, (bytes, bytearray)):
            self.lines.append("IMG_HEX " + (bytes(src).hex() or "-"))
        else:
            self.lines.append(f"IMG_LOAD {src}")
        return self

    def open(self, mode, verify=True, path=None, threads=1):
        """ROPEN in one of MODES.  Path modes need `path`; buffer mode reads the current image."""
        if mode == "buffer":
            self.lines.append(f"ROPEN buffer {int(verify)} threads={threads}")
        else:
            self.lines.append(f"ROPEN {mode} {int(verify)} {path} threads={threads}")
        return self

    def meta(self):
        """Metadata dump."""
        self.lines.append("META")
        return self

    def dump(self, batch=1 << 20, rg=None, col=None, maxdef=None):
        """Canonical table dump through column readers with read_batch(batch)."""
        s = f"DUMP {batch}"
        if rg is not None:
            s += f" rg={rg}"
        if col is not None:
            s += f" col={col}"
        if maxdef is not None:
            s += " maxdef=" + ",".join(str(int(d)) for d in maxdef)
        self.lines.append(s)
        return self

    def close(self):
        """Close the reader (column readers and batch reader first)."""
        self.lines.append("RCLOSE")
        return self

    def text(self, cid):
        """The case as driver input."""
        return "CASE %s\n%s\nEND\n" % (cid, "\n".join(self.lines))


@dataclass
class CaseOut:
    """What one driver case produced."""
    lines: List[str]
    fault: Optional[dict] = None      # {'exit': int, 'signal': int, 'summary': str} when the child died
    stderr: str = ""
    tag: str = ""

    def find(self, prefix):
        """All output lines starting with `prefix`."""
        return [l for l in self.lines if l.startswith(prefix)]


ASAN_ENV = {"ASAN_OPTIONS": "detect_leaks=1:abort_on_error=0:exitcode=99:allocator_may_return_null=1:detect_stack_use_after_return=0",
            "UBSAN_OPTIONS": "print_stacktrace=1:halt_on_error=1:exitcode=98",
            "OMP_NUM_THREADS": "4"}


def _run_chunk(drv, scripts, base, timeout, case_timeout, env):
    """Run a list of scripts as cases base, base+1, ... of ONE driver process and split its output per case."""
    text = f"TIMEOUT {case_timeout}\n" + "".join(s.text(base + i) for i, s in enumerate(scripts))
    e = dict(os.environ)
    e.update(ASAN_ENV)
    if env:
        e.update(env)
    try:
        p = subprocess.run([str(drv)], input=text.encode(), capture_output=True, timeout=timeout, env=e)
        out, err, rc = p.stdout.decode("latin-1"), p.stderr.decode("latin-1"), p.returncode
    except subprocess.TimeoutExpired as ex:
        out = (ex.stdout or b"").decode("latin-1")
        err, rc = "driver timeout", -9
    res = {}
    cur, cid = None, None
    for line in out.split("\n"):
        if line.startswith("BEGIN "):
            cid = int(line[6:])
            cur = CaseOut(lines=[])
            res[cid] = cur
        elif cur is not None and line.startswith("DONE ") and line[5:].strip() == str(cid):
            cur = None
        elif cur is not None and line.startswith("FAULT ") and line.split()[1] == str(cid):
            kv = dict(t.split("=", 1) for t in line.split()[2:] if "=" in t)
            cur.fault = {"exit": int(kv.get("exit", -1)), "signal": int(kv.get("signal", 0)),
                         "summary": kv.get("summary", "-")}
            cur = None
        elif cur is not None and line != "":
            cur.lines.append(line)
    # per-case stderr
    marks = err.split("---- stderr of case ")
    for m in marks[1:]:
        head, _, body = m.partition(" ----\n")
        try:
            res[int(head)].stderr = body
        except (ValueError, KeyError):
            pass
    outs = []
    for i, s in enumerate(scripts):
        o = res.get(base + i)
        if o is None:
            o = CaseOut(lines=[], fault={"exit": rc, "signal": 0, "summary": "driver-died-before-case: " + err[-300:]})
        elif o.fault is None and cur is o:
            o.fault = {"exit": rc, "signal": 0, "summary": "driver-died-during-case: " + err[-300:]}
        o.tag = s.tag
        outs.append(o)
    return outs


def run_scripts(scripts, shards=None, timeout=1800, case_timeout=60, drv=None, env=None):
    """Run every Script as its own isolated case; returns one CaseOut per script, in order.
    The scripts are spread over `shards` driver processes (default: number of CPUs)."""
    scripts = list(scripts)
    if not scripts:
        return []
    drv = drv or driver()
    shards = max(1, min(shards or vlib.NCPU, len(scripts)))
    size = (len(scripts) + shards - 1) // shards
    chunks = [(i, scripts[i:i + size]) for i in range(0, len(scripts), size)]
    if len(chunks) == 1:
        return _run_chunk(drv, chunks[0][1], 0, timeout, case_timeout, env)
    outs = []
    with ThreadPoolExecutor(len(chunks)) as ex:
        for r in ex.map(lambda c: _run_chunk(drv, c[1], c[0], timeout, case_timeout, env), chunks):
            outs.extend(r)
    return outs


# ----------------------------------------------------------------------------- parsing

class Bad:
    """A value the driver could not show: 'ptr' (unmapped pointer), 'len' (absurd length), 'missing'
    (fewer values delivered than non-null rows).  Compares unequal to every real value."""

    def __init__(self, why):
        """why: 'ptr' | 'len' | 'missing' | 'garbled' | 'unset'."""
        self.why = why

    def __repr__(self):
        """Bad(why)."""
        return f"Bad({self.why})"

    def __eq__(self, other):
        """Never equal to anything (not even to another Bad)."""
        return False

    def __hash__(self):
        """Hash by reason."""
        return hash(("Bad", self.why))


def _levels(tok):
    """Level token of the driver ('0110', 'L1,0,12', '-', 'N') -> list of ints."""
    if tok in ("-", "N"):
        return []
    if tok.startswith("L"):
        return [int(x) for x in tok[1:].split(",")]
    return [ord(c) - 48 for c in tok]


def _values(tok, ptype, tlen, n):
    """Values token of the driver -> list of raw values (Bad(...) for items the driver refused to print)."""
    if tok == "-" or n <= 0:
        return []
    if ptype == "BYTE_ARRAY":
        out = []
        for it in tok.split(","):
            try:
                out.append(bytes.fromhex(it[1:]) if it.startswith("x") else Bad(it[1:]))
            except ValueError:
                out.append(Bad("garbled"))
        return out
    w = tlen if ptype == "FIXED_LEN_BYTE_ARRAY" else WIDTH.get(ptype, 0)
    try:
        b = bytes.fromhex(tok)
    except ValueError:
        return [Bad("garbled")]
    if w <= 0:
        return []
    return [b[i * w:(i + 1) * w] for i in range(len(b) // w)]


def _kv(line):
    """'a=1 b=2' tokens of a line -> dict."""
    return dict(t.split("=", 1) for t in line.split(" ") if "=" in t)


def assemble(defs, values, maxdef):
    """Flat record assembly under the dense convention: rows[i] = next value if defs[i] == maxdef else None."""
    rows, k = [], 0
    for d in defs:
        if d == maxdef:
            rows.append(values[k] if k < len(values) else Bad("missing"))
            k += 1
        else:
            rows.append(None)
    return rows


@dataclass
class ColumnMeta:
    """Schema of one leaf column as reported by the reader (public accessors)."""
    name: str
    ptype: str
    rep: str
    type_length: int
    max_def: int
    max_rep: int


@dataclass
class ReadPart:
    """One carquet_column_read_batch call: return value, levels and dense values delivered."""
    ret: int
    defs: List[int]
    reps: List[int]
    values: list


@dataclass
class ChunkDump:
    """One column chunk read to its end."""
    rg: int
    col: int
    parts: List[ReadPart]
    end: str = "?"                 # OK | ERR | OVERRUN | OPENERR | CUT (output line cut by the death of the case)
    rows_reported: int = 0
    max_def: int = 0

    @property
    def defs(self):
        """Definition levels of all parts, concatenated."""
        return [d for p in self.parts for d in p.defs]

    @property
    def reps(self):
        """Repetition levels of all parts, concatenated."""
        return [d for p in self.parts for d in p.reps]

    @property
    def values(self):
        """Dense values of all parts, concatenated."""
        return [v for p in self.parts for v in p.values]

    def rows(self):
        """Logical rows: each read call assembled separately (the dense convention is per call)."""
        out = []
        for p in self.parts:
            out.extend(assemble(p.defs, p.values, self.max_def))
        return out


@dataclass
class Dump:
    """Parsed result of open + META + DUMP."""
    opened: bool = False
    error: Optional[tuple] = None          # (code, NAME) of a failed open
    num_rows: int = -1
    num_row_groups: int = -1
    num_columns: int = -1
    is_mmap: int = -1
    schema: List[ColumnMeta] = field(default_factory=list)
    elements: List[dict] = field(default_factory=list)
    rg_rows: List[int] = field(default_factory=list)
    rg_meta: List[dict] = field(default_factory=list)
    chunks: List[ChunkDump] = field(default_factory=list)
    fault: Optional[dict] = None
    raw: List[str] = field(default_factory=list)

    def table(self, drop_empty=False):
        """[row group][column] -> rows, from the chunks dumped (expected_table's representation)."""
        t = []
        by_rg = {}
        for c in self.chunks:                       # (one pass: files with 10^5 row groups)
            by_rg.setdefault(c.rg, []).append(c)
        for r in range(max(self.num_row_groups, 0)):
            cols = [c.rows() for c in by_rg.get(r, [])]
            if drop_empty and cols and all(len(c) == 0 for c in cols):
                continue
            t.append(cols)
        return t

    def read_errors(self):
        """Chunks whose reading ended with an error."""
        return [(c.rg, c.col, c.end) for c in self.chunks if c.end != "OK"]

    def meta_key(self):
        """Everything the metadata dump says, as a comparable value (C03: identical across modes,
        is_mmap excluded)."""
        return (self.opened, self.error, self.num_rows, self.num_row_groups, self.num_columns,
                tuple((c.name, c.ptype, c.rep, c.type_length, c.max_def, c.max_rep) for c in self.schema),
                tuple(self.rg_rows))


def parse_err(line):
    """'<what> ERR <code> <NAME> ...' -> (code, NAME); None when the line reports OK."""
    t = line.split()
    if "ERR" in t:
        i = t.index("ERR")
        try:
            return (int(t[i + 1]), t[i + 2])
        except (IndexError, ValueError):
            return (-1, "?")
    return None


def parse_dump(out, maxdef=None):
    """CaseOut (or list of lines) of a script containing ROPEN [META] [DUMP] -> Dump."""
    lines = out.lines if isinstance(out, CaseOut) else out
    d = Dump(raw=list(lines))
    if isinstance(out, CaseOut):
        d.fault = out.fault
    cur = None
    for ln in lines:
        if ln.startswith("open "):
            e = parse_err(ln)
            d.opened, d.error = (e is None and ln.strip() == "open OK"), e
        elif ln.startswith("meta rows="):
            kv = _kv(ln)
            d.num_rows, d.num_row_groups, d.num_columns = int(kv["rows"]), int(kv["rgs"]), int(kv["cols"])
            d.is_mmap = int(kv["is_mmap"])
        elif ln.startswith("elem "):
            kv = _kv(ln)
            name = bytes.fromhex(kv.get("name", "").replace("-", "")).decode("utf-8", "replace")
            if "leaf" in kv:
                d.schema.append(ColumnMeta(name, kv["type"], kv["rep"], int(kv["tlen"]), int(kv["maxdef"]), int(kv["maxrep"])))
                d.elements.append({"name": name, "leaf": True, "type": kv["type"], "rep": kv["rep"]})
            else:
                d.elements.append({"name": name, "leaf": False, "rep": kv.get("rep")})
        elif ln.startswith("rg "):
            kv = _kv(ln)
            if "rows" in kv:
                d.rg_rows.append(int(kv["rows"]))
                d.rg_meta.append({"rows": int(kv["rows"]), "bytes": int(kv["bytes"]), "comp": int(kv["comp"]), "zc": kv.get("zc", "")})
            else:
                d.rg_rows.append(-1)
                d.rg_meta.append({"error": parse_err(ln)})
        elif ln.startswith("chunk rg="):
            kv = _kv(ln)
            c = int(kv["col"])
            md = d.schema[c].max_def if c < len(d.schema) else 0
            if maxdef is not None and c < len(maxdef):
                md = maxdef[c]
            cur = ChunkDump(rg=int(kv["rg"]), col=c, parts=[], max_def=md)
            d.chunks.append(cur)
        elif ln.startswith("cr_open ") and cur is not None and "ERR" in ln:
            cur.end = "OPENERR"
        elif ln.startswith("part ") and cur is not None:
            kv = _kv(ln)
            c = cur.col
            pt = d.schema[c].ptype if c < len(d.schema) else "INT32"
            tl = d.schema[c].type_length if c < len(d.schema) else 0
            try:
                n = int(kv["nvals"])
                cur.parts.append(ReadPart(int(kv["ret"]), _levels(kv["defs"]), _levels(kv["reps"]), _values(kv["vals"], pt, tl, n)))
            except (KeyError, ValueError):
                cur.end = "CUT"       # the child died while printing this line (d.fault says why)
        elif ln.startswith("chunk_end ") and cur is not None:
            kv = _kv(ln)
            try:
                cur.end, cur.rows_reported = kv["end"], int(kv["rows"])
            except (KeyError, ValueError):
                cur.end = "CUT"
    return d


class Statuses(list):
    """List of status strings of a write history, one per API call, e.g. ['create OK', 'write_batch OK',
    ..., 'close OK'] or 'close ERR 13 FILE_WRITE'.  Extra attributes: fault (dict | None), exists (bool),
    size (int), sink (dict with at_close / final accepted byte counts, when a SinkSpec was used),
    sink_ops (list of (kind, n, ret)), fclose (int | None), lines (raw output)."""

    def all_ok(self):
        """True when every API call of the history returned OK (and the case did not die)."""
        return self.fault is None and all(s.endswith(" OK") or s == "abort done" for s in self)

    def close_ok(self):
        """True when the history contains a close that returned OK."""
        return self.fault is None and "close OK" in self


def parse_write(out):
    """CaseOut of a script with a write history -> Statuses."""
    st = Statuses()
    st.fault, st.exists, st.size, st.sink, st.sink_ops, st.fclose, st.lines = out.fault, False, 0, {}, [], None, out.lines
    for ln in out.lines:
        w = ln.split(" ", 1)[0]
        if w in ("create", "write_batch", "new_row_group", "close", "schema_create", "schema_add_column"):
            st.append(ln.split(" msglen=")[0])
        elif w == "abort":
            st.append(ln)
        elif w == "file":
            kv = _kv(ln)
            st.exists, st.size = kv["exists"] == "1", int(kv["size"])
        elif w == "sink":
            t = ln.split()
            kv = _kv(ln)
            if t[1] in ("write", "close"):
                st.sink_ops.append((t[1], int(kv.get("n", 0)), int(kv["ret"])))
            else:
                st.sink[t[1]] = {"accepted": int(kv["accepted"]), "writes": int(kv["writes"]), "failed": int(kv["failed"])}
        elif w == "fclose":
            st.fclose = int(_kv(ln)["ret"])
    return st


# ----------------------------------------------------------------------------- convenience calls

def write_cases(cases_paths, **kw):
    """[(case, path)] -> [Statuses]; one isolated driver case each (path is ignored when case.sink is set)."""
    outs = run_scripts([Script(c.name).write(c, p) for c, p in cases_paths], **kw)
    return [parse_write(o) for o in outs]


def write_case(case, path, **kw):
    """Run the write history of `case` against `path` (or case.sink); returns Statuses (a list of the
    status of every API call, in order)."""
    return write_cases([(case, path)], shards=1, **kw)[0]


def determinism(case, **kw):
    """Write the same case twice (two fresh paths); returns (identical, detail): detail is None or a short
    description (different statuses / sizes / first differing byte offset).  C05: same table + same options
    must give byte-identical files."""
    p1, p2 = tmppath(), tmppath()
    s1, s2 = write_cases([(case, p1), (case, p2)], **kw)
    if list(s1) != list(s2):
        return False, f"statuses differ: {list(s1)} / {list(s2)}"
    if not s1.exists or not s2.exists:
        return (s1.exists == s2.exists), None if s1.exists == s2.exists else "only one file exists"
    a, b = Path(p1).read_bytes(), Path(p2).read_bytes()
    for p in (p1, p2):
        os.unlink(p)
    if a == b:
        return True, None
    if len(a) != len(b):
        return False, f"sizes {len(a)} / {len(b)}"
    k = next(i for i in range(len(a)) if a[i] != b[i])
    return False, f"first difference at byte {k}"


def _read_script(src, mode, verify, threads=1, tag=""):
    """Script that opens `src` (path or bytes) in `mode`; returns (script, temp path to delete or None)."""
    s = Script(tag)
    tmp = None
    if mode == "buffer":
        s.load_image(src)
        s.open("buffer", verify, threads=threads)
    else:
        if isinstance(src, (bytes, bytearray)):
            tmp = tmppath()
            Path(tmp).write_bytes(bytes(src))
            s.open(mode, verify, tmp, threads=threads)
        else:
            s.open(mode, verify, str(src), threads=threads)
    return s, tmp


def dump_many(requests, **kw):
    """requests: [(src, mode, verify, batch)] or [(src, mode, verify, batch, maxdef)] -> [Dump].
    src is a path or the file's bytes."""
    scripts, tmps, mds = [], [], []
    for r in requests:
        src, mode, verify, batch = r[:4]
        md = r[4] if len(r) > 4 else None
        s, tmp = _read_script(src, mode, verify)
        s.meta().dump(batch, maxdef=md).close()
        scripts.append(s)
        tmps.append(tmp)
        mds.append(md)
    outs = run_scripts(scripts, **kw)
    for t in tmps:
        if t:
            try:
                os.unlink(t)
            except OSError:
                pass
    return [parse_dump(o, md) for o, md in zip(outs, mds)]


def dump(src, mode="stdio", verify=True, batch=1 << 20, maxdef=None, **kw):
    """Open `src` (path or bytes) in `mode` ('stdio' | 'mmap' | 'buffer'), dump metadata and every column of
    every row group through the column reader using read_batch(batch).  Returns a Dump."""
    return dump_many([(src, mode, verify, batch, maxdef)], shards=1, **kw)[0]


def column_history(src, mode, verify, rg, col, ops, maxdef=None, **kw):
    """Run a call history on column readers of (rg, col).  ops: list of
        ('read', k) | ('read', k, 'nodef'|'norep'|'raw', ...) | ('skip', k) | ('has_next',) | ('remaining',) |
        ('reopen',)            (free the column reader and create it again).
    Returns a list with one entry per op:
        read   -> ReadPart          skip -> int          has_next -> bool        remaining -> int
        reopen -> 'OK' | (code, NAME)
    plus a final element {'open': 'OK'|(code,NAME), 'fault': dict|None}."""
    s, tmp = _read_script(src, mode, verify)
    md = f" maxdef={maxdef}" if maxdef is not None else ""
    s.raw(f"CR_OPEN 0 {rg} {col}{md}")
    for op in ops:
        if op[0] == "read":
            s.raw(f"CR_READ 0 {op[1]} " + " ".join(op[2:]))
        elif op[0] == "skip":
            s.raw(f"CR_SKIP 0 {op[1]}")
        elif op[0] == "has_next":
            s.raw("CR_HASNEXT 0")
        elif op[0] == "remaining":
            s.raw("CR_REMAINING 0")
        elif op[0] == "reopen":
            s.raw("CR_FREE 0", f"CR_OPEN 0 {rg} {col}{md}")
        else:
            raise ValueError(op)
    s.meta().close()
    out = run_scripts([s], shards=1, **kw)[0]
    if tmp:
        os.unlink(tmp)
    return parse_history(out, col, len(ops))


def parse_history(out, col, nops=None):
    """CaseOut of a CR_* history on slot 0 -> list as described in column_history."""
    meta = parse_dump(out)
    pt = meta.schema[col].ptype if col < len(meta.schema) else "INT32"
    tl = meta.schema[col].type_length if col < len(meta.schema) else 0
    res, opened, first = [], None, True
    for ln in out.lines:
        t = ln.split()
        if not t:
            continue
        if t[0] == "cr_open":
            r = "OK" if t[-1] == "OK" else parse_err(ln)
            if first:
                opened, first = r, False
            else:
                res.append(r)
        elif t[0] == "read" and len(t) > 2 and t[2].startswith("ret="):
            kv = _kv(ln)
            try:
                res.append(ReadPart(int(kv["ret"]), _levels(kv["defs"]), _levels(kv["reps"]),
                                    _values(kv["vals"], pt, tl, int(kv["nvals"]))))
            except (KeyError, ValueError):
                res.append(None)      # line cut by the death of the case
        elif t[0] == "skip":
            res.append(int(_kv(ln)["ret"]))
        elif t[0] == "has_next":
            res.append(t[2] == "1")
        elif t[0] == "remaining":
            res.append(int(t[2]))
        elif t[0] in ("CR_READ", "CR_SKIP", "CR_HASNEXT", "CR_REMAINING") and "SKIP" in t:
            res.append(None)
    if opened is None:
        e = [l for l in out.lines if l.startswith("open ")]
        opened = parse_err(e[0]) if e and parse_err(e[0]) else "not-opened"
    res.append({"open": opened, "fault": out.fault})
    return res


@dataclass
class BatchColumn:
    """One column of one row batch: num_values as reported, the null bitmap bits as delivered (one int per
    row, None when the bitmap pointer is NULL) and the dense values."""
    filecol: int
    num_values: int
    bitmap: Optional[List[int]]
    values: list


@dataclass
class Batch:
    """One carquet_row_batch_t."""
    rows: int
    columns: List[BatchColumn]


def parse_batches(out):
    """CaseOut of a script with BR_OPEN + BR_ALL -> (open status, [Batch], end status).
    open status / end status: 'OK' | (code, NAME) | 'NULL' (OK with a NULL batch)."""
    meta = parse_dump(out)
    opened, batches, end = None, [], None
    for ln in out.lines:
        t = ln.split()
        if not t:
            continue
        if t[0] == "br_open":
            opened = "OK" if t[1] == "OK" else parse_err(ln)
        elif t[0] == "batch":
            if t[1] == "ERR":
                end = parse_err(ln)
            elif len(t) > 2 and t[2] == "NULL":
                end = "NULL"
            elif t[1] == "OK":
                kv = _kv(ln)
                batches.append(Batch(int(kv["rows"]), []))
        elif t[0] == "bcol" and batches:
            kv = _kv(ln)
            if "nv" not in kv:
                batches[-1].columns.append(BatchColumn(-1, -1, None, []))
                continue
            if "nvals" not in kv or "vals" not in kv or "bitmap" not in kv:
                batches[-1].columns.append(BatchColumn(-1, -1, None, []))      # line cut by the death of the case
                continue
            fc = int(kv["filecol"])
            pt = meta.schema[fc].ptype if 0 <= fc < len(meta.schema) else "INT32"
            tl = meta.schema[fc].type_length if 0 <= fc < len(meta.schema) else 0
            bm = None if kv["bitmap"] == "N" else ([] if kv["bitmap"] == "-" else [ord(c) - 48 for c in kv["bitmap"]])
            batches[-1].columns.append(BatchColumn(fc, int(kv["nv"]), bm, _values(kv["vals"], pt, tl, int(kv["nvals"]))))
    return opened, batches, end


def batch_read(src, mode="stdio", verify=True, batch_size=1024, projection=None, threads=1, present_bit=0,
               hold=False, **kw):
    """Read `src` through the batch reader.  projection: None (all columns), a list of column indices, or a
    list of column names.  present_bit: which bitmap value means "row present" when the driver picks the
    dense values out of a column (0 = the pinned tree's behaviour: bit set means null).
    Returns {'open': ..., 'br_open': ..., 'batches': [Batch], 'end': ..., 'fault': ..., 'held': [Batch]}."""
    s, tmp = _read_script(src, mode, verify, threads=threads)
    s.meta()
    line = f"BR_OPEN batch={batch_size} threads={threads}"
    if projection:
        if all(isinstance(p, int) for p in projection):
            line += " idx=" + ",".join(str(p) for p in projection)
        else:
            line += " names=" + ",".join(str(p).encode().hex() for p in projection)
    s.raw(line, f"BR_ALL present={present_bit}" + (" hold" if hold else ""))
    if hold:
        s.raw(f"ECHO HELD", f"BR_HELD present={present_bit}")
    s.close()
    out = run_scripts([s], shards=1, **kw)[0]
    if tmp:
        os.unlink(tmp)
    return parse_batch_read(out, hold)


def batch_rows(batches, present_bit=0):
    """[Batch] -> one list of logical rows per projected column (concatenation of the batches; a row is
    present when its bitmap bit equals present_bit, or always when the column has no bitmap)."""
    cols = {}
    for b in batches:
        for j, c in enumerate(b.columns):
            n = max(c.num_values, 0)
            bm = c.bitmap if c.bitmap is not None else [present_bit] * n
            cols.setdefault(j, []).extend(assemble([1 if x == present_bit else 0 for x in bm], c.values, 1))
    return [cols[j] for j in sorted(cols)]


def parse_batch_read(out, hold=False):
    """CaseOut of the script built by batch_read -> the dict batch_read returns."""
    lines = out.lines
    held = []
    if hold and "HELD" in lines:
        i = lines.index("HELD")
        hl = [("batch OK " + l.split(" ", 2)[2]) if l.startswith("held ") else l for l in lines[i + 1:]]
        meta_lines = [l for l in lines[:i] if l.startswith(("meta ", "elem ", "rg "))]
        _, held, _ = parse_batches(CaseOut(lines=meta_lines + hl))
        lines = lines[:i]
    o = CaseOut(lines=lines, fault=out.fault)
    opened, batches, end = parse_batches(o)
    op = [l for l in lines if l.startswith("open ")]
    return {"open": ("OK" if op and op[0] == "open OK" else (parse_err(op[0]) if op else None)),
            "br_open": opened, "batches": batches, "end": end, "fault": out.fault, "held": held}


def truncation_scan(data, cuts=None, modes=MODES, verify=True, per_script=200, read=True, **kw):
    """Open every proper prefix data[:n] (n in `cuts`, default all 0..len-1) in every mode and, when the open
    succeeds, dump it (read=True).  Many prefixes per driver case; a case that dies is attributed to the prefix
    it died on and the rest is re-run.  Returns {(n, mode): {'open': 'OK' | (code, NAME), 'rows': file rows or
    None, 'read_errors': int, 'fault': None | dict}}  (property C18: a prefix must be rejected, never opened as
    a shorter table, never a crash, unless it is itself a complete Parquet file)."""
    cuts = list(range(len(data))) if cuts is None else list(cuts)
    res = {}
    pending = [cuts[i:i + per_script] for i in range(0, len(cuts), per_script)]
    rounds = 0
    while pending and rounds < 20:
        rounds += 1
        scripts, tmps = [], []
        for chunk in pending:
            t = tmppath(".cut")
            tmps.append(t)
            sc = Script().load_image(data)
            for n in chunk:
                sc.raw("IMG_RESET", f"IMG_TRUNC {n}", f"IMG_SAVE {t}")
                for m in modes:
                    sc.raw(f"ECHO T {n} {m}")
                    sc.open(m, verify, t)
                    if read:
                        sc.meta().dump(1 << 20)
                    sc.close()
            sc.raw(f"UNLINK {t}", "ECHO FIN")
            scripts.append(sc)
        outs = run_scripts(scripts, case_timeout=300, **kw)
        nxt = []
        for chunk, out, t in zip(pending, outs, tmps):
            cur, last, fin = None, None, False
            for ln in out.lines:
                if ln.startswith("T "):
                    w = ln.split()
                    last = int(w[1])
                    cur = {"open": None, "rows": None, "read_errors": 0, "fault": None}
                    res[(last, w[2])] = cur
                elif ln == "FIN":
                    fin = True
                elif cur is not None:
                    if ln.startswith("open "):
                        cur["open"] = "OK" if ln.strip() == "open OK" else parse_err(ln)
                    elif ln.startswith("meta rows="):
                        cur["rows"] = int(_kv(ln)["rows"])
                    elif ln.startswith("chunk_end ") and not ln.endswith("end=OK"):
                        cur["read_errors"] += 1
                    elif ln.startswith("cr_open") and "ERR" in ln:
                        cur["read_errors"] += 1
            if out.fault is not None or not fin:
                bad = last if last is not None else chunk[0]
                for m in modes:
                    res.setdefault((bad, m), {"open": None, "rows": None, "read_errors": 0, "fault": None})
                    if res[(bad, m)]["open"] is None or m == modes[-1]:
                        res[(bad, m)]["fault"] = out.fault or {"summary": "case did not finish"}
                rest = [n for n in chunk if n > bad]
                if rest:
                    nxt.append(rest)
            try:
                os.unlink(t)
            except OSError:
                pass
        pending = nxt
    return res


# ----------------------------------------------------------------------------- generators

I32 = [0, 1, -1, 2 ** 31 - 1, -2 ** 31, 127, 128, 255, 256, -128, -129, 65535, 65536, 0x7fffff00]
I64 = [0, 1, -1, 2 ** 63 - 1, -2 ** 63, 2 ** 31, -2 ** 31 - 1, 2 ** 32, 2 ** 53, 2 ** 53 + 1]
F32_BITS = [0x00000000, 0x80000000, 0x7fc00000, 0xffc00000, 0x7fa00000, 0x7f800001, 0xffffffff, 0x7f800000, 0xff800000,
            0x00000001, 0x007fffff, 0x00800000, 0x7f7fffff, 0x3f800000, 0xbf800000, 0x80000001]
F64_BITS = [0x0000000000000000, 0x8000000000000000, 0x7ff8000000000000, 0xfff8000000000000, 0x7ff4000000000000,
            0x7ff0000000000001, 0xffffffffffffffff, 0x7ff0000000000000, 0xfff0000000000000, 0x0000000000000001,
            0x000fffffffffffff, 0x0010000000000000, 0x7fefffffffffffff, 0x3ff0000000000000, 0x8000000000000001]
RUNS = [1, 1, 2, 3, 6, 7, 7, 8, 8, 8, 9, 9, 10, 15, 16, 17, 23, 24, 25, 31, 32, 33, 63, 64, 65]
ROWCOUNTS = [0, 0, 1, 1, 2, 3, 4, 5, 6, 7, 8, 9, 10, 15, 16, 17, 23, 24, 25, 31, 32, 33, 63, 64, 65, 100, 127, 128, 129, 255, 256, 257, 400]


def gen_value(rng, col, long_strings=True):
    """One random non-null value (bytes) for `col`, biased to extremes and special bit patterns."""
    t = col.ptype
    if t == "BOOLEAN":
        return bytes([rng.getrandbits(1)])
    if t == "INT32":
        v = rng.choice(I32) if rng.random() < 0.5 else rng.randrange(-2 ** 31, 2 ** 31)
        return struct.pack("<i", v)
    if t == "INT64":
        v = rng.choice(I64) if rng.random() < 0.5 else rng.randrange(-2 ** 63, 2 ** 63)
        return struct.pack("<q", v)
    if t == "FLOAT":
        v = rng.choice(F32_BITS) if rng.random() < 0.6 else rng.getrandbits(32)
        return struct.pack("<I", v)
    if t == "DOUBLE":
        v = rng.choice(F64_BITS) if rng.random() < 0.6 else rng.getrandbits(64)
        return struct.pack("<Q", v)
    if t == "FIXED_LEN_BYTE_ARRAY":
        r = rng.random()
        if r < 0.15:
            return bytes(col.type_length)
        if r < 0.3:
            return b"\xff" * col.type_length
        return bytes(rng.getrandbits(8) for _ in range(col.type_length))
    # BYTE_ARRAY
    r = rng.random()
    if r < 0.25:
        return b""
    if r < 0.6:
        return bytes(rng.choice(b"abcxyz\x00\xff ") for _ in range(rng.randrange(1, 9)))
    if r < 0.9 or not long_strings:
        return bytes(rng.getrandbits(8) for _ in range(rng.randrange(1, 70)))
    if r < 0.985:
        return bytes(rng.getrandbits(8) for _ in range(rng.choice([63, 64, 65, 127, 128, 129, 255, 256, 257, 1000, 4095, 4096, 4097])))
    n = rng.choice([65535, 65536, 65537, 70000])
    return (bytes(rng.getrandbits(8) for _ in range(251)) * (n // 251 + 1))[:n]


def gen_nulls(rng, n, style=None, short_runs=False):
    """A null pattern for n rows: list of booleans (True = present).  Styles: 'none' (no nulls), 'all'
    (all null), 'runs' (alternating runs with lengths around 7/8/9, 15/16/17, ...), 'iid', 'short'
    (alternating runs of 1..7).  short_runs=True restricts the choice to none/all/short."""
    if short_runs:
        style = style or rng.choice(["none", "all", "short", "short", "short"])
    style = style or rng.choice(["none", "all", "runs", "runs", "runs", "iid", "iid"])
    if style == "short":
        out, cur = [], bool(rng.getrandbits(1))
        while len(out) < n:
            out.extend([cur] * rng.randrange(1, 8))
            cur = not cur
        return out[:n]
    if style == "none":
        return [True] * n
    if style == "all":
        return [False] * n
    if style == "iid":
        p = rng.choice([0.1, 0.5, 0.9])
        return [rng.random() < p for _ in range(n)]
    out, cur = [], bool(rng.getrandbits(1))
    while len(out) < n:
        out.extend([cur] * rng.choice(RUNS))
        cur = not cur
    return out[:n]


@dataclass
class Table:
    """A logical table before it is cut into row groups: schema + one list of rows per column."""
    schema: Schema
    columns: List[List[Optional[bytes]]]

    @property
    def nrows(self):
        """Number of rows (length of the first column)."""
        return len(self.columns[0]) if self.columns else 0


def gen_table(rng, max_cols=6, max_rows=400, types=None, reps=("REQUIRED", "OPTIONAL"), nrows=None,
              long_strings=True, max_flba=40, avoid=frozenset()):
    """Random flat table: 1..max_cols columns over `types` (default: the seven writable types) x `reps`,
    0..max_rows rows (biased to 0..10 and to counts around multiples of 8), null patterns from gen_nulls,
    values from gen_value (extreme integers, NaN/-0.0/denormal patterns, empty and long strings).
    avoid: 'F1' restricts null patterns to all / none / runs shorter than 8 (needed when the history cannot
    cut batches at run boundaries); 'BOOLNULL' keeps OPTIONAL BOOLEAN columns free of nulls."""
    types = list(types or TYPES)
    ncols = rng.randrange(1, max_cols + 1)
    if nrows is None:
        nrows = rng.choice([r for r in ROWCOUNTS if r <= max_rows] or [0]) if rng.random() < 0.8 else rng.randrange(0, max_rows + 1)
    cols, data = [], []
    for i in range(ncols):
        t = rng.choice(types)
        tl = rng.choice([1, 2, 3, 4, 7, 8, 12, 16, 17, max_flba]) if t == "FIXED_LEN_BYTE_ARRAY" else 0
        name = rng.choice(["c", "col", "x", "value", "a_b", "C"]) + str(i)
        c = Column(name, t, rng.choice(list(reps)), tl)
        cols.append(c)
        present = gen_nulls(rng, nrows, short_runs="F1" in avoid) if c.rep == "OPTIONAL" else [True] * nrows
        if "BOOLNULL" in avoid and t == "BOOLEAN":
            present = [True] * nrows
        style = rng.random()
        if style < 0.15 and nrows:                      # constant column
            v = gen_value(rng, c, long_strings=False)
            vals = [v] * nrows
        elif style < 0.3 and t in ("INT32", "INT64"):   # sequential (what the pinned tests write)
            fmt = "<i" if t == "INT32" else "<q"
            vals = [struct.pack(fmt, k) for k in range(nrows)]
        else:
            budget = 300000                             # keep total string volume per column bounded
            vals = []
            for _ in range(nrows):
                v = gen_value(rng, c, long_strings and budget > 0)
                budget -= len(v)
                vals.append(v)
        data.append([v if p else None for v, p in zip(vals, present)])
    return Table(Schema(cols), data)


def compositions(n):
    """All ordered partitions of n rows into non-empty batch sizes (2^(n-1) of them; [[]] for n = 0)."""
    if n == 0:
        return [[]]
    out = []
    for mask in range(1 << (n - 1)):
        parts, cur = [], 1
        for i in range(n - 1):
            if mask >> i & 1:
                parts.append(cur)
                cur = 1
            else:
                cur += 1
        parts.append(cur)
        out.append(parts)
    return out


def random_composition(rng, n):
    """A sampled ordered partition of n: mixes 'one batch', 'all singletons', cuts near multiples of 8 and
    uniformly random cuts."""
    if n == 0:
        return []
    r = rng.random()
    if r < 0.2:
        return [n]
    if r < 0.27 and n <= 64:
        return [1] * n
    if r < 0.5:
        cuts = sorted({c for c in (rng.choice([7, 8, 9, 15, 16, 17, 1, n - 1, n - 8, n // 2]) for _ in range(rng.randrange(1, 4))) if 0 < c < n})
    else:
        k = rng.randrange(1, min(n, 6) + 1)
        cuts = sorted(rng.sample(range(1, n), k - 1)) if n > 1 else []
    parts, prev = [], 0
    for c in cuts + [n]:
        parts.append(c - prev)
        prev = c
    return parts


def _split_f1(rows):
    """Cut a batch so that every piece is either one run of equal null-ness or has only runs shorter than 8."""
    pieces, cur, i = [], [], 0
    n = len(rows)
    while i < n:
        j = i
        while j < n and (rows[j] is None) == (rows[i] is None):
            j += 1
        if j - i >= 8:
            if cur:
                pieces.append(cur)
                cur = []
            pieces.append(rows[i:j])
        else:
            cur = cur + rows[i:j]
        i = j
    if cur:
        pieces.append(cur)
    return pieces or [rows]


PAGE_SIZES = [1, 1, 2, 7, 63, 64, 65, 100, 128, 200, 512, 1000, 1024, 4096, 16384, 65536]


def gen_options(rng, avoid=frozenset(), codecs=None):
    """Random writer options: every codec, page sizes 1 B .. 64 KiB, flags on/off."""
    codecs = list(codecs or CODECS)
    o = Options()
    o.codec = rng.choice(codecs)
    o.level = rng.choice([0, 0, 1, 3, 9])
    o.page_size = rng.choice(PAGE_SIZES) if rng.random() < 0.8 else rng.randrange(1, 65537)
    if "F2" in avoid and rng.random() < 0.7:
        o.page_size = rng.randrange(1, 65)
    o.row_group_size = rng.choice([1, 1024, 128 << 20])
    o.stats = rng.random() < 0.7
    o.page_index = rng.random() < 0.2
    o.bloom = rng.random() < 0.2
    o.dict_enc = rng.choice(["PLAIN_DICTIONARY", "RLE_DICTIONARY", "PLAIN"])
    o.dict_page_size = rng.choice([1, 1024, 1 << 20])
    o.created_by = rng.choice(["Carquet", "verif", "", None, "x" * 40])
    return o


def build_history(rng, table, options, cuts, parts_per_group, avoid=frozenset(), interleave=True, extras=True):
    """Assemble the op list: `cuts` = row indices where a new row group starts; parts_per_group[g][c] =
    batch sizes of column c in group g.  With rng=None nothing random is added (no interleaving, no
    redundant calls)."""
    ncol = len(table.schema.columns)
    bounds = [0] + list(cuts) + [table.nrows]
    ops = []
    one_per_page = options.page_size <= 64
    for g in range(len(bounds) - 1):
        lo, hi = bounds[g], bounds[g + 1]
        percol = []
        for c in range(ncol):
            col = table.schema.columns[c]
            rows = table.columns[c][lo:hi]
            sizes = list(parts_per_group[g][c])
            single = (col.rep == "OPTIONAL" and "F5" in avoid) or (col.ptype == "BYTE_ARRAY" and "FA2" in avoid)
            if single:
                sizes = [hi - lo] if hi > lo else []
            if "F2" in avoid and not one_per_page:
                sizes = [hi - lo] if hi > lo else []
            batches, p = [], 0
            for s in sizes:
                batches.append(rows[p:p + s])
                p += s
            if p < len(rows):
                batches.append(rows[p:])
            if col.rep == "OPTIONAL" and "F1" in avoid and not single and ("F2" not in avoid or one_per_page):
                batches = [q for b in batches for q in _split_f1(b)]
            # (a zero-row call leaves its level block in the page of the NEXT call whatever the page size: F2)
            if extras and rng is not None and "EMPTY_RG" not in avoid and "F2" not in avoid and rng.random() < 0.08:
                batches.insert(rng.randrange(len(batches) + 1), [])
            cops = []
            for b in batches:
                nodefs = (extras and rng is not None and col.rep == "OPTIONAL" and "F3" not in avoid
                          and all(r is not None for r in b) and rng.random() < 0.15)
                cops.append(WriteOp("batch", c, list(b), nodefs=nodefs))
            percol.append(cops)
        if interleave and rng is not None and rng.random() < 0.6:
            order = [c for c in range(ncol) for _ in percol[c]]
            rng.shuffle(order)
            idx = [0] * ncol
            for c in order:
                ops.append(percol[c][idx[c]])
                idx[c] += 1
        else:
            for c in range(ncol):
                ops.extend(percol[c])
        if g < len(bounds) - 2:
            ops.append(WriteOp("new_row_group"))
            if extras and rng is not None and "EMPTY_RG" not in avoid and rng.random() < 0.05:
                ops.append(WriteOp("new_row_group"))
    if extras and rng is not None and "EMPTY_RG" not in avoid and rng.random() < 0.05:
        ops.append(WriteOp("new_row_group"))
    ops.append(WriteOp("close"))
    return ops


def gen_cuts(rng, nrows):
    """Row-group cut positions: anywhere in 1..nrows-1; 0..3 cuts, biased to none."""
    if nrows < 2 or rng.random() < 0.45:
        return []
    k = min(nrows - 1, rng.choice([1, 1, 2, 3]))
    return sorted(rng.sample(range(1, nrows), k))


def gen_write_history(rng, table, options=None, avoid=frozenset(), exhaustive_limit=6, codecs=None, name=""):
    """One random write history for `table` -> Case.  Row-group cuts anywhere, every column's rows of a row
    group split into write_batch calls (a uniformly chosen member of the full enumeration for groups of
    <= exhaustive_limit rows, random_composition above), calls of different columns interleaved, options
    from gen_options unless given.
    avoid: subset of AVOIDABLE keys - steer around the trigger of a known defect (default: avoid nothing)."""
    avoid = frozenset(avoid)
    options = options or gen_options(rng, avoid, codecs)
    cuts = gen_cuts(rng, table.nrows)
    bounds = [0] + cuts + [table.nrows]
    ncol = len(table.schema.columns)
    ppg = []
    for g in range(len(bounds) - 1):
        n = bounds[g + 1] - bounds[g]
        row = []
        for c in range(ncol):
            if n <= exhaustive_limit:
                row.append(rng.choice(compositions(n)))
            else:
                row.append(random_composition(rng, n))
        ppg.append(row)
    ops = build_history(rng, table, options, cuts, ppg, avoid)
    return Case(table.schema, options, ops, name=name)


def enum_write_histories(table, options, rng=None, avoid=frozenset(), cuts=()):
    """Exhaustive enumeration for small tables: yields one Case per ordered partition of the rows of a row
    group into write_batch calls.  The i-th case uses the i-th partition for column 0 and a rotated one for
    the other columns, so every column sees every partition (column chunks are written independently, so
    per-column coverage is what matters).  `cuts` fixes the row-group cuts (default none)."""
    avoid = frozenset(avoid)
    bounds = [0] + list(cuts) + [table.nrows]
    ncol = len(table.schema.columns)
    per_group = [compositions(bounds[g + 1] - bounds[g]) for g in range(len(bounds) - 1)]
    total = max(len(p) for p in per_group)
    for i in range(total):
        ppg = [[comps[(i + 3 * c) % len(comps)] for c in range(ncol)] for comps in per_group]
        ops = build_history(rng, table, options, list(cuts), ppg, avoid, interleave=rng is not None, extras=False)
        yield Case(table.schema, options, ops, name=f"enum{i}")


def gen_case(rng, avoid=frozenset(), **kw):
    """gen_table + gen_write_history in one call (kw goes to gen_table)."""
    codecs = kw.pop("codecs", None)
    t = gen_table(rng, avoid=frozenset(avoid), **kw)
    return gen_write_history(rng, t, avoid=avoid, codecs=codecs)


def table_of(table, cuts=()):
    """Table -> expected_table representation for the given row-group cuts (empty groups dropped)."""
    bounds = [0] + list(cuts) + [table.nrows]
    out = []
    for g in range(len(bounds) - 1):
        if bounds[g + 1] > bounds[g]:
            out.append([c[bounds[g]:bounds[g + 1]] for c in table.columns])
    return out


def compare_tables(want, got):
    """None when equal, else a short description of the first difference (row group / column / row)."""
    if len(want) != len(got):
        return f"row groups: want {len(want)} got {len(got)}"
    for g, (wg, gg) in enumerate(zip(want, got)):
        if len(wg) != len(gg):
            return f"rg {g}: columns want {len(wg)} got {len(gg)}"
        for c, (wc, gc) in enumerate(zip(wg, gg)):
            if wc is None or gc is None:
                if wc is not gc:
                    return f"rg {g} col {c}: column could not be decoded"
                continue
            if len(wc) != len(gc):
                return f"rg {g} col {c}: rows want {len(wc)} got {len(gc)}"
            for r, (a, b) in enumerate(zip(wc, gc)):
                if a != b:
                    sa = "NULL" if a is None else a[:16].hex()
                    sb = "NULL" if b is None else (b[:16].hex() if isinstance(b, bytes) else repr(b))
                    return f"rg {g} col {c} row {r}: want {sa} got {sb}"
    return None


def schema_of_dump(d):
    """Dump -> Schema as the reader reports it (for comparison with the written schema)."""
    return Schema([Column(c.name, c.ptype, c.rep, c.type_length) for c in d.schema])


# ----------------------------------------------------------------------------- self-test

def _selftest():
    """Exercises driver + wrapper + generators; prints a summary; exit code 0 when the infrastructure
    itself behaves (defects of the library are reported as information, not as failures)."""
    import time
    t0 = time.time()
    rng = random.Random(vlib.SEED)
    fails = []

    def check(cond, what):
        """Record a failed expectation."""
        if not cond:
            fails.append(what)
            print("SELFTEST-FAIL:", what)

    # 1. fault attribution
    outs = run_scripts([Script("ok").raw("ECHO a"), Script("crash").raw("CRASH"), Script("leak").raw("LEAK"),
                        Script("ok2").raw("ECHO b")], shards=1)
    check(outs[0].fault is None and outs[0].lines == ["a"], "plain case")
    check(outs[1].fault and outs[1].fault["exit"] == 98, "crash attributed")
    check(outs[2].fault and outs[2].fault["exit"] == 99 and "leaked" in outs[2].fault["summary"], "leak attributed")
    check(outs[3].fault is None and outs[3].lines == ["b"], "cases after a fault still run")

    # 2. JSON round trip + oracle
    c = gen_case(rng)
    c2 = case_from_json(json.loads(json.dumps(case_to_json(c))))
    check(case_to_json(c) == case_to_json(c2), "case json round trip")
    t = gen_table(rng, nrows=5)
    hs = list(enum_write_histories(t, Options(page_size=1)))
    check(len(hs) == 16, "enumeration of 2^(n-1) histories")
    check(all(expected_table(h) == table_of(t) for h in hs), "expected_table of enumerated histories")

    # 3. random cases with every known trigger avoided: write, dump in 3 modes, compare
    avoid = set(AVOIDABLE)
    n = 60
    cases = []
    for i in range(n):
        cases.append(gen_case(rng, avoid=avoid, max_rows=120, long_strings=(i % 10 == 0)))
    paths = [tmppath() for _ in cases]
    sts = write_cases(list(zip(cases, paths)))
    bad = [(i, s) for i, s in enumerate(sts) if not s.all_ok()]
    check(not bad, f"writer statuses all OK on avoiding cases ({len(bad)} not: {bad[:2]})")
    reqs = [(p, m, True, 1 << 20) for p in paths for m in MODES]
    dumps = dump_many(reqs)
    mism, faults = 0, 0
    for i, cse in enumerate(cases):
        want = expected_table(cse)
        for j, m in enumerate(MODES):
            d = dumps[3 * i + j]
            if d.fault:
                faults += 1
                print("  fault in", m, d.fault["summary"][:150])
                continue
            diff = compare_tables(want, d.table()) if d.opened else f"open failed {d.error}"
            if diff is None and [(x.name, x.ptype, x.rep, x.type_length) for x in d.schema] != \
                    [(x.name, x.ptype, x.rep, x.type_length) for x in cse.schema.columns]:
                diff = "schema differs"
            if diff:
                mism += 1
                if mism <= 5:
                    print(f"  mismatch case {i} mode {m}: {diff}")
    print(f"avoiding cases: {n} files x 3 modes, mismatches={mism} faults={faults}")
    # determinism of the driver output
    d2 = dump_many(reqs[:9])
    check(all(a.raw == b.raw for a, b in zip(dumps[:9], d2)), "driver output deterministic")

    # 4. same without avoiding anything (informational: this is where the open defects show)
    cases2 = [gen_case(rng, max_rows=120, long_strings=False) for _ in range(40)]
    paths2 = [tmppath() for _ in cases2]
    sts2 = write_cases(list(zip(cases2, paths2)))
    dumps2 = dump_many([(p, "stdio", True, 1 << 20) for p in paths2])
    m2 = sum(1 for cse, s, d in zip(cases2, sts2, dumps2)
             if s.close_ok() and (d.fault or not d.opened or compare_tables(expected_table(cse), d.table())))
    print(f"non-avoiding cases: 40 files, stdio: {m2} differ from the written table (open defects of the tree)")

    # 5. history + batch reader API smoke test on one file
    sch = Schema([Column("a", "INT32"), Column("s", "BYTE_ARRAY", "OPTIONAL")])
    rows_a = [struct.pack("<i", i) for i in range(10)]
    rows_s = [b"v%d" % i if i % 3 else None for i in range(10)]
    cse = Case(sch, Options(page_size=1 << 20), [WriteOp("batch", 0, rows_a), WriteOp("batch", 1, rows_s), WriteOp("close")])
    p = tmppath()
    st = write_case(cse, p)
    check(st.all_ok() and st.exists and st.size > 0, "simple write")
    h = column_history(p, "stdio", True, 0, 0, [("remaining",), ("read", 3), ("skip", 2), ("has_next",), ("reopen",), ("read", 20), ("read", 1), ("has_next",)])
    check(h[0] == 10 and h[1].ret == 3 and h[1].values == rows_a[:3] and h[2] == 2 and h[3] is True and h[4] == "OK"
          and h[5].ret == 10 and h[6].ret == 0 and h[7] is False, f"column history {h}")
    for m in MODES:
        b = batch_read(Path(p).read_bytes(), m, True, 4, projection=["s", "a"], hold=True)
        check(b["br_open"] == "OK" and [x.rows for x in b["batches"]] == [4, 4, 2] and b["end"] == (63, "END_OF_DATA"), f"batch reader {m}: {b['br_open']} {b['end']}")
        check(len(b["held"]) == 3, "held batches")
    b = batch_read(p, "stdio", True, 100, projection=[1])
    got = assemble([1 - x for x in b["batches"][0].columns[0].bitmap], b["batches"][0].columns[0].values, 1) if b["batches"] else None
    check(got == rows_s, "batch reader content (single page, single batch)")

    # 6. sink
    cse.sink = SinkSpec(fail_byte=10, buf=0)
    st = write_case(cse, None)
    print("sink fail_byte=10 unbuffered:", list(st), st.sink)
    check(st.fault is None and st.sink.get("final", {}).get("accepted") == 10, "sink accepted exactly 10 bytes")
    cse.sink = SinkSpec()
    st = write_case(cse, None)
    check(st.close_ok() and st.sink["final"]["accepted"] == Path(p).stat().st_size, "sink without failure receives the whole file")

    # 7. determinism, truncation scan, fileptr mode, corpus replay, allocation-failure driver
    cse.sink = None
    same, why = determinism(cse)
    check(same, f"determinism: {why}")
    data = Path(p).read_bytes()
    ts = truncation_scan(data, cuts=range(0, len(data), 7))
    check(all(v["open"] != "OK" and not v["fault"] for v in ts.values()) and len(ts) == 3 * len(range(0, len(data), 7)), "truncation scan: every prefix rejected")
    d = dump(p, "fileptr", True, 100)
    if any("declared-but-not-defined" in l for l in d.raw):
        print("fileptr mode: carquet_reader_open_file is declared in carquet.h but not defined in the library")
    else:
        check(d.opened and not d.fault and d.table() == expected_table(cse), "fileptr mode")
    cdir = vlib.VERIF / "corpus" / "file"
    if (cdir / "F20.json").exists():
        shows, obs = replay_corpus(json.loads((cdir / "F20.json").read_text()))
        print("corpus F20 on this tree:", "shows" if shows else "does not show")
    try:
        adrv = driver("h_file_alloc")
        s = Script().raw("ALLOC_FAIL 3").write(cse, tmppath())
        s.raw("ALLOC_COUNT")
        o = run_scripts([s], shards=1, drv=adrv)[0]
        check(o.fault is None and any("ERR 2 OUT_OF_MEMORY" in l for l in o.lines), f"allocation failure injected: {o.lines[:4]} {o.fault}")
    except vlib.BuildError as e:
        check(False, "h_file_alloc does not build: " + str(e)[:300])
    print(f"selftest: {'OK' if not fails else 'FAILED'} in {time.time() - t0:.1f}s")
    return 1 if fails else 0




# ----------------------------------------------------------------------------- corpus entries (corpus/file/*.json)

def replay_corpus(entry):
    """Run one corpus entry (dict loaded from corpus/file/<id>.json) against the current tree.
    Returns (shows, observation): shows = the defect described by the entry is still observable.
    Entry kinds:
      write_read  'case' (case_to_json) is written by carquet, read back with 'read' = {mode, verify, batch};
                  the defect shows when a writer call fails/dies, the table read differs from expected_table, or
                  (with 'validate': true) tools/pq.py finds error-level violations matching 'clauses'.
      file_read   'file_hex' (+ 'truth' = [[[defs, reps, [hex values]], ...], ...], 'maxdef') is read by carquet;
                  shows when levels/values differ or reading fails ('expect': 'error' inverts: shows when the
                  file is read without error).
      sink        'case' with a sink plan; shows when close returns OK although the sink failed.
      batch       'case' written, then read through the batch reader ('read' = {mode, batch_size, projection});
                  shows when columns of one batch differ in length or the content differs from the table.
      history     'case' written, then 'ops' run on column (rg, col); shows when the rows delivered differ.
      note        not executable (e.g. a link-time fact); 'observation' says how it was seen."""
    import pq
    kind = entry["kind"]
    obs = []
    if kind == "note":
        return True, entry.get("observation", "(not executable; see title)")
    if kind in ("write_read", "sink", "batch", "history"):
        case = case_from_json(entry["case"])
        p = tmppath()
        st = write_case(case, p)
        obs.append("writer: " + ", ".join(st) + (f" FAULT {st.fault['summary']}" if st.fault else ""))
        if kind == "sink":
            fin = st.sink.get("final", {})
            obs.append(f"sink accepted {fin.get('accepted')} bytes, failed={fin.get('failed')}, fclose={st.fclose}")
            return (st.close_ok() and bool(fin.get("failed"))), "; ".join(obs)
        if st.fault or not st.close_ok():
            return True, "; ".join(obs)
        want = expected_table(case)
        data = Path(p).read_bytes()
        shows = not st.all_ok()
        if kind == "write_read":
            r = entry.get("read", {})
            if entry.get("validate"):
                pf = pq.read_file(data)
                pool = pf.validate() if entry.get("include_warn") else pf.errors()
                errs = [v for v in pool if not entry.get("clauses") or v.clause in entry["clauses"]]
                obs.append("pq.validate: " + ("; ".join(str(v) for v in errs[:3]) or "no matching violation"))
                shows = shows or bool(errs)
                if not entry.get("read"):
                    return shows, "; ".join(obs)
            d = dump(data, r.get("mode", "stdio"), r.get("verify", True), r.get("batch", 1 << 20))
            if d.fault:
                obs.append("read FAULT " + d.fault["summary"])
                return True, "; ".join(obs)
            diff = compare_tables(want, d.table()) if d.opened else f"open failed {d.error}"
            if diff is None and d.read_errors():
                diff = f"read errors {d.read_errors()}"
            obs.append("read back: " + (diff or "equal to the written table"))
            return shows or diff is not None, "; ".join(obs)
        if kind == "batch":
            r = entry.get("read", {})
            b = batch_read(data, r.get("mode", "stdio"), True, r.get("batch_size", 1024), r.get("projection"))
            if b["fault"]:
                return True, "; ".join(obs + ["batch reader FAULT " + b["fault"]["summary"]])
            lens = [[c.num_values for c in x.columns] for x in b["batches"]]
            obs.append(f"batches: rows {[x.rows for x in b['batches']]}, values per column {lens}, end {b['end']}")
            ragged = any(len(set(l)) > 1 for l in lens)
            cols = {}
            for x in b["batches"]:
                for j, c in enumerate(x.columns):
                    bm = c.bitmap if c.bitmap is not None else [0] * c.num_values
                    cols.setdefault(j, []).extend(assemble([1 - t for t in bm], c.values, 1))
            flat = [sum((g[c] for g in want), []) for c in range(len(case.schema.columns))]
            proj = r.get("projection") or list(range(len(flat)))
            wrong = [j for j, c in enumerate(proj) if isinstance(c, int) and cols.get(j) != flat[c]]
            if wrong:
                obs.append(f"content of projected columns {wrong} differs from the written table")
            return shows or ragged or bool(wrong), "; ".join(obs)
        if kind == "history":
            h = column_history(data, entry.get("mode", "stdio"), True, entry["rg"], entry["col"], [tuple(o) for o in entry["ops"]])
            rows = []
            for x in h[:-1]:
                if isinstance(x, ReadPart):
                    rows.extend(assemble(x.defs, x.values, 1 if case.schema.columns[entry["col"]].rep == "OPTIONAL" else 0))
            wantrows = want[entry["rg"]][entry["col"]]
            obs.append("rows delivered: " + str(["NULL" if v is None else (v.hex() if isinstance(v, bytes) else repr(v)) for v in rows]))
            obs.append("rows written:   " + str(["NULL" if v is None else v.hex() for v in wantrows]))
            return shows or rows != wantrows[:len(rows)] or bool(h[-1]["fault"]), "; ".join(obs)
    if kind == "file_read":
        data = bytes.fromhex(entry["file_hex"])
        d = dump(data, entry.get("mode", "buffer"), True, entry.get("batch", 1 << 20), entry.get("maxdef"))
        if d.fault:
            return True, "read FAULT " + d.fault["summary"]
        failed = (not d.opened) or bool(d.read_errors())
        if entry.get("expect") == "error":
            obs.append("open %s, read errors %s" % ("OK" if d.opened else d.error, d.read_errors()))
            if failed:
                return False, "; ".join(obs + ["rejected as required"])
            truth = entry.get("truth")
            same = truth is not None and all(
                ch.defs == truth[ch.rg][ch.col][0] and ch.reps == truth[ch.rg][ch.col][1] and
                [v.hex() if isinstance(v, bytes) else repr(v) for v in ch.values] == truth[ch.rg][ch.col][2] for ch in d.chunks)
            obs.append("accepted; values " + ("equal the stored ones" if same else "DIFFER from the stored ones"))
            return not same, "; ".join(obs)
        if failed:
            return True, "open %s, read errors %s" % ("OK" if d.opened else d.error, d.read_errors())
        truth = entry["truth"]
        for ch in d.chunks:
            t = truth[ch.rg][ch.col]
            got = [v.hex() if isinstance(v, bytes) else repr(v) for v in ch.values]
            if ch.defs != t[0] or ch.reps != t[1] or got != t[2]:
                return True, f"rg {ch.rg} col {ch.col}: defs {ch.defs} reps {ch.reps} values {got}; stored defs {t[0]} reps {t[1]} values {t[2]}"
        return False, "levels and values equal the stored ones"
    raise ValueError(kind)


def _main_replay(path):
    """CLI: replay one corpus entry; exit code 1 when the defect shows."""
    e = json.loads(Path(path).read_text())
    shows, obs = replay_corpus(e)
    print(f"{e['id']}: {e['title']}")
    print("  expected:", e.get("expected"))
    print("  observed:", obs)
    print("  defect shows on", vlib.REPO, ":", shows)
    return 1 if shows else 0


if __name__ == "__main__":
    if "--selftest" in sys.argv:
        sys.exit(_selftest())
    if "--replay" in sys.argv:
        sys.exit(_main_replay(sys.argv[sys.argv.index("--replay") + 1]))
    print(__doc__)
