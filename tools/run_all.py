#!/usr/bin/env python3
"""Development-time tool: run every registered check once (sequentially, like `vp check` does) and print a
summary table; validates the evidence files.  usage: tools/run_all.py [quick|thorough] [ids...]"""
import json, subprocess, sys, time
from pathlib import Path
V = Path(__file__).resolve().parent.parent
tier = sys.argv[1] if len(sys.argv) > 1 and sys.argv[1] in ("quick", "thorough") else "quick"
ids = [a for a in sys.argv[1:] if a.startswith("C")] or [c["property_id"] for c in json.loads((V / "MANIFEST.json").read_text())["checks"]]
rows = []
for pid in ids:
    t = time.time()
    p = subprocess.run([str(V / "check"), pid, tier], cwd=V, capture_output=True, text=True)
    dt = time.time() - t
    last = [l for l in p.stdout.splitlines() if l.startswith(("OK ", "VIOLATION", "KNOWN-FINDING", "BUILD-ERROR"))]
    ev = "?"
    try:
        e = json.loads((V / "evidence" / f"{pid}.json").read_text())
        ev = "%s/%s thm, %s cases" % (e["coverage"].get("discharged", e["coverage"].get("discharged_count")),
                                       e["coverage"].get("obligations", e["coverage"].get("obligations_count")), e["coverage"].get("evaluations"))
    except Exception as ex:
        ev = "no evidence: %s" % ex
    rows.append((pid, p.returncode, round(dt), ev, (last[-1] if last else p.stderr[-200:])[:150]))
    print("%-4s rc=%d %4ds  %-32s %s" % rows[-1], flush=True)
bad = [r for r in rows if r[1] != 0]
print("\n%d checks, %d failing: %s" % (len(rows), len(bad), [r[0] for r in bad]))
