#!/usr/bin/env python3
"""MANIFEST.setup_cmd: build the framework from files on disk only (offline).
Regenerates the translator output, builds every Coq file (full .vo), the OCaml runners and the
sanitizer build of /repo with the C drivers."""
import sys, time
from pathlib import Path
sys.path.insert(0, str(Path(__file__).resolve().parent))
import vlib

t = time.time()
vlib.gen_translators()
vlib.coq_project()
targets = [p.relative_to(vlib.COQ).as_posix() + "o" for p in sorted((vlib.COQ / "theories").rglob("*.v"))]
ok, out = vlib.coq_make(targets, timeout=7200)
print(out[-3000:])
print("coq build", "ok" if ok else "FAILED", "%.0fs" % (time.time() - t))
vlib.build_repo()
for f in sorted((vlib.VERIF / "ocaml").glob("run_*.ml")):
    try:
        vlib.build_runner(f.stem[4:])
    except Exception as e:
        print("runner", f.stem, "failed:", str(e)[:500])
print("setup done in %.0fs" % (time.time() - t))
if not ok:
    # a file that does not compile fails only the properties whose cone contains it (each check
    # rebuilds and verifies its own cone); setup itself is not the place to fail them all
    import re
    print("WARNING: some Coq files did not compile:", sorted(set(re.findall(r'File "\./(theories/[^"]+)"', out)))[:20])
sys.exit(0)
