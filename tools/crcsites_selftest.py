"""self-test of tools/gen.d/crcsites.py on textual variants of page_reader.c (scratch copies under /tmp/vr)"""
import sys, re, shutil, importlib.util
from pathlib import Path
sys.path.insert(0, "/verif/tools")
spec = importlib.util.spec_from_file_location("crcsites", "/verif/tools/gen.d/crcsites.py")
m = importlib.util.module_from_spec(spec); spec.loader.exec_module(m)
src = Path("/repo/src/reader/page_reader.c").read_text()
root = Path("/tmp/vr"); (root / "src/reader").mkdir(parents=True, exist_ok=True)


def run(name, text, expect_ok):
    (root / "src/reader/page_reader.c").write_text(text)
    try:
        s = m.sites(root)
        res = "ok %d sites %s" % (len(s), sorted(set(g for _, _, g in s)))
        good = expect_ok
    except m.TieError as e:
        res = "TieError: " + str(e)[:170]
        good = not expect_ok
    print("%-34s %-5s %s" % (name, "PASS" if good else "FAIL", res))


run("HEAD", src, True)
run("== instead of != (site 1)", src.replace("computed_crc != expected_crc", "computed_crc == expected_crc", 1), False)
run("length = uncompressed size", src.replace("carquet_crc32(compressed, page_header.compressed_page_size)", "carquet_crc32(compressed, page_header.uncompressed_page_size)", 1), False)
run("guard without verify", src.replace("page_header.has_crc && file_reader->options.verify_checksums", "page_header.has_crc", 1), True)  # translates; the Coq lemma fails
run("guard crc != 0", src.replace("page_header.has_crc && file_reader", "page_header.has_crc && page_header.crc != 0 && file_reader", 1), True)  # translates; lemma fails
run("guard uses unknown operand", src.replace("page_header.has_crc && file_reader", "page_header.has_crc && reader->strict && file_reader", 1), False)
run("operands swapped + parentheses", src.replace("page_header.has_crc && file_reader->options.verify_checksums", "(file_reader->options.verify_checksums) && page_header.has_crc", 1), True)
# statement order / inline cast: harmless
t = re.sub(r"(uint32_t computed_crc = carquet_crc32\([^;]*;\s*)(uint32_t expected_crc = \(uint32_t\)page_header\.crc;\s*)", r"\2\1", src, count=1)
run("expected assigned first", t, t != src)
t2 = re.sub(r"uint32_t expected_crc = \(uint32_t\)page_header\.crc;", "", src, count=1).replace("computed_crc != expected_crc", "computed_crc != (uint32_t)page_header.crc", 1)
run("cast inlined in the comparison", t2, True)
run("stored field not cast", src.replace("(uint32_t)page_header.crc", "page_header.crc", 1), False)
# writer pair (src/writer/page_writer.c)
wsrc = Path("/repo/src/writer/page_writer.c").read_text()
(root / "src/writer").mkdir(parents=True, exist_ok=True)


def runw(name, text, expect):
    (root / "src/writer/page_writer.c").write_text(text)
    try:
        (c1, g1), (c2, g2) = m.writer_pair(root)
        res = "computes: %s   stores: %s" % (g1, g2)
        good = expect == (g1, g2)
    except m.TieError as e:
        res = "TieError: " + str(e)[:170]
        good = expect is None
    print("%-34s %-5s %s" % (name, "PASS" if good else "FAIL", res))


runw("writer HEAD", wsrc, ("write_crc", "write_crc"))
runw("writer: compute only if values", wsrc.replace("if (writer->write_crc) {\n        page_crc", "if (writer->write_crc && writer->values_buffer.size > 0) {\n        page_crc", 1),
     ("(write_crc && ((0)%Z <? size)%Z)", "write_crc"))
runw("writer: unknown operand", wsrc.replace("if (writer->write_crc) {\n        page_crc", "if (writer->write_crc && !writer->fast) {\n        page_crc", 1), None)
runw("writer: crc call removed", wsrc.replace("page_crc = carquet_crc32(compressed.data, compressed.size);", "page_crc = 0;", 1), None)
shutil.rmtree(root)
