#!/usr/bin/env python3
"""Development-time tool (no check runs it): mutation audit of a property's check - the complement of
tools/covaudit.py.  covaudit asks "which lines does no case reach"; this asks "of the lines the cases DO reach,
which small semantic changes does the check not notice" (weak oracle rather than weak generator).

usage: tools/mutaudit.py <ID> <count> [seed]  ->  build/mut/<ID>.json + a table on stdout
For <count> randomly chosen single-token mutants (relational operator, boundary constant, && / ||, +1/-1) on lines
of the property's anchored files that the check executes (build/cov/<ID>.json from covaudit), each in a scratch
worktree /tmp/mut-<ID> of /repo HEAD: build with cmake + run the pinned test suite (a mutant the suite kills is not
interesting), then `VERIF_REPO=<worktree> ./check <ID> quick`.  Verdicts: killed-by-suite, does-not-compile,
caught (VIOLATION with a replay), tie-only (no-failing-input-found), SURVIVED (check says OK)."""
import sys, os, re, json, random, subprocess
from pathlib import Path
V = Path(__file__).resolve().parent.parent
pid, count = sys.argv[1], int(sys.argv[2]); seed = int(sys.argv[3]) if len(sys.argv) > 3 else 1
rng = random.Random(seed * 1000003 + int(pid[1:]))
prop = next(json.loads(l) for l in (V / "properties.jsonl").read_text().splitlines() if json.loads(l)["id"] == pid)
files = [f for f in prop["anchors"]["files"] if f.endswith(".c")]
if os.environ.get("MUT_FILES"):          # MUT_FILES=<regex>: only these anchored files
    files = [f for f in files if re.search(os.environ["MUT_FILES"], f)]
try:
    cov = json.loads((V / "build" / "cov" / (pid + ".json")).read_text())
except Exception:
    cov = {}
TAG = os.environ.get("MUT_TAG", "")      # MUT_TAG: separate worktree / result file for a second audit of the same property
wt = Path("/tmp/mut-" + pid + TAG)


def sh(cmd, cwd=None, env=None, timeout=None):
    try:
        return subprocess.run(cmd, shell=True, cwd=cwd, env=env, capture_output=True, text=True, timeout=timeout)
    except subprocess.TimeoutExpired as e:
        return subprocess.CompletedProcess(cmd, 124, e.stdout or "", "TIMEOUT")


OPS = [(r"(?<![<>=!\-])<=(?!=)", "<"), (r"(?<![<>=!\-])>=(?!=)", ">"), (r"(?<![<\-])<(?![<=])", "<="), (r"(?<![>\-])>(?![>=])", ">="),
       (r"==", "!="), (r"!=", "=="), (r"&&", "||"), (r"\|\|", "&&"),
       (r" \+ 1\b", " + 2"), (r" - 1\b", ""), (r" \+ 1\b", ""), (r"\+\+", "--"),
       (r"\b([2-9]|[1-9][0-9]{1,3})\b", None)]     # integer literal n -> n+1


def candidates():
    out = []
    for f in files:
        p = Path("/repo") / f
        if not p.exists():
            continue
        unc = set(cov.get(f, {}).get("uncovered", []))
        have_cov = f in cov
        incomment = False
        for n, line in enumerate(p.read_text().splitlines(), 1):
            s = line.strip()
            if incomment:
                if "*/" in s:
                    incomment = False
                continue
            if s.startswith("/*") and "*/" not in s:
                incomment = True; continue
            if not s or s.startswith(("#", "//", "*", "/*")) or "assert" in s or "printf" in s or "carquet_error_set" in s or "snprintf" in s:
                continue
            if have_cov and n in unc:
                continue
            if os.environ.get("MUT_GREP") and not re.search(os.environ["MUT_GREP"], line, re.I):
                continue       # MUT_GREP=<regex>: only lines that mention what the property is about
            code = re.sub(r"/\*.*?\*/", lambda m: " " * len(m.group(0)), line.split("//")[0])
            code = code.split("/*")[0]
            for k, (pat, rep) in enumerate(OPS):
                for m in re.finditer(pat, code):
                    if '"' in code[:m.start()] and code[:m.start()].count('"') % 2 == 1:
                        continue           # inside a string literal
                    new = rep if rep is not None else str(int(m.group(0)) + 1)
                    out.append((f, n, m.start(), m.end(), new, line))
    return out


cands = candidates()
rng.shuffle(cands)
sh(f"git -C /repo worktree remove --force {wt}"); sh(f"git -C /repo worktree add -f {wt} HEAD")
sh("cmake -S . -B _b -G Ninja -DCMAKE_BUILD_TYPE=RelWithDebInfo", cwd=wt)
sh("cmake --build _b", cwd=wt)
results, seen_lines = [], set()
for (f, n, a, b, new, line) in cands:
    if len(results) >= count:
        break
    if (f, n) in seen_lines:
        continue
    seen_lines.add((f, n))
    p = wt / f
    orig = p.read_text()
    lines = orig.split("\n")
    mutated = lines[n - 1][:a] + new + lines[n - 1][b:]
    if mutated == lines[n - 1]:
        continue
    lines[n - 1] = mutated
    p.write_text("\n".join(lines))
    entry = {"file": f, "line": n, "from": line.strip()[:140], "to": mutated.strip()[:140]}
    bld = sh("cmake --build _b 2>&1 | tail -3", cwd=wt, timeout=600)
    if bld.returncode != 0 or "error" in bld.stdout.lower() and "FAILED" in bld.stdout:
        entry["verdict"] = "does-not-compile"
    else:
        ok = False
        for attempt in range(2):
            t = sh("ctest --test-dir _b -j8 --timeout 120 2>&1 | tail -4", cwd=wt, timeout=900)
            if "100% tests passed" in t.stdout:
                ok = True; break
        if not ok:
            entry["verdict"] = "killed-by-suite"
        else:
            env = dict(os.environ, VERIF_REPO=str(wt))
            c = sh(f"timeout 1500 ./check {pid} quick", cwd=V, env=env, timeout=1600)
            o = c.stdout
            if "no-failing-input-found" in o and not re.search(r"^VIOLATION (?!.*no-failing-input-found)", o, re.M):
                entry["verdict"] = "tie-only"
            elif "VIOLATION" in o:
                entry["verdict"] = "caught"
                m = re.search(r"^VIOLATION.*\n\s+(.*)", o, re.M)
                entry["what"] = (m.group(1) if m else "")[:160]
            elif re.search(r"^OK property", o, re.M):
                entry["verdict"] = "SURVIVED"
            else:
                entry["verdict"] = "no-verdict"; entry["what"] = (o + c.stderr)[-200:]
    p.write_text(orig)
    results.append(entry)
    print("%-16s %s:%d  %s  =>  %s" % (entry["verdict"], f, n, entry["from"][:70], entry["to"][:70]), flush=True)
sh(f"git -C /repo worktree remove --force {wt}")
(V / "build" / "mut").mkdir(parents=True, exist_ok=True)
(V / "build" / "mut" / (pid + TAG + ".json")).write_text(json.dumps(results, indent=1))
from collections import Counter
print(pid, dict(Counter(r["verdict"] for r in results)))
