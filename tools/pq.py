#!/usr/bin/env python3
"""pq - an independent Parquet implementation written from the format specification (parquet-format:
README.md, Encodings.md, Compression.md, parquet.thrift; Thrift compact protocol specification).
It shares no code with carquet.  Two faces:

(a) read_file(bytes) -> ParsedFile
        .violations   structural findings collected while parsing (never raises on bad input)
        .validate()   the full list of Violation records = every structural clause of property C05
        .table()      decoded logical table  [row group][column] -> rows (bytes | None)   (flat schemas)
        .levels()     [row group][column] -> (def levels, rep levels, non-null values)    (any schema)
        .page_bodies() location of every stored page body (for damage experiments, C14)
(b) write_file(FileSpec) -> bytes      reference writer over a feature grid (property C06), see FileSpec.

Values are raw bit patterns as `bytes` (BOOLEAN 1 byte 00/01, INT32/FLOAT 4 LE, INT64/DOUBLE 8 LE, INT96 12,
FIXED_LEN_BYTE_ARRAY type_length bytes, BYTE_ARRAY any length) - the representation tools/filecase.py uses.

    python3 tools/pq.py --selftest
"""
import sys, struct, zlib, random
from dataclasses import dataclass, field
from pathlib import Path
from typing import List, Optional

sys.path.insert(0, str(Path(__file__).resolve().parent))
import pq_codecs
from pq_codecs import CodecError, CodecUnavailable

MAGIC = b"PAR1"

# ----------------------------------------------------------------------------- enums of parquet.thrift
TYPE = {0: "BOOLEAN", 1: "INT32", 2: "INT64", 3: "INT96", 4: "FLOAT", 5: "DOUBLE", 6: "BYTE_ARRAY", 7: "FIXED_LEN_BYTE_ARRAY"}
TYPE_ID = {v: k for k, v in TYPE.items()}
ENCODING = {0: "PLAIN", 2: "PLAIN_DICTIONARY", 3: "RLE", 4: "BIT_PACKED", 5: "DELTA_BINARY_PACKED",
            6: "DELTA_LENGTH_BYTE_ARRAY", 7: "DELTA_BYTE_ARRAY", 8: "RLE_DICTIONARY", 9: "BYTE_STREAM_SPLIT"}
ENCODING_ID = {v: k for k, v in ENCODING.items()}
CODEC = dict(pq_codecs.CODEC_NAMES)
CODEC_ID = dict(pq_codecs.CODEC_IDS)
PAGE_TYPE = {0: "DATA_PAGE", 1: "INDEX_PAGE", 2: "DICTIONARY_PAGE", 3: "DATA_PAGE_V2"}
REPETITION = {0: "REQUIRED", 1: "OPTIONAL", 2: "REPEATED"}
REPETITION_ID = {v: k for k, v in REPETITION.items()}
MAX_PAGE_VALUES = 1 << 24        # a page announcing more values than this is treated as malformed (memory guard)
FIXED_WIDTH = {"BOOLEAN": 1, "INT32": 4, "INT64": 8, "INT96": 12, "FLOAT": 4, "DOUBLE": 8}


# ----------------------------------------------------------------------------- Thrift compact protocol
CT_STOP, CT_TRUE, CT_FALSE, CT_BYTE, CT_I16, CT_I32, CT_I64, CT_DOUBLE, CT_BINARY, CT_LIST, CT_SET, CT_MAP, CT_STRUCT = range(13)
CT_NAMES = ["STOP", "TRUE", "FALSE", "BYTE", "I16", "I32", "I64", "DOUBLE", "BINARY", "LIST", "SET", "MAP", "STRUCT"]


class ThriftError(Exception):
    """Malformed compact-protocol data."""


@dataclass
class TField:
    """One field of a struct: id, compact wire type (CT_*; booleans carry CT_TRUE/CT_FALSE), value.
    long_form forces the 'delta 0 + explicit zigzag id' header on encoding."""
    fid: int
    ttype: int
    value: object
    long_form: bool = False


@dataclass
class TStruct:
    """A struct as an ordered list of fields (unknown fields are simply kept)."""
    fields: List[TField] = field(default_factory=list)

    def get(self, fid, default=None):
        """Value of the first field with this id."""
        for f in self.fields:
            if f.fid == fid:
                return f.value
        return default

    def field(self, fid):
        """The first TField with this id, or None."""
        for f in self.fields:
            if f.fid == fid:
                return f
        return None

    def set(self, fid, ttype, value, long_form=False):
        """Replace or append a field (keeps ascending order when appending is possible)."""
        for f in self.fields:
            if f.fid == fid:
                f.ttype, f.value, f.long_form = ttype, value, long_form
                return self
        self.fields.append(TField(fid, ttype, value, long_form))
        self.fields.sort(key=lambda f: f.fid)
        return self

    def remove(self, fid):
        """Drop every field with this id."""
        self.fields = [f for f in self.fields if f.fid != fid]
        return self


@dataclass
class TList:
    """A list or set: element wire type and items.  long_form forces the size to be written as a varint
    even when it is below 15."""
    etype: int
    items: list = field(default_factory=list)
    long_form: bool = False
    is_set: bool = False


@dataclass
class TMap:
    """A map: key/value wire types and (key, value) pairs."""
    ktype: int
    vtype: int
    items: list = field(default_factory=list)


def read_varint(buf, pos, end=None, max_bytes=10):
    """ULEB128 -> (value, new position)."""
    end = len(buf) if end is None else end
    shift = result = 0
    n = 0
    while True:
        if pos >= end:
            raise ThriftError("varint runs past the end")
        b = buf[pos]
        pos += 1
        n += 1
        result |= (b & 0x7F) << shift
        if not b & 0x80:
            return result, pos
        shift += 7
        if n >= max_bytes:
            raise ThriftError("varint longer than %d bytes" % max_bytes)


def write_varint(v):
    """Non-negative int -> ULEB128."""
    out = bytearray()
    while True:
        b = v & 0x7F
        v >>= 7
        if v:
            out.append(b | 0x80)
        else:
            out.append(b)
            return bytes(out)


def zigzag(n, bits=64):
    """Signed -> zigzag unsigned."""
    return ((n << 1) ^ (n >> (bits - 1))) & ((1 << bits) - 1)


def unzigzag(u):
    """Zigzag unsigned -> signed."""
    return (u >> 1) ^ -(u & 1)


def _read_value(buf, pos, end, t, depth):
    """Decode one value of compact wire type t at pos -> (value, new position)."""
    if depth > 64:
        raise ThriftError("nesting deeper than 64")
    if t == CT_TRUE or t == CT_FALSE:          # element of a list/map: one byte
        if pos >= end:
            raise ThriftError("bool past the end")
        return buf[pos] == 1, pos + 1
    if t == CT_BYTE:
        if pos >= end:
            raise ThriftError("byte past the end")
        v = buf[pos]
        return (v - 256 if v > 127 else v), pos + 1
    if t in (CT_I16, CT_I32, CT_I64):
        u, pos = read_varint(buf, pos, end)
        v = unzigzag(u)
        lim = {CT_I16: 15, CT_I32: 31, CT_I64: 63}[t]
        if not -(1 << lim) <= v < (1 << lim):
            raise ThriftError("%s value %d out of range" % (CT_NAMES[t], v))
        return v, pos
    if t == CT_DOUBLE:
        if pos + 8 > end:
            raise ThriftError("double past the end")
        return struct.unpack_from("<d", buf, pos)[0], pos + 8
    if t == CT_BINARY:
        n, pos = read_varint(buf, pos, end)
        if pos + n > end:
            raise ThriftError("binary of %d bytes runs past the end" % n)
        return bytes(buf[pos:pos + n]), pos + n
    if t in (CT_LIST, CT_SET):
        if pos >= end:
            raise ThriftError("list header past the end")
        h = buf[pos]
        pos += 1
        n, et = h >> 4, h & 15
        lf = False
        if n == 15:
            n, pos = read_varint(buf, pos, end)
            lf = True
        if et > CT_STRUCT or et == CT_STOP and n > 0:
            raise ThriftError("bad list element type %d" % et)
        if n > end - pos and et not in (CT_STOP,):
            raise ThriftError("list of %d elements cannot fit in %d bytes" % (n, end - pos))
        items = []
        for _ in range(n):
            v, pos = _read_value(buf, pos, end, et, depth + 1)
            items.append(v)
        return TList(et, items, lf, t == CT_SET), pos
    if t == CT_MAP:
        n, pos = read_varint(buf, pos, end)
        if n == 0:
            return TMap(0, 0, []), pos
        if pos >= end:
            raise ThriftError("map header past the end")
        kt, vt = buf[pos] >> 4, buf[pos] & 15
        pos += 1
        if n > end - pos:
            raise ThriftError("map too large")
        items = []
        for _ in range(n):
            k, pos = _read_value(buf, pos, end, kt, depth + 1)
            v, pos = _read_value(buf, pos, end, vt, depth + 1)
            items.append((k, v))
        return TMap(kt, vt, items), pos
    if t == CT_STRUCT:
        return _read_struct(buf, pos, end, depth + 1)
    raise ThriftError("unknown wire type %d" % t)


def _read_struct(buf, pos, end, depth=0):
    """Decode the fields of a struct up to its stop byte -> (TStruct, new position)."""
    fields, last = [], 0
    while True:
        if pos >= end:
            raise ThriftError("struct without stop byte")
        h = buf[pos]
        pos += 1
        if h == 0:
            return TStruct(fields), pos
        delta, t = h >> 4, h & 15
        lf = False
        if delta == 0:
            u, pos = read_varint(buf, pos, end)
            fid = unzigzag(u)
            lf = True
            if not -32768 <= fid <= 32767:
                raise ThriftError("field id %d out of i16 range" % fid)
        else:
            fid = last + delta
        if t == CT_TRUE:
            v = True
        elif t == CT_FALSE:
            v = False
        elif t == CT_STOP or t > CT_STRUCT:
            raise ThriftError("bad field type %d" % t)
        else:
            v, pos = _read_value(buf, pos, end, t, depth)
        fields.append(TField(fid, t, v, lf))
        last = fid


def thrift_decode_struct(buf, pos=0, end=None):
    """Decode one struct starting at pos -> (TStruct, position after its stop byte).  Raises ThriftError."""
    return _read_struct(buf, pos, len(buf) if end is None else end)


def _write_value(out, t, v):
    """Append the encoding of one value of wire type t."""
    if t in (CT_TRUE, CT_FALSE):
        out.append(1 if v else 2)
    elif t == CT_BYTE:
        out.append(v & 0xFF)
    elif t in (CT_I16, CT_I32, CT_I64):
        out += write_varint(zigzag(v))
    elif t == CT_DOUBLE:
        out += struct.pack("<d", v)
    elif t == CT_BINARY:
        b = v.encode() if isinstance(v, str) else bytes(v)
        out += write_varint(len(b))
        out += b
    elif t in (CT_LIST, CT_SET):
        n = len(v.items)
        if n < 15 and not v.long_form:
            out.append((n << 4) | v.etype)
        else:
            out.append(0xF0 | v.etype)
            out += write_varint(n)
        for it in v.items:
            _write_value(out, v.etype, it)
    elif t == CT_MAP:
        out += write_varint(len(v.items))
        if v.items:
            out.append((v.ktype << 4) | v.vtype)
            for k, x in v.items:
                _write_value(out, v.ktype, k)
                _write_value(out, v.vtype, x)
    elif t == CT_STRUCT:
        _write_struct(out, v)
    else:
        raise ThriftError("cannot encode wire type %d" % t)


def _write_struct(out, ts):
    """Append the encoding of a struct (short field headers when the id delta allows it)."""
    last = 0
    for f in ts.fields:
        t = f.ttype
        if t in (CT_TRUE, CT_FALSE):
            t = CT_TRUE if f.value else CT_FALSE
        delta = f.fid - last
        if 0 < delta <= 15 and not f.long_form:
            out.append((delta << 4) | t)
        else:
            out.append(t)
            out += write_varint(zigzag(f.fid, 16) if f.fid < 0 else zigzag(f.fid))
        if t not in (CT_TRUE, CT_FALSE):
            _write_value(out, t, f.value)
        last = f.fid
    out.append(0)


def thrift_encode_struct(ts):
    """TStruct -> bytes (fields in the order given; short headers where the id delta allows it)."""
    out = bytearray()
    _write_struct(out, ts)
    return bytes(out)


# ---- named views: struct name -> {field id: (name, kind, required)}
# kind: bool i8 i16 i32 i64 double binary string | ('list', kind) | ('struct', Name)
SPEC = {
    "FileMetaData": {1: ("version", "i32", True), 2: ("schema", ("list", ("struct", "SchemaElement")), True),
                     3: ("num_rows", "i64", True), 4: ("row_groups", ("list", ("struct", "RowGroup")), True),
                     5: ("key_value_metadata", ("list", ("struct", "KeyValue")), False), 6: ("created_by", "string", False),
                     7: ("column_orders", ("list", ("struct", "ColumnOrder")), False),
                     8: ("encryption_algorithm", ("struct", "Opaque"), False), 9: ("footer_signing_key_metadata", "binary", False)},
    "SchemaElement": {1: ("type", "i32", False), 2: ("type_length", "i32", False), 3: ("repetition_type", "i32", False),
                      4: ("name", "string", True), 5: ("num_children", "i32", False), 6: ("converted_type", "i32", False),
                      7: ("scale", "i32", False), 8: ("precision", "i32", False), 9: ("field_id", "i32", False),
                      10: ("logicalType", ("struct", "LogicalType"), False)},
    "RowGroup": {1: ("columns", ("list", ("struct", "ColumnChunk")), True), 2: ("total_byte_size", "i64", True),
                 3: ("num_rows", "i64", True), 4: ("sorting_columns", ("list", ("struct", "SortingColumn")), False),
                 5: ("file_offset", "i64", False), 6: ("total_compressed_size", "i64", False), 7: ("ordinal", "i16", False)},
    "ColumnChunk": {1: ("file_path", "string", False), 2: ("file_offset", "i64", True), 3: ("meta_data", ("struct", "ColumnMetaData"), False),
                    4: ("offset_index_offset", "i64", False), 5: ("offset_index_length", "i32", False),
                    6: ("column_index_offset", "i64", False), 7: ("column_index_length", "i32", False),
                    8: ("crypto_metadata", ("struct", "ColumnCryptoMetaData"), False), 9: ("encrypted_column_metadata", "binary", False)},
    "ColumnMetaData": {1: ("type", "i32", True), 2: ("encodings", ("list", "i32"), True), 3: ("path_in_schema", ("list", "string"), True),
                       4: ("codec", "i32", True), 5: ("num_values", "i64", True), 6: ("total_uncompressed_size", "i64", True),
                       7: ("total_compressed_size", "i64", True), 8: ("key_value_metadata", ("list", ("struct", "KeyValue")), False),
                       9: ("data_page_offset", "i64", True), 10: ("index_page_offset", "i64", False),
                       11: ("dictionary_page_offset", "i64", False), 12: ("statistics", ("struct", "Statistics"), False),
                       13: ("encoding_stats", ("list", ("struct", "PageEncodingStats")), False),
                       14: ("bloom_filter_offset", "i64", False), 15: ("bloom_filter_length", "i32", False),
                       16: ("size_statistics", ("struct", "Opaque"), False)},
    "Statistics": {1: ("max", "binary", False), 2: ("min", "binary", False), 3: ("null_count", "i64", False),
                   4: ("distinct_count", "i64", False), 5: ("max_value", "binary", False), 6: ("min_value", "binary", False),
                   7: ("is_max_value_exact", "bool", False), 8: ("is_min_value_exact", "bool", False)},
    "PageHeader": {1: ("type", "i32", True), 2: ("uncompressed_page_size", "i32", True), 3: ("compressed_page_size", "i32", True),
                   4: ("crc", "i32", False), 5: ("data_page_header", ("struct", "DataPageHeader"), False),
                   6: ("index_page_header", ("struct", "Opaque"), False), 7: ("dictionary_page_header", ("struct", "DictionaryPageHeader"), False),
                   8: ("data_page_header_v2", ("struct", "DataPageHeaderV2"), False)},
    "DataPageHeader": {1: ("num_values", "i32", True), 2: ("encoding", "i32", True), 3: ("definition_level_encoding", "i32", True),
                       4: ("repetition_level_encoding", "i32", True), 5: ("statistics", ("struct", "Statistics"), False)},
    "DictionaryPageHeader": {1: ("num_values", "i32", True), 2: ("encoding", "i32", True), 3: ("is_sorted", "bool", False)},
    "DataPageHeaderV2": {1: ("num_values", "i32", True), 2: ("num_nulls", "i32", True), 3: ("num_rows", "i32", True),
                         4: ("encoding", "i32", True), 5: ("definition_levels_byte_length", "i32", True),
                         6: ("repetition_levels_byte_length", "i32", True), 7: ("is_compressed", "bool", False),
                         8: ("statistics", ("struct", "Statistics"), False)},
    "KeyValue": {1: ("key", "string", True), 2: ("value", "string", False)},
    "ColumnOrder": {1: ("TYPE_ORDER", ("struct", "Opaque"), False)},
    "PageEncodingStats": {1: ("page_type", "i32", True), 2: ("encoding", "i32", True), 3: ("count", "i32", True)},
    "SortingColumn": {1: ("column_idx", "i32", True), 2: ("descending", "bool", True), 3: ("nulls_first", "bool", True)},
    # LogicalType is a union: one member; the members with parameters have REQUIRED fields (parquet.thrift)
    "LogicalType": {1: ("STRING", ("struct", "Opaque"), False), 2: ("MAP", ("struct", "Opaque"), False),
                    3: ("LIST", ("struct", "Opaque"), False), 4: ("ENUM", ("struct", "Opaque"), False),
                    5: ("DECIMAL", ("struct", "DecimalType"), False), 6: ("DATE", ("struct", "Opaque"), False),
                    7: ("TIME", ("struct", "TimeType"), False), 8: ("TIMESTAMP", ("struct", "TimestampType"), False),
                    10: ("INTEGER", ("struct", "IntType"), False), 11: ("UNKNOWN", ("struct", "Opaque"), False),
                    12: ("JSON", ("struct", "Opaque"), False), 13: ("BSON", ("struct", "Opaque"), False),
                    14: ("UUID", ("struct", "Opaque"), False), 15: ("FLOAT16", ("struct", "Opaque"), False),
                    16: ("VARIANT", ("struct", "Opaque"), False), 17: ("GEOMETRY", ("struct", "Opaque"), False),
                    18: ("GEOGRAPHY", ("struct", "Opaque"), False)},
    "DecimalType": {1: ("scale", "i32", True), 2: ("precision", "i32", True)},
    "TimeType": {1: ("isAdjustedToUTC", "bool", True), 2: ("unit", ("struct", "TimeUnit"), True)},
    "TimestampType": {1: ("isAdjustedToUTC", "bool", True), 2: ("unit", ("struct", "TimeUnit"), True)},
    "TimeUnit": {1: ("MILLIS", ("struct", "Opaque"), False), 2: ("MICROS", ("struct", "Opaque"), False),
                 3: ("NANOS", ("struct", "Opaque"), False)},
    "IntType": {1: ("bitWidth", "i8", True), 2: ("isSigned", "bool", True)},
    "ColumnCryptoMetaData": {1: ("ENCRYPTION_WITH_FOOTER_KEY", ("struct", "Opaque"), False),
                             2: ("ENCRYPTION_WITH_COLUMN_KEY", ("struct", "EncryptionWithColumnKey"), False)},
    "EncryptionWithColumnKey": {1: ("path_in_schema", ("list", "string"), True), 2: ("key_metadata", "binary", False)},
    "Opaque": {},
}
_KIND_CT = {"bool": (CT_TRUE, CT_FALSE), "i8": (CT_BYTE,), "i16": (CT_I16,), "i32": (CT_I32,), "i64": (CT_I64,),
            "double": (CT_DOUBLE,), "binary": (CT_BINARY,), "string": (CT_BINARY,)}


def _kind_ok(kind, ttype):
    """Does compact wire type `ttype` fit the declared kind of a field?"""
    if isinstance(kind, tuple):
        return ttype in ((CT_LIST, CT_SET) if kind[0] == "list" else (CT_STRUCT,))
    return ttype in _KIND_CT[kind]


def named(ts, sname, where="", problems=None):
    """TStruct -> dict keyed by the field names of parquet.thrift struct `sname` (nested structs and lists
    converted recursively; strings stay bytes).  Unknown fields go to dict['_unknown'] = [TField];
    the original TStruct is dict['_raw'].  Missing required fields and wrong wire types are appended to
    `problems` as (clause, where, detail)."""
    spec = SPEC[sname]
    out = {"_raw": ts, "_unknown": []}
    problems = problems if problems is not None else []
    seen = set()
    for f in ts.fields:
        if f.fid not in spec:
            if sname != "Opaque":
                out["_unknown"].append(f)
            continue
        name, kind, _ = spec[f.fid]
        if f.fid in seen:
            problems.append(("thrift_duplicate_field", where, f"{sname}.{name} occurs twice"))
            continue
        seen.add(f.fid)
        if not _kind_ok(kind, f.ttype):
            problems.append(("thrift_field_type", where, f"{sname}.{name}: wire type {CT_NAMES[f.ttype]} for {kind}"))
            continue
        out[name] = _conv(f.value, kind, f"{where}.{name}", problems)
    for fid, (name, kind, req) in spec.items():
        if req and name not in out:
            problems.append(("thrift_required_field", where, f"{sname}.{name} is missing"))
    return out


def _conv(v, kind, where, problems):
    """Convert a decoded Thrift value to its named form (structs -> dicts, lists -> Python lists)."""
    if isinstance(kind, tuple):
        if kind[0] == "struct":
            return named(v, kind[1], where, problems)
        ek = kind[1]
        items = []
        for i, it in enumerate(v.items):
            if isinstance(ek, tuple):
                if v.etype != CT_STRUCT:
                    problems.append(("thrift_field_type", where, "list element type %s, struct expected" % CT_NAMES[v.etype]))
                    break
                items.append(named(it, ek[1], f"{where}[{i}]", problems))
            else:
                if v.etype not in _KIND_CT[ek]:
                    problems.append(("thrift_field_type", where, "list element type %s for %s" % (CT_NAMES[v.etype], ek)))
                    break
                items.append(it)
        return items
    return v


# ----------------------------------------------------------------------------- encodings

class DecodeError(Exception):
    """A page body does not follow the encoding it announces."""


def bit_width(max_level):
    """Number of bits needed for values 0..max_level."""
    return max_level.bit_length()


def rle_hybrid_decode(buf, pos, end, width, count, runs_out=None):
    """Decode `count` values of the RLE/bit-packed hybrid (Encodings.md) from buf[pos:end].
    Returns (values, position after the last run used).  Zero-length runs are skipped; a bit-packed run
    may carry more values than needed (padding of the last group); values of an RLE run must fit the
    width.  runs_out (a list) receives ('rle', n, value) / ('bp', groups) for every run read."""
    vals = []
    if width < 0 or width > 32:
        raise DecodeError("bit width %d" % width)
    vbytes = (width + 7) // 8
    mask = (1 << width) - 1
    while len(vals) < count:
        if pos >= end:
            raise DecodeError("levels/indices end after %d of %d values" % (len(vals), count))
        try:
            h, pos = read_varint(buf, pos, end, 5)
        except ThriftError as e:
            raise DecodeError("run header: %s" % e)
        if h & 1:
            groups = h >> 1
            nbytes = groups * width
            if pos + nbytes > end:
                # the specification requires whole groups; writers exist that cut the final group short
                raise DecodeError("bit-packed run of %d groups needs %d bytes, %d left" % (groups, nbytes, end - pos))
            if runs_out is not None:
                runs_out.append(("bp", groups))
            if width:
                acc = int.from_bytes(buf[pos:pos + nbytes], "little")
                need = min(groups * 8, count - len(vals))
                for i in range(need):
                    vals.append((acc >> (i * width)) & mask)
            else:
                vals.extend([0] * min(groups * 8, count - len(vals)))
            pos += nbytes
        else:
            n = h >> 1
            if pos + vbytes > end:
                raise DecodeError("RLE run value past the end")
            v = int.from_bytes(buf[pos:pos + vbytes], "little")
            pos += vbytes
            if v > mask:
                raise DecodeError("RLE run value %d does not fit %d bits" % (v, width))
            if runs_out is not None:
                runs_out.append(("rle", n, v))
            vals.extend([v] * min(n, count - len(vals)))
    return vals, pos


def rle_hybrid_encode(values, width, plan=None):
    """Encode values in the hybrid.  plan = list of run descriptions consumed left to right:
        ('rle', n)   an RLE run of the next n values (they must be equal; n = 0 gives a zero-length run)
        ('bp', g)    a bit-packed run of g groups = the next 8*g values (padded with zeros at the very end
                     of the stream only; g = 0 gives an empty bit-packed run)
    Default plan: RLE runs for repeats of >= 8, bit-packed groups otherwise (multi-group runs).
    The plan must cover all values."""
    vbytes = (width + 7) // 8
    out = bytearray()
    n = len(values)
    if plan is None:
        plan = default_plan(values)
    pos = 0
    for run in plan:
        if run[0] == "rle":
            k = run[1]
            v = values[pos] if pos < n else 0
            if k and any(x != v for x in values[pos:pos + k]):
                raise ValueError("RLE run over unequal values")
            out += write_varint(k << 1)
            out += int(v).to_bytes(vbytes, "little")
            pos += k
        else:
            g = run[1]
            chunk = list(values[pos:pos + 8 * g])
            pos += len(chunk)
            chunk += [0] * (8 * g - len(chunk))
            out += write_varint((g << 1) | 1)
            acc = 0
            for i, v in enumerate(chunk):
                acc |= (int(v) & ((1 << width) - 1)) << (i * width)
            out += acc.to_bytes(g * width, "little")
    if pos < n:
        raise ValueError("plan covers %d of %d values" % (pos, n))
    return bytes(out)


def default_plan(values):
    """A sensible run plan: repeats of >= 8 as RLE runs (starting at a group boundary of the pending
    bit-packed run), everything else in multi-group bit-packed runs."""
    n = len(values)
    plan, i, pend = [], 0, 0        # pend = values waiting for a bit-packed run
    while i < n:
        j = i
        while j < n and values[j] == values[i]:
            j += 1
        run = j - i
        fill = (-pend) % 8           # values needed to complete the pending group
        if run - fill >= 8:
            pend += fill
            if pend:
                plan.append(("bp", pend // 8))
                pend = 0
            plan.append(("rle", run - fill))
        else:
            pend += run
        i = j
    if pend:
        plan.append(("bp", (pend + 7) // 8))
    return plan


def random_plan(rng, values, zero_runs=True):
    """A random legal plan: any mix of RLE runs (over equal stretches, any length >= 1), bit-packed runs of
    1..4 groups, and (zero_runs) occasional zero-length runs of both kinds."""
    n = len(values)
    plan, i = [], 0
    while i < n:
        r = rng.random()
        if r < 0.08 and zero_runs:
            plan.append(("rle", 0) if rng.random() < 0.5 else ("bp", 0))
            continue
        j = i
        while j < n and values[j] == values[i]:
            j += 1
        if r < 0.5:
            k = rng.randrange(1, j - i + 1)
            plan.append(("rle", k))
            i += k
        else:
            g = rng.randrange(1, 5)
            if i + 8 * g >= n:
                g = (n - i + 7) // 8          # padding only at the end of the stream
                plan.append(("bp", g))
                i = n
            else:
                plan.append(("bp", g))
                i += 8 * g
    if zero_runs and rng.random() < 0.1:
        plan.append(("rle", 0))
    return plan


def bitpacked_levels_decode(buf, pos, end, width, count):
    """Deprecated BIT_PACKED level encoding: values packed back to back, most significant bit first,
    no length prefix; ceil(count*width/8) bytes."""
    nbytes = (count * width + 7) // 8
    if pos + nbytes > end:
        raise DecodeError("BIT_PACKED levels past the end")
    acc = int.from_bytes(buf[pos:pos + nbytes], "big")
    total = nbytes * 8
    vals = [(acc >> (total - (i + 1) * width)) & ((1 << width) - 1) for i in range(count)] if width else [0] * count
    return vals, pos + nbytes


def bitpacked_levels_encode(values, width):
    """Inverse of bitpacked_levels_decode."""
    nbits = len(values) * width
    nbytes = (nbits + 7) // 8
    acc = 0
    for v in values:
        acc = (acc << width) | (int(v) & ((1 << width) - 1))
    acc <<= nbytes * 8 - nbits
    return acc.to_bytes(nbytes, "big")


def plain_decode(ptype, buf, pos, end, n, tlen=0):
    """PLAIN decoding of n values -> (list of bytes, new position)."""
    if n < 0:
        raise DecodeError("negative value count")
    if ptype == "BOOLEAN":
        nbytes = (n + 7) // 8
        if pos + nbytes > end:
            raise DecodeError("PLAIN BOOLEAN: %d values need %d bytes, %d left" % (n, nbytes, end - pos))
        return [bytes([(buf[pos + i // 8] >> (i % 8)) & 1]) for i in range(n)], pos + nbytes
    if ptype == "BYTE_ARRAY":
        vals = []
        for i in range(n):
            if pos + 4 > end:
                raise DecodeError("PLAIN BYTE_ARRAY: length of value %d past the end" % i)
            ln = struct.unpack_from("<I", buf, pos)[0]
            pos += 4
            if ln > end - pos:
                raise DecodeError("PLAIN BYTE_ARRAY: value %d of %d bytes past the end" % (i, ln))
            vals.append(bytes(buf[pos:pos + ln]))
            pos += ln
        return vals, pos
    w = tlen if ptype == "FIXED_LEN_BYTE_ARRAY" else FIXED_WIDTH.get(ptype)
    if not w or w < 0:
        raise DecodeError("no width for type %s (type_length %s)" % (ptype, tlen))
    if pos + n * w > end:
        raise DecodeError("PLAIN %s: %d values need %d bytes, %d left" % (ptype, n, n * w, end - pos))
    return [bytes(buf[pos + i * w:pos + (i + 1) * w]) for i in range(n)], pos + n * w


def plain_encode(ptype, values, tlen=0):
    """PLAIN encoding of a list of raw values."""
    if ptype == "BOOLEAN":
        out = bytearray((len(values) + 7) // 8)
        for i, v in enumerate(values):
            if v[0]:
                out[i // 8] |= 1 << (i % 8)
        return bytes(out)
    if ptype == "BYTE_ARRAY":
        return b"".join(struct.pack("<I", len(v)) + v for v in values)
    return b"".join(values)


# ----------------------------------------------------------------------------- schema

@dataclass
class Leaf:
    """A leaf column: dotted path parts, physical type, type_length, maximum levels, the repetition types
    along the path (root excluded), index of the schema element."""
    path: List[str]
    ptype: Optional[str]
    type_length: int
    max_def: int
    max_rep: int
    reps: List[str]
    element: int


def build_leaves(schema, problems):
    """Schema element list (named dicts) -> [Leaf] by depth-first traversal (README: schema is the
    flattened tree in depth-first order, num_children on groups)."""
    leaves = []
    if not schema:
        problems.append(("schema", "schema", "empty schema list"))
        return leaves
    pos = [1]

    def walk(nchildren, path, d, r, reps):
        """Depth-first traversal of `nchildren` children starting at the cursor."""
        for _ in range(nchildren):
            if pos[0] >= len(schema):
                problems.append(("schema", "schema", "num_children runs past the element list"))
                return
            idx = pos[0]
            e = schema[idx]
            pos[0] += 1
            rep = e.get("repetition_type")
            if rep is None:
                problems.append(("schema", f"schema[{idx}]", "non-root element without repetition_type"))
                rep = 0
            if rep not in REPETITION:
                problems.append(("schema", f"schema[{idx}]", f"repetition_type {rep}"))
                rep = 0
            nm = e.get("name", b"")
            name = nm.decode("utf-8", "replace") if isinstance(nm, bytes) else str(nm)
            d2 = d + (1 if rep in (1, 2) else 0)
            r2 = r + (1 if rep == 2 else 0)
            nc = e.get("num_children")
            if nc:                                   # group
                if e.get("type") is not None:
                    problems.append(("schema", f"schema[{idx}]", "group element with a physical type"))
                if nc < 0:
                    problems.append(("schema", f"schema[{idx}]", f"num_children {nc}"))
                    continue
                walk(nc, path + [name], d2, r2, reps + [REPETITION[rep]])
            else:
                t = e.get("type")
                if t is None or t not in TYPE:
                    problems.append(("schema", f"schema[{idx}]", f"leaf element with type {t}"))
                tl = e.get("type_length") or 0
                if t == 7 and tl <= 0:
                    problems.append(("schema", f"schema[{idx}]", "FIXED_LEN_BYTE_ARRAY without positive type_length"))
                leaves.append(Leaf(path + [name], TYPE.get(t), tl, d2, r2, reps + [REPETITION[rep]], idx))

    root = schema[0]
    if root.get("type") is not None:
        problems.append(("schema", "schema[0]", "root element with a physical type"))
    nc = root.get("num_children")
    if nc is None:
        problems.append(("schema", "schema[0]", "root without num_children"))
        nc = 0
    walk(nc, [], 0, 0, [])
    if pos[0] != len(schema):
        problems.append(("schema", "schema", f"{len(schema) - pos[0]} schema elements not reachable from the root"))
    return leaves


# ----------------------------------------------------------------------------- parsed file

@dataclass
class Violation:
    """One structural finding: clause (short stable identifier), where (e.g. 'rg0.col1.page2'), detail,
    severity 'error' (the file is not valid Parquet / does not say what it should) or 'warn'."""
    clause: str
    where: str
    detail: str
    severity: str = "error"

    def __str__(self):
        """One line: [severity] clause @ where: detail."""
        return f"[{self.severity}] {self.clause} @ {self.where}: {self.detail}"


@dataclass
class Page:
    """One page of a column chunk as stored: header position/length, named header, body position, kind,
    and (after decoding) levels and values."""
    offset: int
    header_len: int
    header: dict
    body_offset: int
    compressed_size: int
    uncompressed_size: int
    kind: str                       # DATA_PAGE | DICTIONARY_PAGE | DATA_PAGE_V2 | INDEX_PAGE | type number
    num_values: int = 0
    encoding: Optional[str] = None
    defs: Optional[List[int]] = None
    reps: Optional[List[int]] = None
    values: Optional[list] = None   # non-null values (data pages) / dictionary entries (dictionary page)
    crc: Optional[int] = None
    decoded: bool = False
    level_runs: list = field(default_factory=list)


@dataclass
class Chunk:
    """One column chunk: metadata (named dict), leaf, location and pages."""
    rg: int
    col: int
    meta: dict
    cc: dict
    leaf: Optional[Leaf]
    start: int = -1
    end: int = -1
    pages: List[Page] = field(default_factory=list)
    dictionary: Optional[list] = None
    chain_ok: bool = False


class ParsedFile:
    """Result of read_file: everything that could be parsed plus the violations met on the way."""

    def __init__(self, data):
        """data: the file's bytes."""
        self.data = bytes(data)
        self.violations: List[Violation] = []
        self.fatal = False
        self.footer_start = -1
        self.footer_len = -1
        self.meta = None            # named FileMetaData
        self.leaves: List[Leaf] = []
        self.chunks: List[List[Chunk]] = []      # [row group][column]
        self._validated = False

    # -- reporting
    def _v(self, clause, where, detail, severity="error"):
        """Append a Violation."""
        self.violations.append(Violation(clause, where, detail, severity))

    def errors(self):
        """Violations of severity 'error' (after validate())."""
        return [v for v in self.validate() if v.severity == "error"]

    # -- content
    def num_rows(self):
        """FileMetaData.num_rows."""
        return self.meta.get("num_rows") if self.meta else None

    def rg_rows(self):
        """num_rows of every row group."""
        return [rg.get("num_rows") for rg in (self.meta.get("row_groups") or [])] if self.meta else []

    def levels(self):
        """[row group][column] -> (def levels, rep levels, non-null values) concatenated over the data pages;
        None for a chunk that could not be decoded."""
        out = []
        for rg in self.chunks:
            row = []
            for ch in rg:
                if ch is None or not ch.chain_ok or any(not p.decoded for p in ch.pages if p.kind in ("DATA_PAGE", "DATA_PAGE_V2", "DICTIONARY_PAGE")):
                    row.append(None)
                    continue
                d, r, v = [], [], []
                for p in ch.pages:
                    if p.kind in ("DATA_PAGE", "DATA_PAGE_V2"):
                        d += p.defs
                        r += p.reps
                        v += p.values
                row.append((d, r, v))
            out.append(row)
        return out

    def table(self):
        """[row group][column] -> rows (bytes | None) for flat columns (max_rep = 0); a column that could not
        be decoded is None."""
        out = []
        for rg, lv in zip(self.chunks, self.levels()):
            row = []
            for ch, x in zip(rg, lv):
                if x is None or ch.leaf is None:
                    row.append(None)
                    continue
                d, r, v = x
                rows, k = [], 0
                for lev in d:
                    if lev == ch.leaf.max_def:
                        rows.append(v[k] if k < len(v) else None)
                        k += 1
                    else:
                        rows.append(None)
                row.append(rows)
            out.append(row)
        return out

    def schema_summary(self):
        """[(dotted name, type, repetition of the leaf, type_length)] for comparison with what was written."""
        return [(".".join(l.path), l.ptype, l.reps[-1] if l.reps else None, l.type_length) for l in self.leaves]

    def page_bodies(self):
        """[(rg, col, page index, body offset, body length, kind)] of every stored page body."""
        out = []
        for rg in self.chunks:
            for ch in rg:
                if ch is None:
                    continue
                for i, p in enumerate(ch.pages):
                    out.append((ch.rg, ch.col, i, p.body_offset, p.compressed_size, p.kind))
        return out

    # -- validation
    def validate(self):
        """All violations: those met while parsing plus the cross-checks of property C05:
        magic at both ends, footer length, required Thrift fields, schema tree, chunk placement (inside the
        data region, tiling it without gap or overlap), page headers chaining exactly through each chunk,
        value/row counts adding up pages -> chunk -> row group -> file, encodings and codec tags consistent
        with the pages, stored CRC == CRC-32 of the stored page bytes, compressed/uncompressed sizes per page,
        chunk and row group (both totals include the page headers, parquet.thrift)."""
        if not self._validated:
            self._validated = True
            if not self.fatal:
                self._cross_checks()
        return list(self.violations)

    def _cross_checks(self):
        """Counts, sizes, encodings lists and tiling of the data region (second half of validate())."""
        m = self.meta
        rgs = m.get("row_groups") or []
        # counts rg -> file
        if m.get("num_rows") is not None:
            s = sum((rg.get("num_rows") or 0) for rg in rgs)
            if s != m["num_rows"]:
                self._v("count_file_rows", "footer", f"num_rows {m['num_rows']} but row groups sum to {s}")
        if m.get("version") not in (1, 2):
            self._v("version", "footer", f"version {m.get('version')}", "warn")
        regions = []
        for r, rg in enumerate(rgs):
            chs = self.chunks[r] if r < len(self.chunks) else []
            if (rg.get("num_rows") or 0) < 0:
                self._v("count_rg_rows", f"rg{r}", f"num_rows {rg.get('num_rows')}")
            if (rg.get("num_rows") or 0) == 0:
                self._v("empty_row_group", f"rg{r}", "row group with zero rows", "warn")
            tot_u = tot_c = 0
            have = True
            for ch in chs:
                if ch is None or ch.meta is None:
                    have = False
                    continue
                where = f"rg{r}.col{ch.col}"
                md = ch.meta
                tot_u += md.get("total_uncompressed_size") or 0
                tot_c += md.get("total_compressed_size") or 0
                if ch.start >= 0:
                    regions.append((ch.start, ch.end, where))
                if not ch.chain_ok:
                    continue
                datap = [p for p in ch.pages if p.kind in ("DATA_PAGE", "DATA_PAGE_V2")]
                nv = sum(p.num_values for p in datap)
                if md.get("num_values") is not None and nv != md["num_values"]:
                    self._v("count_chunk_values", where, f"num_values {md['num_values']} but data pages sum to {nv}")
                if ch.leaf is not None and all(p.decoded for p in datap):
                    if ch.leaf.max_rep == 0:
                        rows = nv
                    else:
                        rows = sum(1 for p in datap for x in p.reps if x == 0)
                    if rg.get("num_rows") is not None and rows != rg["num_rows"]:
                        self._v("count_rg_rows", where, f"row group has {rg['num_rows']} rows, column chunk holds {rows}")
                su = sum(p.header_len + p.uncompressed_size for p in ch.pages)
                sc = sum(p.header_len + p.compressed_size for p in ch.pages)
                if md.get("total_compressed_size") is not None and sc != md["total_compressed_size"]:
                    self._v("size_chunk_compressed", where, f"total_compressed_size {md['total_compressed_size']} but pages incl. headers occupy {sc}")
                if md.get("total_uncompressed_size") is not None and su != md["total_uncompressed_size"]:
                    self._v("size_chunk_uncompressed", where,
                            f"total_uncompressed_size {md['total_uncompressed_size']} but uncompressed pages incl. headers are {su} "
                            f"(without headers {su - sum(p.header_len for p in ch.pages)})")
                # encodings list vs pages
                listed = set(md.get("encodings") or [])
                used = set()
                for p in ch.pages:
                    if p.encoding is not None:
                        used.add(ENCODING_ID.get(p.encoding, -1))
                    if p.kind == "DATA_PAGE" and ch.leaf is not None:
                        h = p.header.get("data_page_header") or {}
                        if ch.leaf.max_def > 0 and h.get("definition_level_encoding") is not None:
                            used.add(h["definition_level_encoding"])
                        if ch.leaf.max_rep > 0 and h.get("repetition_level_encoding") is not None:
                            used.add(h["repetition_level_encoding"])
                    if p.kind == "DATA_PAGE_V2" and ch.leaf is not None and (ch.leaf.max_def > 0 or ch.leaf.max_rep > 0):
                        used.add(3)
                for e in sorted(used - listed):
                    self._v("encodings_list", where, f"pages use encoding {ENCODING.get(e, e)} which ColumnMetaData.encodings does not list")
                for e in sorted(listed - used):
                    self._v("encodings_list", where, f"ColumnMetaData.encodings lists {ENCODING.get(e, e)} which no page uses", "warn")
                st = md.get("statistics")
                if st and st.get("null_count") is not None and all(p.decoded for p in datap) and ch.leaf is not None:
                    nulls = sum(1 for p in datap for x in p.defs if x < ch.leaf.max_def)
                    if nulls != st["null_count"]:
                        self._v("statistics_null_count", where, f"null_count {st['null_count']}, actual {nulls}", "warn")
            if have and chs:
                if rg.get("total_byte_size") is not None and rg["total_byte_size"] != tot_u:
                    self._v("size_rg_uncompressed", f"rg{r}", f"total_byte_size {rg['total_byte_size']} but chunks' total_uncompressed_size sum to {tot_u}")
                if rg.get("total_compressed_size") is not None and rg["total_compressed_size"] != tot_c:
                    self._v("size_rg_compressed", f"rg{r}", f"total_compressed_size {rg['total_compressed_size']} but chunks sum to {tot_c}")
                starts = [c.start for c in chs if c is not None and c.start >= 0]
                if rg.get("file_offset") is not None and starts and rg["file_offset"] != min(starts):
                    self._v("rg_file_offset", f"rg{r}", f"file_offset {rg['file_offset']} but first chunk starts at {min(starts)}", "warn")
        # auxiliary regions (page index, bloom filters) count as covered
        for r, rg in enumerate(rgs):
            for c, cc in enumerate(rg.get("columns") or []):
                for off, ln, nm in (("offset_index_offset", "offset_index_length", "offset_index"),
                                    ("column_index_offset", "column_index_length", "column_index")):
                    if cc.get(off) is not None and cc.get(ln) is not None:
                        regions.append((cc[off], cc[off] + cc[ln], f"rg{r}.col{c}.{nm}"))
                md = cc.get("meta_data") or {}
                if md.get("bloom_filter_offset") is not None and md.get("bloom_filter_length") is not None:
                    regions.append((md["bloom_filter_offset"], md["bloom_filter_offset"] + md["bloom_filter_length"], f"rg{r}.col{c}.bloom"))
        # tiling of the data region [4, footer_start)
        regions.sort()
        cur = 4
        for s, e, w in regions:
            if s < 4 or e > self.footer_start or e < s:
                self._v("chunk_outside_data_region", w, f"bytes [{s},{e}) not inside the data region [4,{self.footer_start})")
                continue
            if s > cur:
                self._v("chunk_gap", w, f"{s - cur} unaccounted bytes [{cur},{s}) before this region")
            elif s < cur:
                self._v("chunk_overlap", w, f"region starts at {s} but the previous one ends at {cur}")
            cur = max(cur, e)
        if cur < self.footer_start and (regions or self.footer_start > 4):
            self._v("chunk_gap", "footer", f"{self.footer_start - cur} unaccounted bytes [{cur},{self.footer_start}) before the footer")


def _i32(crc):
    """Signed i32 as read from Thrift -> unsigned 32-bit value."""
    return crc & 0xFFFFFFFF


def read_file(data, decode_values=True):
    """Parse a Parquet file held in memory -> ParsedFile.  Never raises on malformed input: whatever is wrong
    is recorded in .violations (and .fatal is set when the footer cannot be used at all)."""
    try:
        return _read_file(data, decode_values)
    except (RecursionError, MemoryError, ValueError, TypeError, IndexError, KeyError, OverflowError, struct.error, AttributeError) as e:
        pf = ParsedFile(data)
        pf._v("unreadable", "file", f"the file cannot be interpreted at all ({type(e).__name__}: {e})")
        pf.fatal = True
        return pf


def _read_file(data, decode_values):
    """read_file without the last-resort guard."""
    pf = ParsedFile(data)
    d = pf.data
    n = len(d)
    if n < 12:
        pf._v("file_too_short", "file", f"{n} bytes")
        pf.fatal = True
        return pf
    if d[:4] != MAGIC:
        pf._v("magic_head", "file", f"first bytes {d[:4].hex()}")
    if d[-4:] != MAGIC:
        pf._v("magic_tail", "file", f"last bytes {d[-4:].hex()}")
        pf.fatal = True
        return pf
    flen = struct.unpack_from("<I", d, n - 8)[0]
    pf.footer_len = flen
    if flen == 0 or flen > n - 12:
        pf._v("footer_length", "file", f"footer length {flen} in a file of {n} bytes")
        pf.fatal = True
        return pf
    fs = n - 8 - flen
    pf.footer_start = fs
    try:
        ts, endpos = thrift_decode_struct(d, fs, n - 8)
    except ThriftError as e:
        pf._v("footer_thrift", "footer", str(e))
        pf.fatal = True
        return pf
    if endpos != n - 8:
        pf._v("footer_length", "footer", f"FileMetaData ends {n - 8 - endpos} bytes before the footer length field")
    problems = []
    pf.meta = named(ts, "FileMetaData", "footer", problems)
    for c, w, det in problems:
        pf._v(c, w, det)
    m = pf.meta
    if m.get("schema") is None or m.get("row_groups") is None:
        pf.fatal = True
        return pf
    problems = []
    pf.leaves = build_leaves(m["schema"], problems)
    for c, w, det in problems:
        pf._v(c, w, det)
    for r, rg in enumerate(m["row_groups"]):
        cols = rg.get("columns") or []
        if len(cols) != len(pf.leaves):
            pf._v("rg_columns", f"rg{r}", f"{len(cols)} column chunks for {len(pf.leaves)} leaf columns")
        row = []
        for c, cc in enumerate(cols):
            leaf = pf.leaves[c] if c < len(pf.leaves) else None
            row.append(_read_chunk(pf, r, c, cc, leaf, decode_values))
        pf.chunks.append(row)
    return pf


def _read_chunk(pf, r, c, cc, leaf, decode_values):
    """Locate one column chunk, walk its chain of pages, check CRCs and decode the pages."""
    where = f"rg{r}.col{c}"
    md = cc.get("meta_data")
    ch = Chunk(r, c, md, cc, leaf)
    if md is None:
        pf._v("chunk_metadata", where, "ColumnChunk without meta_data")
        return ch
    if cc.get("file_path") is not None:
        pf._v("chunk_external_file", where, "column chunk in another file", "warn")
    need = ("type", "codec", "num_values", "total_compressed_size", "data_page_offset")
    if any(md.get(k) is None for k in need):
        return ch
    d = pf.data
    if leaf is not None:
        if TYPE.get(md["type"]) != leaf.ptype:
            pf._v("chunk_type", where, f"chunk type {TYPE.get(md['type'], md['type'])} but schema says {leaf.ptype}")
        pis = [x.decode("utf-8", "replace") if isinstance(x, bytes) else x for x in (md.get("path_in_schema") or [])]
        if pis != leaf.path:
            pf._v("chunk_path", where, f"path_in_schema {pis} but the schema leaf is {leaf.path}")
    codec = md["codec"]
    if codec not in CODEC:
        pf._v("codec_tag", where, f"unknown codec {codec}")
    dpo, dico = md["data_page_offset"], md.get("dictionary_page_offset")
    start = dico if (dico is not None and dico > 0) else dpo
    if dico is not None and dico > 0 and dico >= dpo:
        pf._v("dictionary_offset", where, f"dictionary_page_offset {dico} not before data_page_offset {dpo}")
        start = min(dico, dpo)
    tcs = md["total_compressed_size"]
    ch.start, ch.end = start, start + tcs
    if start < 4 or tcs < 0 or start + tcs > pf.footer_start:
        pf._v("chunk_outside_data_region", where, f"chunk [{start},{start + tcs}) not inside [4,{pf.footer_start})")
        ch.start = ch.end = -1
        return ch
    # chain of pages
    pos, end = start, start + tcs
    first_data = None
    ok = True
    while pos < end:
        pw = f"{where}.page{len(ch.pages)}"
        try:
            ts, hend = thrift_decode_struct(d, pos, end)
        except ThriftError as e:
            pf._v("page_chain", pw, f"page header at {pos} does not parse: {e}")
            ok = False
            break
        problems = []
        h = named(ts, "PageHeader", pw, problems)
        for cl, w, det in problems:
            pf._v(cl, w, det)
        cs, us, pt = h.get("compressed_page_size"), h.get("uncompressed_page_size"), h.get("type")
        if cs is None or us is None or pt is None:
            pf._v("page_chain", pw, f"page header at {pos} lacks type / sizes: not a page header")
            ok = False
            break
        if cs < 0 or us < 0 or hend + cs > end:
            pf._v("page_chain", pw, f"page body of {cs} bytes at {hend} runs past the chunk end {end}")
            ok = False
            break
        kind = PAGE_TYPE.get(pt, str(pt))
        pg = Page(pos, hend - pos, h, hend, cs, us, kind, crc=h.get("crc"))
        if kind == "DICTIONARY_PAGE":
            if ch.pages:
                pf._v("dictionary_position", pw, "dictionary page is not the first page of the chunk")
            if dico is not None and dico > 0 and pos != dico:
                pf._v("dictionary_offset", pw, f"dictionary page at {pos}, dictionary_page_offset says {dico}")
            if h.get("dictionary_page_header") is None:
                pf._v("thrift_required_field", pw, "DICTIONARY_PAGE without dictionary_page_header")
        elif kind in ("DATA_PAGE", "DATA_PAGE_V2"):
            if first_data is None:
                first_data = pos
            key = "data_page_header" if kind == "DATA_PAGE" else "data_page_header_v2"
            if h.get(key) is None:
                pf._v("thrift_required_field", pw, f"{kind} without {key}")
        elif kind != "INDEX_PAGE":
            pf._v("page_type", pw, f"unknown page type {pt}")
        if pg.crc is not None:
            actual = zlib.crc32(d[hend:hend + cs]) & 0xFFFFFFFF
            if _i32(pg.crc) != actual:
                pf._v("page_crc", pw, f"stored crc {_i32(pg.crc):08x}, CRC-32 of the stored page bytes {actual:08x}")
        ch.pages.append(pg)
        pos = hend + cs
    if ok and pos != end:
        pf._v("page_chain", where, f"pages end at {pos}, chunk ends at {end}")
        ok = False
    ch.chain_ok = ok
    dict_first = bool(ch.pages) and ch.pages[0].kind == "DICTIONARY_PAGE"
    if first_data is not None and first_data != dpo and not (dict_first and (dico is None or dico <= 0) and ch.pages[0].offset == dpo):
        # (legal old layout: no dictionary_page_offset, data_page_offset points at the dictionary page)
        pf._v("data_page_offset", where, f"first data page at {first_data}, data_page_offset says {dpo}")
    if ok and first_data is None and (md.get("num_values") or 0) > 0:
        pf._v("page_chain", where, "chunk with values but without data page")
    if decode_values and leaf is not None and leaf.ptype is not None:
        for i, pg in enumerate(ch.pages):
            try:
                _decode_page(pf, ch, pg, codec, f"{where}.page{i}")
            except (DecodeError, CodecError) as e:
                pf._v("page_decode", f"{where}.page{i}", str(e))
            except CodecUnavailable as e:
                pf._v("codec_unavailable", f"{where}.page{i}", f"cannot check pages compressed with {e}", "warn")
            except (ThriftError, ValueError, TypeError, IndexError, KeyError, OverflowError, MemoryError, struct.error) as e:
                # read_file never raises: whatever a malformed page provokes is a finding about the page
                pf._v("page_decode", f"{where}.page{i}", f"page cannot be decoded ({type(e).__name__}: {e})")
    return ch


def _decode_page(pf, ch, pg, codec, where):
    """Decompress and decode one page (dictionary, data page v1, data page v2) into pg.defs/reps/values."""
    d = pf.data
    leaf = ch.leaf
    raw = d[pg.body_offset:pg.body_offset + pg.compressed_size]
    h = pg.header
    if pg.kind == "DICTIONARY_PAGE":
        dh = h.get("dictionary_page_header")
        if dh is None:
            return
        body = pq_codecs.decompress(codec, raw, pg.uncompressed_size)
        _note_lz4(pf, codec, where)
        enc = dh.get("encoding")
        pg.encoding = ENCODING.get(enc, str(enc))
        if enc not in (0, 2):
            raise DecodeError(f"dictionary page encoding {pg.encoding}")
        n = dh.get("num_values")
        if n is None or n < 0 or n > MAX_PAGE_VALUES:
            raise DecodeError(f"dictionary page num_values {n}")
        vals, pos = plain_decode(leaf.ptype, body, 0, len(body), n, leaf.type_length)
        if pos != len(body):
            pf._v("page_trailing_bytes", where, f"{len(body) - pos} bytes after the {n} dictionary values")
        pg.values, pg.num_values, pg.decoded = vals, n, True
        ch.dictionary = vals
        return
    if pg.kind == "DATA_PAGE":
        dh = h.get("data_page_header")
        if dh is None:
            return
        n = dh.get("num_values")
        if n is None or n < 0 or n > MAX_PAGE_VALUES:
            raise DecodeError(f"data page num_values {n}")
        pg.num_values = n
        enc = dh.get("encoding")
        pg.encoding = ENCODING.get(enc, str(enc))
        body = pq_codecs.decompress(codec, raw, pg.uncompressed_size)
        _note_lz4(pf, codec, where)
        pos, end = 0, len(body)
        reps, defs = [0] * n, [leaf.max_def] * n
        for which, mx, key in (("rep", leaf.max_rep, "repetition_level_encoding"), ("def", leaf.max_def, "definition_level_encoding")):
            if mx == 0:
                continue
            le = dh.get(key)
            w = bit_width(mx)
            if le == 3:
                if pos + 4 > end:
                    raise DecodeError(f"{which} levels: length prefix past the end")
                ln = struct.unpack_from("<I", body, pos)[0]
                pos += 4
                if ln > end - pos:
                    raise DecodeError(f"{which} levels: {ln} bytes announced, {end - pos} left")
                runs = []
                lv, used = rle_hybrid_decode(body, pos, pos + ln, w, n, runs)
                pg.level_runs.append((which, runs))
                if used != pos + ln:
                    pf._v("levels_trailing_bytes", where, f"{pos + ln - used} unused bytes in the {which} level block", "warn")
                pos += ln
            elif le == 4:
                lv, pos = bitpacked_levels_decode(body, pos, end, w, n)
            else:
                raise DecodeError(f"{which} level encoding {ENCODING.get(le, le)}")
            if any(x > mx for x in lv):
                raise DecodeError(f"{which} level above the maximum {mx}")
            if which == "rep":
                reps = lv
            else:
                defs = lv
        nn = sum(1 for x in defs if x == leaf.max_def)
        pg.defs, pg.reps = defs, reps
        pg.values = _decode_values(pf, ch, pg, enc, body, pos, end, nn, where)
        pg.decoded = True
        return
    if pg.kind == "DATA_PAGE_V2":
        dh = h.get("data_page_header_v2")
        if dh is None:
            return
        n = dh.get("num_values")
        if n is None or n < 0 or n > MAX_PAGE_VALUES:
            raise DecodeError(f"data page v2 num_values {n}")
        pg.num_values = n
        enc = dh.get("encoding")
        pg.encoding = ENCODING.get(enc, str(enc))
        rl, dl = dh.get("repetition_levels_byte_length") or 0, dh.get("definition_levels_byte_length") or 0
        if rl < 0 or dl < 0 or rl + dl > len(raw):
            raise DecodeError("v2 level lengths exceed the page")
        reps, defs = [0] * n, [leaf.max_def] * n
        if leaf.max_rep > 0:
            reps, _ = rle_hybrid_decode(raw, 0, rl, bit_width(leaf.max_rep), n)
        if leaf.max_def > 0:
            defs, _ = rle_hybrid_decode(raw, rl, rl + dl, bit_width(leaf.max_def), n)
        rest = raw[rl + dl:]
        usz = pg.uncompressed_size - rl - dl
        if dh.get("is_compressed", True):
            body = pq_codecs.decompress(codec, rest, usz)
        else:
            body = rest
        nn = sum(1 for x in defs if x == leaf.max_def)
        if dh.get("num_nulls") is not None and n - nn != dh["num_nulls"] and leaf.max_rep == 0:
            pf._v("count_page_nulls", where, f"num_nulls {dh['num_nulls']}, levels say {n - nn}")
        pg.defs, pg.reps = defs, reps
        pg.values = _decode_values(pf, ch, pg, enc, body, 0, len(body), nn, where)
        pg.decoded = True


def _note_lz4(pf, codec, where):
    """Record that a page tagged LZ4 (codec 5) holds a bare block instead of Hadoop frames."""
    if codec == 5 and pq_codecs.lz4_was_raw[0]:
        pf._v("codec_lz4_framing", where, "codec LZ4 (deprecated, Hadoop-framed per Compression.md) but the page is a bare LZ4 block (that is LZ4_RAW)", "warn")


def _decode_values(pf, ch, pg, enc, body, pos, end, nn, where):
    """Decode nn non-null values of a data page in encoding `enc` from body[pos:end]."""
    leaf = ch.leaf
    if enc == 0:
        vals, p2 = plain_decode(leaf.ptype, body, pos, end, nn, leaf.type_length)
        if p2 != end:
            pf._v("page_trailing_bytes", where, f"{end - p2} bytes after the {nn} PLAIN values")
        return vals
    if enc in (2, 8):
        if ch.dictionary is None:
            raise DecodeError("dictionary-encoded page without dictionary page")
        if nn == 0 and pos == end:
            return []
        if pos >= end:
            raise DecodeError("missing bit width byte")
        w = body[pos]
        if w > 32:
            raise DecodeError(f"dictionary index width {w}")
        idx, p2 = rle_hybrid_decode(body, pos + 1, end, w, nn)
        if p2 != end:
            pf._v("page_trailing_bytes", where, f"{end - p2} bytes after the dictionary indices", "warn")
        if any(i >= len(ch.dictionary) for i in idx):
            raise DecodeError("dictionary index out of range")
        return [ch.dictionary[i] for i in idx]
    vals, p2 = decode_values(ENCODING.get(enc, str(enc)), leaf.ptype, body, pos, end, nn, leaf.type_length)
    if p2 != end:
        pf._v("page_trailing_bytes", where, f"{end - p2} bytes after the {nn} {ENCODING.get(enc, enc)} values", "warn")
    return vals


# ----------------------------------------------------------------------------- further value encodings
# (used by the reference writer for the "feature carquet does not claim" cases, and decoded by read_file so
# that the writer can be cross-checked by the reader)

def _dbp_encode_ints(ints, bits, block=128, minis=4):
    """DELTA_BINARY_PACKED (Encodings.md): header <block size><miniblocks><total count><first value>, then
    blocks of <min delta><bit widths><miniblocks>.  `ints` are signed Python ints of `bits` width."""
    mask = (1 << bits) - 1

    def wrap(x):
        """Wrap to a signed integer of `bits` bits."""
        x &= mask
        return x - (1 << bits) if x >> (bits - 1) else x

    out = bytearray()
    out += write_varint(block) + write_varint(minis) + write_varint(len(ints))
    out += write_varint(zigzag(ints[0] if ints else 0, 64) if bits == 64 else zigzag(ints[0] if ints else 0))
    deltas = [wrap(ints[i] - ints[i - 1]) for i in range(1, len(ints))]
    per = block // minis
    for b in range(0, len(deltas), block):
        blk = deltas[b:b + block]
        mn = min(blk)
        out += write_varint(zigzag(mn))
        rel = [(d - mn) & mask for d in blk]
        widths, chunks = [], []
        for m in range(minis):
            mb = rel[m * per:(m + 1) * per]
            if not mb:
                widths.append(0)
                continue
            w = max(x.bit_length() for x in mb)
            widths.append(w)
            mb = mb + [0] * (per - len(mb))
            acc = 0
            for i, x in enumerate(mb):
                acc |= x << (i * w)
            chunks.append(acc.to_bytes(per * w // 8, "little"))
        out += bytes(widths)
        for c in chunks:
            out += c
    return bytes(out)


def _dbp_decode_ints(buf, pos, end, bits):
    """Inverse of _dbp_encode_ints -> (list of signed ints, new position)."""
    mask = (1 << bits) - 1
    try:
        block, pos = read_varint(buf, pos, end)
        minis, pos = read_varint(buf, pos, end)
        total, pos = read_varint(buf, pos, end)
        u, pos = read_varint(buf, pos, end)
    except ThriftError as e:
        raise DecodeError("DELTA_BINARY_PACKED header: %s" % e)
    if block == 0 or block % 128 or minis == 0 or block % minis or (block // minis) % 32:
        raise DecodeError("DELTA_BINARY_PACKED block size %d / %d miniblocks" % (block, minis))
    per = block // minis

    def wrap(x):
        """Wrap to a signed integer of `bits` bits."""
        x &= mask
        return x - (1 << bits) if x >> (bits - 1) else x

    vals = [wrap(unzigzag(u))] if total else []
    while len(vals) < total:
        try:
            u, pos = read_varint(buf, pos, end)
        except ThriftError as e:
            raise DecodeError("DELTA_BINARY_PACKED block: %s" % e)
        mn = unzigzag(u)
        if pos + minis > end:
            raise DecodeError("DELTA_BINARY_PACKED widths past the end")
        widths = list(buf[pos:pos + minis])
        pos += minis
        for w in widths:
            if len(vals) >= total:
                break
            if w > bits:
                raise DecodeError("DELTA_BINARY_PACKED width %d" % w)
            nb = per * w // 8
            if pos + nb > end:
                raise DecodeError("DELTA_BINARY_PACKED miniblock past the end")
            acc = int.from_bytes(buf[pos:pos + nb], "little")
            pos += nb
            for i in range(per):
                if len(vals) >= total:
                    break
                d = (acc >> (i * w)) & ((1 << w) - 1) if w else 0
                vals.append(wrap(vals[-1] + mn + d))
    return vals, pos


def encode_values(encoding, ptype, values, tlen=0):
    """Encode non-null raw values with one of: PLAIN, DELTA_BINARY_PACKED (INT32/INT64), BYTE_STREAM_SPLIT
    (FLOAT/DOUBLE/INT32/INT64/FIXED_LEN_BYTE_ARRAY), DELTA_LENGTH_BYTE_ARRAY, DELTA_BYTE_ARRAY (BYTE_ARRAY),
    RLE (BOOLEAN: 4-byte length + hybrid of width 1)."""
    if encoding == "PLAIN":
        return plain_encode(ptype, values, tlen)
    if encoding == "DELTA_BINARY_PACKED":
        bits = 32 if ptype == "INT32" else 64
        return _dbp_encode_ints([int.from_bytes(v, "little", signed=True) for v in values], bits)
    if encoding == "BYTE_STREAM_SPLIT":
        w = tlen if ptype == "FIXED_LEN_BYTE_ARRAY" else FIXED_WIDTH[ptype]
        return b"".join(bytes(v[k] for v in values) for k in range(w))
    if encoding == "DELTA_LENGTH_BYTE_ARRAY":
        return _dbp_encode_ints([len(v) for v in values], 32) + b"".join(values)
    if encoding == "DELTA_BYTE_ARRAY":
        pre, suf, prev = [], [], b""
        for v in values:
            k = 0
            while k < min(len(v), len(prev)) and v[k] == prev[k]:
                k += 1
            pre.append(k)
            suf.append(v[k:])
            prev = v
        return _dbp_encode_ints(pre, 32) + _dbp_encode_ints([len(s) for s in suf], 32) + b"".join(suf)
    if encoding == "RLE" and ptype == "BOOLEAN":
        b = rle_hybrid_encode([v[0] for v in values], 1)
        return struct.pack("<I", len(b)) + b
    raise ValueError("cannot encode %s as %s" % (ptype, encoding))


def decode_values(encoding, ptype, buf, pos, end, n, tlen=0):
    """Inverse of encode_values for the non-PLAIN, non-dictionary encodings -> (values, new position)."""
    if encoding == "DELTA_BINARY_PACKED":
        bits = {"INT32": 32, "INT64": 64}.get(ptype)
        if not bits:
            raise DecodeError("DELTA_BINARY_PACKED on " + str(ptype))
        ints, pos = _dbp_decode_ints(buf, pos, end, bits)
        if len(ints) < n:
            raise DecodeError("DELTA_BINARY_PACKED holds %d values, %d needed" % (len(ints), n))
        return [int(x).to_bytes(bits // 8, "little", signed=True) for x in ints[:n]], pos
    if encoding == "BYTE_STREAM_SPLIT":
        w = tlen if ptype == "FIXED_LEN_BYTE_ARRAY" else FIXED_WIDTH.get(ptype)
        if not w or pos + n * w > end:
            raise DecodeError("BYTE_STREAM_SPLIT past the end")
        return [bytes(buf[pos + k * n + i] for k in range(w)) for i in range(n)], pos + n * w
    if encoding == "DELTA_LENGTH_BYTE_ARRAY":
        lens, pos = _dbp_decode_ints(buf, pos, end, 32)
        vals = []
        for ln in lens[:n]:
            if ln < 0 or pos + ln > end:
                raise DecodeError("DELTA_LENGTH_BYTE_ARRAY value past the end")
            vals.append(bytes(buf[pos:pos + ln]))
            pos += ln
        if len(vals) < n:
            raise DecodeError("DELTA_LENGTH_BYTE_ARRAY holds too few values")
        return vals, pos
    if encoding == "DELTA_BYTE_ARRAY":
        pre, pos = _dbp_decode_ints(buf, pos, end, 32)
        sl, pos = _dbp_decode_ints(buf, pos, end, 32)
        vals, prev = [], b""
        for p, ln in list(zip(pre, sl))[:n]:
            if p < 0 or p > len(prev) or ln < 0 or pos + ln > end:
                raise DecodeError("DELTA_BYTE_ARRAY value past the end")
            prev = prev[:p] + bytes(buf[pos:pos + ln])
            pos += ln
            vals.append(prev)
        if len(vals) < n:
            raise DecodeError("DELTA_BYTE_ARRAY holds too few values")
        return vals, pos
    if encoding == "RLE" and ptype == "BOOLEAN":
        if pos + 4 > end:
            raise DecodeError("RLE booleans: length past the end")
        ln = struct.unpack_from("<I", buf, pos)[0]
        if ln > end - pos - 4:
            raise DecodeError("RLE booleans: block past the end")
        v, _ = rle_hybrid_decode(buf, pos + 4, pos + 4 + ln, 1, n)
        return [bytes([x]) for x in v], pos + 4 + ln
    raise DecodeError("value encoding %s not implemented by this reader" % encoding)


# ----------------------------------------------------------------------------- reference writer (property C06)

@dataclass
class SchemaNode:
    """A node of the schema tree.  Leaf when ptype is set, group otherwise."""
    name: str
    rep: str = "REQUIRED"
    ptype: Optional[str] = None
    type_length: int = 0
    children: List["SchemaNode"] = field(default_factory=list)
    converted_type: Optional[int] = None

    def is_leaf(self):
        """True for a leaf (a node with a physical type)."""
        return self.ptype is not None


@dataclass
class PageSpec:
    """One data page: n = number of level entries (num_values) it takes from the column chunk.
    encoding: PLAIN | RLE_DICTIONARY | PLAIN_DICTIONARY | DELTA_BINARY_PACKED | BYTE_STREAM_SPLIT |
              DELTA_LENGTH_BYTE_ARRAY | DELTA_BYTE_ARRAY | RLE
    version: 1 | 2.  level_encoding: RLE | BIT_PACKED (v1 only).  *_plan: None (default run plan), 'random'
    or an explicit plan for rle_hybrid_encode.  crc: False | True | 'bad'.  stats: write Statistics.
    idx_width_extra: use a wider bit width than needed for dictionary indices."""
    n: int
    encoding: str = "PLAIN"
    version: int = 1
    level_encoding: str = "RLE"
    def_plan: object = None
    rep_plan: object = None
    idx_plan: object = None
    crc: object = False
    stats: bool = False
    idx_width_extra: int = 0
    v2_compressed: bool = True


@dataclass
class ColumnSpec:
    """One column chunk together with its ground truth: def levels, rep levels (one per entry) and the
    non-null values.  pages partition the entries.  dictionary: None | 'auto' | explicit list of values;
    dict_offset: 'present' (dictionary_page_offset set) | 'absent' (data_page_offset points at the dictionary
    page, which a reader recognises by its header); dict_tag: encoding written in the dictionary page header."""
    defs: List[int]
    reps: List[int]
    values: List[bytes]
    pages: List[PageSpec]
    codec: object = "UNCOMPRESSED"           # name, or a number for "unknown codec id" cases
    dictionary: object = None
    dict_offset: str = "present"
    dict_tag: str = "PLAIN"
    dict_crc: object = False
    chunk_stats: bool = False
    body_codec: Optional[str] = None         # codec really used for the bytes when `codec` is an unknown id


@dataclass
class RowGroupSpec:
    """One row group: number of rows and one ColumnSpec per leaf."""
    num_rows: int
    columns: List[ColumnSpec]


@dataclass
class FileSpec:
    """Everything write_file needs.  extra_fields: sprinkle unknown Thrift fields (ids the format does not
    define) over all metadata structs; long_form: write every field header in the long form (delta 0 +
    explicit id) and every list size as a varint; optional_meta: also write the optional fields of
    parquet.thrift that carry no data (key_value_metadata, column_orders, encoding_stats, ordinal,
    converted types, sorting columns ...)."""
    root: SchemaNode
    row_groups: List[RowGroupSpec]
    created_by: Optional[str] = "pq.py reference writer"
    version: int = 1
    extra_fields: bool = False
    long_form: bool = False
    optional_meta: bool = False
    features: dict = field(default_factory=dict)   # free-form description of what the generator chose

    def leaves(self):
        """Leaf descriptors in column order."""
        return spec_leaves(self.root)

    def truth(self):
        """[row group][column] -> (defs, reps, values): what a correct reader must deliver."""
        return [[(list(c.defs), list(c.reps), list(c.values)) for c in rg.columns] for rg in self.row_groups]


def spec_leaves(root):
    """SchemaNode tree -> [Leaf] (same structure the reader derives from the flattened schema)."""
    out = []

    def walk(node, path, d, r, reps, nodes):
        """Collect the leaves below `node` with their levels and ancestor chain."""
        for ch in node.children:
            d2 = d + (1 if ch.rep in ("OPTIONAL", "REPEATED") else 0)
            r2 = r + (1 if ch.rep == "REPEATED" else 0)
            if ch.is_leaf():
                lf = Leaf(path + [ch.name], ch.ptype, ch.type_length, d2, r2, reps + [ch.rep], -1)
                lf.nodes = nodes + [ch]
                out.append(lf)
            else:
                walk(ch, path + [ch.name], d2, r2, reps + [ch.rep], nodes + [ch])

    walk(root, [], 0, 0, [], [])
    return out


def shred(leaf_nodes, records):
    """Dremel record shredding for one leaf: records = list of dicts (top-level groups); returns
    (defs, reps, values).  A REQUIRED field holds its value, an OPTIONAL one a value or None, a REPEATED
    one a list; group values are dicts."""
    defs, reps, vals = [], [], []

    def rec(i, container, r, d, rdepth):
        """Descend into field i of the path inside `container`."""
        node = leaf_nodes[i]
        v = container.get(node.name)
        if node.rep == "REQUIRED":
            handle(i, v, r, d, rdepth)
        elif node.rep == "OPTIONAL":
            if v is None:
                defs.append(d)
                reps.append(r)
            else:
                handle(i, v, r, d + 1, rdepth)
        else:
            if not v:
                defs.append(d)
                reps.append(r)
            else:
                for k, item in enumerate(v):
                    handle(i, item, r if k == 0 else rdepth + 1, d + 1, rdepth + 1)

    def handle(i, v, r, d, rdepth):
        """One defined instance of field i: emit an entry at the leaf, recurse otherwise."""
        if i == len(leaf_nodes) - 1:
            defs.append(d)
            reps.append(r)
            vals.append(v)
        else:
            rec(i + 1, v, r, d, rdepth)

    for record in records:
        rec(0, record, 0, 0, 0)
    return defs, reps, vals


_EXTRA_ID = [100, 101, 102, 2000]


def _extras(rng_like=None):
    """Unknown fields: an i32, a binary, a struct holding a list, and one with an id needing 2 varint bytes."""
    return [TField(100, CT_I32, -12345), TField(101, CT_BINARY, b"unknown\x00field"),
            TField(102, CT_STRUCT, TStruct([TField(1, CT_LIST, TList(CT_I64, [1, 2, 3])), TField(2, CT_TRUE, True)])),
            TField(2000, CT_MAP, TMap(CT_BINARY, CT_I32, [(b"k", 1)]))]


def _finish(ts, spec):
    """Apply the file-wide Thrift options to a struct (recursively)."""
    for f in list(ts.fields):
        if spec.long_form:
            f.long_form = True
        _finish_value(f.value, spec)
    if spec.extra_fields:
        ex = _extras()
        for f in ex:
            f.long_form = spec.long_form
        ts.fields.extend(ex)
    return ts


def _finish_value(v, spec):
    """Apply the file-wide Thrift options to a nested value."""
    if isinstance(v, TStruct):
        _finish(v, spec)
    elif isinstance(v, TList):
        if spec.long_form:
            v.long_form = True
        for it in v.items:
            _finish_value(it, spec)


def _stats_struct(ptype, values, nulls):
    """Statistics for a page/chunk (min/max by the type's natural order for numeric types, byte order else)."""
    fs = [TField(3, CT_I64, nulls)]
    if values:
        if ptype in ("INT32", "INT64"):
            key = lambda b: int.from_bytes(b, "little", signed=True)
        elif ptype in ("FLOAT", "DOUBLE"):
            fmt = "<f" if ptype == "FLOAT" else "<d"
            vs = [v for v in values if struct.unpack(fmt, v)[0] == struct.unpack(fmt, v)[0]]
            if not vs:
                return TStruct(fs)
            values = vs
            key = lambda b: struct.unpack(fmt, b)[0]
        elif ptype == "BOOLEAN":
            key = lambda b: b[0]
        elif ptype == "INT96":
            return TStruct(fs)
        else:
            key = lambda b: b
        fs += [TField(5, CT_BINARY, max(values, key=key)), TField(6, CT_BINARY, min(values, key=key))]
    return TStruct(fs)


def write_file(spec, rng=None):
    """FileSpec -> bytes of a Parquet file.  rng (random.Random) is needed only for 'random' run plans and
    dictionary shuffling."""
    rng = rng or random.Random(0)
    leaves = spec.leaves()
    out = bytearray(MAGIC)
    rg_structs = []
    for r, rg in enumerate(spec.row_groups):
        cc_structs = []
        tot_u = tot_c = 0
        rg_start = len(out)
        for c, (col, leaf) in enumerate(zip(rg.columns, leaves)):
            chunk_start = len(out)
            codec_tag = col.codec if isinstance(col.codec, int) else CODEC_ID[col.codec]
            body_codec = col.body_codec or (col.codec if not isinstance(col.codec, int) else CODEC.get(col.codec, "UNCOMPRESSED"))
            if body_codec in ("LZO", "BROTLI") or body_codec not in CODEC_ID:
                body_codec = "UNCOMPRESSED"
            used_enc = set()
            uncomp_total = 0
            # dictionary
            needs_dict = any(p.encoding in ("RLE_DICTIONARY", "PLAIN_DICTIONARY") for p in col.pages)
            dict_vals, dict_off = None, None
            if needs_dict or col.dictionary is not None:
                if isinstance(col.dictionary, list):
                    dict_vals = list(col.dictionary)
                else:
                    dict_vals = []
                    seen = set()
                    for v in col.values:
                        if v not in seen:
                            seen.add(v)
                            dict_vals.append(v)
                    rng.shuffle(dict_vals)
                body = plain_encode(leaf.ptype, dict_vals, leaf.type_length)
                comp = pq_codecs.compress(body_codec, body)
                ph = TStruct([TField(1, CT_I32, 2), TField(2, CT_I32, len(body)), TField(3, CT_I32, len(comp))])
                if col.dict_crc:
                    crc = zlib.crc32(comp) & 0xFFFFFFFF
                    if col.dict_crc == "bad":
                        crc ^= 0x10
                    ph.fields.append(TField(4, CT_I32, crc - (1 << 32) if crc >> 31 else crc))
                ph.fields.append(TField(7, CT_STRUCT, TStruct([TField(1, CT_I32, len(dict_vals)), TField(2, CT_I32, ENCODING_ID[col.dict_tag]),
                                                               TField(3, CT_FALSE, False)])))
                hb = thrift_encode_struct(_finish(ph, spec))
                dict_off = len(out)
                out += hb + comp
                uncomp_total += len(hb) + len(body)
                used_enc.add(ENCODING_ID[col.dict_tag])
            index_of = {v: i for i, v in enumerate(dict_vals)} if dict_vals is not None else {}
            # data pages
            first_data = None
            epos = vpos = 0
            for p in col.pages:
                defs = col.defs[epos:epos + p.n]
                reps = col.reps[epos:epos + p.n]
                nn = sum(1 for d in defs if d == leaf.max_def)
                vals = col.values[vpos:vpos + nn]
                epos += p.n
                vpos += nn

                def plan_for(pl, seq):
                    """Resolve 'random' / 'random_nozero' into a run plan for `seq`."""
                    if pl == "random":
                        return random_plan(rng, seq, True)
                    if pl == "random_nozero":
                        return random_plan(rng, seq, False)
                    return pl

                if p.encoding in ("RLE_DICTIONARY", "PLAIN_DICTIONARY"):
                    idx = [index_of[v] for v in vals]
                    w = max(bit_width(max(len(dict_vals) - 1, 0)), 0) + p.idx_width_extra
                    w = min(max(w, 1 if p.idx_width_extra or dict_vals else 0), 32)
                    vbytes = bytes([w]) + rle_hybrid_encode(idx, w, plan_for(p.idx_plan, idx))
                else:
                    vbytes = encode_values(p.encoding, leaf.ptype, vals, leaf.type_length)
                used_enc.add(ENCODING_ID[p.encoding])
                if p.version == 1:
                    lv = b""
                    for seq, mx, pl in ((reps, leaf.max_rep, p.rep_plan), (defs, leaf.max_def, p.def_plan)):
                        if mx == 0:
                            continue
                        if p.level_encoding == "RLE":
                            b = rle_hybrid_encode(seq, bit_width(mx), plan_for(pl, seq))
                            lv += struct.pack("<I", len(b)) + b
                            used_enc.add(3)
                        else:
                            lv += bitpacked_levels_encode(seq, bit_width(mx))
                            used_enc.add(4)
                    body = lv + vbytes
                    comp = pq_codecs.compress(body_codec, body)
                    usize = len(body)
                    le = ENCODING_ID[p.level_encoding]
                    dh = TStruct([TField(1, CT_I32, p.n), TField(2, CT_I32, ENCODING_ID[p.encoding]), TField(3, CT_I32, le), TField(4, CT_I32, le)])
                    if p.stats:
                        dh.fields.append(TField(5, CT_STRUCT, _stats_struct(leaf.ptype, vals, p.n - nn)))
                    ptype_id, hfield = 0, 5
                else:
                    rb = rle_hybrid_encode(reps, bit_width(leaf.max_rep), plan_for(p.rep_plan, reps)) if leaf.max_rep else b""
                    db = rle_hybrid_encode(defs, bit_width(leaf.max_def), plan_for(p.def_plan, defs)) if leaf.max_def else b""
                    if leaf.max_rep or leaf.max_def:
                        used_enc.add(3)
                    cv = pq_codecs.compress(body_codec, vbytes) if p.v2_compressed else vbytes
                    comp = rb + db + cv
                    usize = len(rb) + len(db) + len(vbytes)
                    nrows = sum(1 for x in reps if x == 0) if leaf.max_rep else p.n
                    dh = TStruct([TField(1, CT_I32, p.n), TField(2, CT_I32, p.n - nn), TField(3, CT_I32, nrows),
                                  TField(4, CT_I32, ENCODING_ID[p.encoding]), TField(5, CT_I32, len(db)), TField(6, CT_I32, len(rb)),
                                  TField(7, CT_TRUE, bool(p.v2_compressed))])
                    if p.stats:
                        dh.fields.append(TField(8, CT_STRUCT, _stats_struct(leaf.ptype, vals, p.n - nn)))
                    ptype_id, hfield = 3, 8
                ph = TStruct([TField(1, CT_I32, ptype_id), TField(2, CT_I32, usize), TField(3, CT_I32, len(comp))])
                if p.crc:
                    crc = zlib.crc32(comp) & 0xFFFFFFFF
                    if p.crc == "bad":
                        crc ^= 0x8000
                    ph.fields.append(TField(4, CT_I32, crc - (1 << 32) if crc >> 31 else crc))
                ph.fields.append(TField(hfield, CT_STRUCT, dh))
                hb = thrift_encode_struct(_finish(ph, spec))
                if first_data is None:
                    first_data = len(out)
                out += hb + comp
                uncomp_total += len(hb) + usize
            if first_data is None:
                first_data = len(out)
            comp_total = len(out) - chunk_start
            md = TStruct([TField(1, CT_I32, TYPE_ID[leaf.ptype]), TField(2, CT_LIST, TList(CT_I32, sorted(used_enc))),
                          TField(3, CT_LIST, TList(CT_BINARY, [x.encode() for x in leaf.path])), TField(4, CT_I32, codec_tag),
                          TField(5, CT_I64, len(col.defs)), TField(6, CT_I64, uncomp_total), TField(7, CT_I64, comp_total)])
            if spec.optional_meta:
                md.fields.append(TField(8, CT_LIST, TList(CT_STRUCT, [TStruct([TField(1, CT_BINARY, b"k"), TField(2, CT_BINARY, b"v")])])))
            if dict_off is not None and col.dict_offset == "absent":
                md.fields.append(TField(9, CT_I64, dict_off))
            else:
                md.fields.append(TField(9, CT_I64, first_data))
                if dict_off is not None:
                    md.fields.append(TField(11, CT_I64, dict_off))
            if col.chunk_stats:
                md.fields.append(TField(12, CT_STRUCT, _stats_struct(leaf.ptype, col.values, sum(1 for d in col.defs if d < leaf.max_def))))
            if spec.optional_meta:
                md.fields.append(TField(13, CT_LIST, TList(CT_STRUCT, [TStruct([TField(1, CT_I32, 0), TField(2, CT_I32, 0), TField(3, CT_I32, len(col.pages))])])))
            cc = TStruct([TField(2, CT_I64, chunk_start), TField(3, CT_STRUCT, md)])
            cc_structs.append(cc)
            tot_u += uncomp_total
            tot_c += comp_total
        rgs = TStruct([TField(1, CT_LIST, TList(CT_STRUCT, cc_structs)), TField(2, CT_I64, tot_u), TField(3, CT_I64, rg.num_rows)])
        if spec.optional_meta:
            rgs.fields += [TField(5, CT_I64, rg_start), TField(6, CT_I64, tot_c), TField(7, CT_I16, r)]
        rg_structs.append(rgs)
    # schema, flattened depth first
    elems = []

    def flat(node, is_root):
        """Append the SchemaElement of `node` and of its subtree (depth first)."""
        fs = []
        if node.is_leaf():
            fs.append(TField(1, CT_I32, TYPE_ID[node.ptype]))
            if node.ptype == "FIXED_LEN_BYTE_ARRAY":
                fs.append(TField(2, CT_I32, node.type_length))
        if not is_root:
            fs.append(TField(3, CT_I32, REPETITION_ID[node.rep]))
        fs.append(TField(4, CT_BINARY, node.name.encode()))
        if not node.is_leaf():
            fs.append(TField(5, CT_I32, len(node.children)))
        if node.converted_type is not None:
            fs.append(TField(6, CT_I32, node.converted_type))
        if spec.optional_meta and not is_root:
            fs.append(TField(9, CT_I32, len(elems)))
        elems.append(TStruct(fs))
        for ch in node.children:
            flat(ch, False)

    flat(spec.root, True)
    fm = TStruct([TField(1, CT_I32, spec.version), TField(2, CT_LIST, TList(CT_STRUCT, elems)),
                  TField(3, CT_I64, sum(rg.num_rows for rg in spec.row_groups)), TField(4, CT_LIST, TList(CT_STRUCT, rg_structs))])
    if spec.optional_meta:
        fm.fields.append(TField(5, CT_LIST, TList(CT_STRUCT, [TStruct([TField(1, CT_BINARY, b"writer"), TField(2, CT_BINARY, b"pq.py")]),
                                                              TStruct([TField(1, CT_BINARY, b"novalue")])])))
    if spec.created_by is not None:
        fm.fields.append(TField(6, CT_BINARY, spec.created_by.encode()))
    if spec.optional_meta:
        fm.fields.append(TField(7, CT_LIST, TList(CT_STRUCT, [TStruct([TField(1, CT_STRUCT, TStruct([]))]) for _ in leaves])))
    footer = thrift_encode_struct(_finish(fm, spec))
    out += footer + struct.pack("<I", len(footer)) + MAGIC
    return bytes(out)


# ---- generators for the feature grid

SUPPORTED_CODECS = ["UNCOMPRESSED", "SNAPPY", "GZIP", "ZSTD", "LZ4_RAW"]
ALL_TYPES = ["BOOLEAN", "INT32", "INT64", "INT96", "FLOAT", "DOUBLE", "BYTE_ARRAY", "FIXED_LEN_BYTE_ARRAY"]
UNSUPPORTED_ENCODINGS = {"INT32": ["DELTA_BINARY_PACKED", "BYTE_STREAM_SPLIT"], "INT64": ["DELTA_BINARY_PACKED", "BYTE_STREAM_SPLIT"],
                         "FLOAT": ["BYTE_STREAM_SPLIT"], "DOUBLE": ["BYTE_STREAM_SPLIT"],
                         "BYTE_ARRAY": ["DELTA_LENGTH_BYTE_ARRAY", "DELTA_BYTE_ARRAY"], "BOOLEAN": ["RLE"],
                         "FIXED_LEN_BYTE_ARRAY": ["BYTE_STREAM_SPLIT"]}


def gen_leaf_value(rng, ptype, tlen, small_domain=False):
    """A random raw value; small_domain draws from few distinct values (good for dictionaries)."""
    if small_domain:
        k = rng.randrange(5)
        if ptype == "BOOLEAN":
            return bytes([k & 1])
        if ptype == "BYTE_ARRAY":
            return [b"", b"a", b"bb", b"parquet", b"\x00\xff"][k]
        w = tlen if ptype == "FIXED_LEN_BYTE_ARRAY" else FIXED_WIDTH[ptype]
        return bytes([(k * 37 + i) & 0xFF for i in range(w)])
    if ptype == "BOOLEAN":
        return bytes([rng.getrandbits(1)])
    if ptype == "BYTE_ARRAY":
        return bytes(rng.getrandbits(8) for _ in range(rng.choice([0, 1, 2, 5, 13, 40])))
    w = tlen if ptype == "FIXED_LEN_BYTE_ARRAY" else FIXED_WIDTH[ptype]
    if rng.random() < 0.3:
        return rng.choice([bytes(w), b"\xff" * w, b"\x00" * (w - 1) + b"\x80", b"\xff" * (w - 1) + b"\x7f"])
    return bytes(rng.getrandbits(8) for _ in range(w))


def gen_schema(rng, nested=False, types=None, max_leaves=4):
    """Random schema root.  nested=False: flat REQUIRED/OPTIONAL leaves; nested=True: groups with
    optional/repeated ancestors up to depth 3 (incl. repeated leaves)."""
    types = list(types or ALL_TYPES)
    counter = [0]

    def leaf(reps):
        """A random leaf with a repetition drawn from `reps`."""
        t = rng.choice(types)
        counter[0] += 1
        return SchemaNode(f"f{counter[0]}", rng.choice(reps), t, rng.choice([1, 3, 8, 16]) if t == "FIXED_LEN_BYTE_ARRAY" else 0)

    def group(depth):
        """A random group with 1..2 children, nested up to depth 2."""
        counter[0] += 1
        g = SchemaNode(f"g{counter[0]}", rng.choice(["REQUIRED", "OPTIONAL", "REPEATED"]))
        for _ in range(rng.randrange(1, 3)):
            if depth < 2 and rng.random() < 0.4:
                g.children.append(group(depth + 1))
            else:
                g.children.append(leaf(["REQUIRED", "OPTIONAL", "REPEATED"]))
        return g

    root = SchemaNode("schema", "REQUIRED")
    n = rng.randrange(1, max_leaves + 1)
    if not nested:
        root.children = [leaf(["REQUIRED", "OPTIONAL"]) for _ in range(n)]
    else:
        while len(spec_leaves(root)) < n:
            root.children.append(group(0) if rng.random() < 0.7 else leaf(["REQUIRED", "OPTIONAL", "REPEATED"]))
    return root


def gen_records(rng, root, n, small_domain=False):
    """n random records (dicts) for the schema."""
    def val(node):
        """A random value for one instance of `node`."""
        if node.is_leaf():
            return gen_leaf_value(rng, node.ptype, node.type_length, small_domain)
        return {ch.name: field_val(ch) for ch in node.children}

    def field_val(node):
        """A random field content according to the node's repetition."""
        if node.rep == "REQUIRED":
            return val(node)
        if node.rep == "OPTIONAL":
            return None if rng.random() < 0.3 else val(node)
        return [val(node) for _ in range(rng.choice([0, 0, 1, 2, 3]))]

    return [{ch.name: field_val(ch) for ch in root.children} for _ in range(n)]


def split_pages(rng, reps, n_entries, max_pages=4, at_records=True):
    """Random page split of a chunk's entries -> list of entry counts (cuts only where a record starts when
    at_records)."""
    if n_entries == 0:
        return [0] if rng.random() < 0.5 else []
    cand = [i for i in range(1, n_entries) if (not at_records) or reps[i] == 0]
    k = min(len(cand), rng.randrange(0, max_pages))
    cuts = sorted(rng.sample(cand, k))
    out, prev = [], 0
    for c in cuts + [n_entries]:
        out.append(c - prev)
        prev = c
    return out


def gen_spec(rng, nested=None, codec=None, encoding=None, version=1, unsupported=None, max_rows=40, **flags):
    """A random FileSpec from the feature grid.
    nested: None = random.  codec: None = random supported codec.  encoding: None = random per column among
    PLAIN / RLE_DICTIONARY / PLAIN_DICTIONARY.  unsupported: None | 'encoding' | 'page_v2' | 'codec' - put
    exactly one feature carquet does not claim into the file (spec.features['unsupported'] says which and
    where).  flags: extra_fields, long_form, optional_meta, crc, stats, bit_packed_levels (the deprecated
    BIT_PACKED level encoding), random_runs, zero_runs (zero-length runs inside random run plans),
    dict_offset ('present'|'absent'), bool_dict (dictionary-encode BOOLEAN columns too; no known writer does),
    split_inside_records, types.  spec.features records every choice so that results can be sliced."""
    nested = rng.random() < 0.4 if nested is None else nested
    types = flags.get("types")
    root = gen_schema(rng, nested, types)
    leaves = spec_leaves(root)
    nrg = rng.choice([1, 1, 2, 3])
    zero_runs = flags.get("zero_runs", rng.random() < 0.3)
    feats = {"nested": nested, "unsupported": None, "zero_runs": False, "random_runs": False, "multi_page": False,
             "bit_packed_levels": bool(flags.get("bit_packed_levels", False)), "dict_offset": flags.get("dict_offset", "present"),
             "dictionary": False, "version": version}
    rgs = []
    bad_col = rng.randrange(len(leaves)) if unsupported else -1
    if unsupported == "encoding":
        # pick a column whose type has an alternative encoding
        cands = [i for i, l in enumerate(leaves) if l.ptype in UNSUPPORTED_ENCODINGS]
        if not cands:
            unsupported = "page_v2"
        else:
            bad_col = rng.choice(cands)
    for r in range(nrg):
        nrows = rng.choice([0, 1, 2, 7, 8, 9, 17, max_rows]) if rng.random() < 0.7 else rng.randrange(0, max_rows + 1)
        small = rng.random() < 0.6
        records = gen_records(rng, root, nrows, small)
        cols = []
        for ci, lf in enumerate(leaves):
            defs, reps, vals = shred(lf.nodes, records)
            enc = encoding or rng.choice(["PLAIN", "RLE_DICTIONARY", "PLAIN_DICTIONARY"])
            if lf.ptype == "BOOLEAN" and not flags.get("bool_dict", False):
                enc = "PLAIN"
            if enc != "PLAIN":
                feats["dictionary"] = True
            cdc = codec or rng.choice(SUPPORTED_CODECS)
            ns = split_pages(rng, reps, len(defs), at_records=not flags.get("split_inside_records", False))
            pages = []
            for n in ns:
                p = PageSpec(n, enc if rng.random() < 0.8 or encoding else rng.choice(["PLAIN", enc]), version if unsupported is None else 1)
                p.crc = flags.get("crc", rng.random() < 0.4)
                p.stats = flags.get("stats", rng.random() < 0.3)
                if flags.get("random_runs", rng.random() < 0.5):
                    p.def_plan = p.rep_plan = p.idx_plan = "random" if zero_runs else "random_nozero"
                    feats["random_runs"] = True
                    feats["zero_runs"] = zero_runs
                if flags.get("bit_packed_levels", False):
                    p.level_encoding = "BIT_PACKED"
                if rng.random() < 0.15:
                    p.idx_width_extra = rng.choice([1, 3])
                pages.append(p)
            if len(pages) > 1:
                feats["multi_page"] = True
            col = ColumnSpec(defs, reps, vals, pages, cdc)
            col.dict_offset = flags.get("dict_offset", "present")
            col.dict_tag = rng.choice(["PLAIN", "PLAIN_DICTIONARY"])
            col.dict_crc = bool(pages and pages[0].crc)
            col.chunk_stats = flags.get("stats", rng.random() < 0.3)
            if ci == bad_col and unsupported and pages:
                if unsupported == "encoding":
                    e = rng.choice(UNSUPPORTED_ENCODINGS[lf.ptype])
                    for p in pages:
                        p.encoding = e
                    feats["unsupported"] = ("encoding", e, ci)
                elif unsupported == "page_v2":
                    for p in pages:
                        p.version = 2
                        p.level_encoding = "RLE"
                    feats["unsupported"] = ("page_v2", None, ci)
                elif unsupported == "codec":
                    col.codec = rng.choice([3, 4, 8, 99])
                    col.body_codec = "UNCOMPRESSED"
                    feats["unsupported"] = ("codec", col.codec, ci)
            cols.append(col)
        rgs.append(RowGroupSpec(nrows, cols))
    spec = FileSpec(root, rgs)
    spec.extra_fields = flags.get("extra_fields", rng.random() < 0.3)
    spec.long_form = flags.get("long_form", rng.random() < 0.2)
    spec.optional_meta = flags.get("optional_meta", rng.random() < 0.4)
    spec.version = rng.choice([1, 2])
    feats.update(extra_fields=spec.extra_fields, long_form=spec.long_form, optional_meta=spec.optional_meta)
    spec.features = feats
    return spec


def feature_grid(rng, per_cell=1):
    """Systematic sweep over the grid: {flat, nested} x codecs x {PLAIN, RLE_DICTIONARY, PLAIN_DICTIONARY} x
    {default runs, random runs, BIT_PACKED levels} x {dictionary offset present/absent} x {plain metadata,
    unknown fields, long-form headers, optional metadata}; yields (label, FileSpec)."""
    for nested in (False, True):
        for codec in SUPPORTED_CODECS:
            for enc in ("PLAIN", "RLE_DICTIONARY", "PLAIN_DICTIONARY"):
                for runs in ("default", "random", "bitpacked"):
                    for meta in ("plain", "extra", "long", "optional"):
                        for _ in range(per_cell):
                            flags = {"random_runs": runs == "random", "bit_packed_levels": runs == "bitpacked",
                                     "extra_fields": meta == "extra", "long_form": meta == "long", "optional_meta": meta == "optional",
                                     "dict_offset": "absent" if (enc != "PLAIN" and rng.random() < 0.3) else "present"}
                            yield (f"{'nested' if nested else 'flat'}/{codec}/{enc}/{runs}/{meta}/dict_{flags['dict_offset']}",
                                   gen_spec(rng, nested=nested, codec=codec, encoding=enc, **flags))


def _selftest_writer(rng):
    """write_file -> read_file round trips over the grid; returns the list of failures."""
    fails = []
    n = 0
    for label, spec in feature_grid(rng):
        data = write_file(spec, rng)
        pf = read_file(data)
        errs = pf.errors()
        if errs:
            fails.append(f"grid {label}: reader rejects writer output: {errs[0]}")
            continue
        if pf.levels() != spec.truth():
            fails.append(f"grid {label}: levels/values differ from the ground truth")
        if [(l.path, l.ptype, l.max_def, l.max_rep) for l in pf.leaves] != [(l.path, l.ptype, l.max_def, l.max_rep) for l in spec.leaves()]:
            fails.append(f"grid {label}: schema differs")
        n += 1
    for uns in ("encoding", "page_v2", "codec"):
        for _ in range(30):
            spec = gen_spec(rng, unsupported=uns)
            data = write_file(spec, rng)
            pf = read_file(data)
            kind = spec.features["unsupported"]
            if kind is None:
                continue
            if kind[0] == "codec":
                if not any(v.clause in ("codec_tag", "codec_unavailable") for v in pf.validate()):
                    fails.append("unknown codec not noticed by the reader")
            else:
                if pf.errors() or pf.levels() != spec.truth():
                    fails.append(f"{kind}: reader does not decode the writer's output: {pf.errors()[:1]}")
            n += 1
    # a bad CRC is noticed
    spec = gen_spec(rng, nested=False, codec="SNAPPY", encoding="PLAIN", crc="bad")
    if any(rg.num_rows for rg in spec.row_groups) and not any(v.clause == "page_crc" for v in read_file(write_file(spec, rng)).validate()):
        fails.append("bad CRC not noticed")
    print(f"reference writer: {n} files round-tripped")
    for f in fails[:10]:
        print("SELFTEST-FAIL:", f)
    return fails


def rewrite_footer(data, fn):
    """Decode the footer of `data` into its generic TStruct, let fn(tstruct) change it in place, re-encode it
    and return the new file bytes (page data untouched, footer length field updated).  Tool for building
    near-valid files: self-test of validate(), and structure-aware mutation for other properties."""
    n = len(data)
    flen = struct.unpack_from("<I", data, n - 8)[0]
    fs = n - 8 - flen
    ts, _ = thrift_decode_struct(data, fs, n - 8)
    fn(ts)
    footer = thrift_encode_struct(ts)
    return bytes(data[:fs]) + footer + struct.pack("<I", len(footer)) + MAGIC


def _selftest_validate(rng):
    """Every clause of validate() must fire on a file that breaks exactly that clause; returns failures."""
    fails = []
    I = lambda v: struct.pack("<i", v)
    root = SchemaNode("schema", children=[SchemaNode("a", "REQUIRED", "INT32"), SchemaNode("b", "OPTIONAL", "BYTE_ARRAY")])
    ca = ColumnSpec([0] * 5, [0] * 5, [I(i) for i in range(5)], [PageSpec(3, crc=True), PageSpec(2, crc=True)], codec="SNAPPY")
    cb = ColumnSpec([1, 0, 1, 1, 0], [0] * 5, [b"x", b"yy", b""], [PageSpec(5, "RLE_DICTIONARY", crc=True)], codec="SNAPPY", dict_crc=True)
    base = write_file(FileSpec(root, [RowGroupSpec(5, [ca, cb])], optional_meta=True))
    pf = read_file(base)
    if pf.errors():
        return ["validate self-test: base file not clean: %s" % pf.errors()[0]]
    ch0, ch1 = pf.chunks[0][0], pf.chunks[0][1]

    def rg0(ts):
        return ts.get(4).items[0]

    def md(ts, c):
        return rg0(ts).get(1).items[c].get(3)

    def bump(struct_getter, fid, delta=1):
        def f(ts):
            st = struct_getter(ts)
            st.field(fid).value += delta
        return f

    def flip(off):
        b = bytearray(base)
        b[off] ^= 0x40
        return bytes(b)

    def gap(ts):
        for c in (1,):
            m = md(ts, c)
            for fid in (9, 11):
                if m.field(fid) is not None:
                    m.field(fid).value += 3
            rg0(ts).get(1).items[c].field(2).value += 3

    gapped = base[:ch0.end] + b"\0\0\0" + base[ch0.end:]
    cases = [
        ("magic_head", b"PARX" + base[4:]),
        ("magic_tail", base[:-1] + b"2"),
        ("footer_length", base[:-8] + struct.pack("<I", pf.footer_len + 1) + MAGIC),
        ("count_file_rows", rewrite_footer(base, lambda ts: ts.field(3).__setattr__("value", 6))),
        ("count_rg_rows", rewrite_footer(base, bump(rg0, 3))),
        ("count_chunk_values", rewrite_footer(base, bump(lambda ts: md(ts, 0), 5))),
        ("page_chain", rewrite_footer(base, bump(lambda ts: md(ts, 0), 7, -1))),
        ("chunk_overlap", rewrite_footer(base, bump(lambda ts: md(ts, 0), 7, 1))),
        ("size_chunk_uncompressed", rewrite_footer(base, bump(lambda ts: md(ts, 1), 6))),
        ("size_rg_uncompressed", rewrite_footer(base, bump(rg0, 2))),
        ("size_rg_compressed", rewrite_footer(base, bump(rg0, 6))),
        ("page_chain", rewrite_footer(base, bump(lambda ts: md(ts, 0), 9))),
        ("dictionary_offset", rewrite_footer(base, lambda ts: md(ts, 1).set(11, CT_I64, md(ts, 1).get(9)))),
        ("page_crc", flip(ch0.pages[1].body_offset + 2)),
        ("page_crc", flip(ch1.pages[0].body_offset)),
        ("thrift_required_field", rewrite_footer(base, lambda ts: md(ts, 0).remove(4))),
        ("thrift_required_field", rewrite_footer(base, lambda ts: ts.remove(1))),
        # LogicalType members with required fields: DecimalType without scale, IntType without isSigned
        ("thrift_required_field", rewrite_footer(base, lambda ts: ts.get(2).items[1].set(10, CT_STRUCT, TStruct([TField(5, CT_STRUCT,
            TStruct([TField(2, CT_I32, 9)]))])))),
        ("thrift_required_field", rewrite_footer(base, lambda ts: ts.get(2).items[1].set(10, CT_STRUCT, TStruct([TField(10, CT_STRUCT,
            TStruct([TField(1, CT_BYTE, 32)]))])))),
        ("thrift_field_type", rewrite_footer(base, lambda ts: ts.set(3, CT_I32, 5))),
        ("page_decode", rewrite_footer(base, lambda ts: md(ts, 0).set(4, CT_I32, 2))),
        ("codec_tag", rewrite_footer(base, lambda ts: md(ts, 0).set(4, CT_I32, 42))),
        ("encodings_list", rewrite_footer(base, lambda ts: md(ts, 0).set(2, CT_LIST, TList(CT_I32, [3])))),
        ("chunk_type", rewrite_footer(base, lambda ts: md(ts, 0).set(1, CT_I32, 4))),
        ("chunk_path", rewrite_footer(base, lambda ts: md(ts, 0).set(3, CT_LIST, TList(CT_BINARY, [b"zz"])))),
        ("chunk_gap", rewrite_footer(gapped, gap)),
        ("chunk_outside_data_region", rewrite_footer(base, bump(lambda ts: md(ts, 1), 7, 4000))),
        ("schema", rewrite_footer(base, lambda ts: ts.get(2).items[0].set(5, CT_I32, 3))),
        ("schema", rewrite_footer(base, lambda ts: ts.get(2).items[1].remove(3))),
        ("rg_columns", rewrite_footer(base, lambda ts: rg0(ts).get(1).items.pop())),
        ("footer_thrift", base[:pf.footer_start] + b"\x19" * pf.footer_len + base[-8:]),
    ]
    # page header fields changed in place (same encoded length)
    hdr = bytearray(base)
    ts, hend = thrift_decode_struct(base, ch0.pages[0].offset)
    ts.get(5).field(1).value = 4                       # num_values 3 -> 4
    hb = thrift_encode_struct(ts)
    if len(hb) == ch0.pages[0].header_len:
        hdr[ch0.pages[0].offset:ch0.pages[0].offset + len(hb)] = hb
        cases.append(("page_decode", bytes(hdr)))
    for clause, data in cases:
        got = {v.clause for v in read_file(data).validate() if v.severity == "error"}
        if clause not in got:
            fails.append(f"validate(): clause {clause} did not fire (got {sorted(got)})")
    print(f"validate(): {len(cases)} single-fault files, {len(cases) - len(fails)} detected by the intended clause")
    for f in fails:
        print("SELFTEST-FAIL:", f)
    return fails


# ----------------------------------------------------------------------------- self-test (reader part)

def _selftest():
    """Exercises thrift, encodings, the reader/validator on carquet-written files and (when present) the
    reference writer round trip."""
    import time
    t0 = time.time()
    rng = random.Random(12345)
    fails = []

    def check(cond, what):
        """Record a failed expectation."""
        if not cond:
            fails.append(what)
            print("SELFTEST-FAIL:", what)

    # thrift round trip incl. long forms, unknown fields, negative ids
    ts = TStruct([TField(1, CT_I32, -5), TField(2, CT_BINARY, b"abc"), TField(3, CT_TRUE, True), TField(4, CT_FALSE, False),
                  TField(20, CT_LIST, TList(CT_I64, [1, -2, 2 ** 62], long_form=True)), TField(21, CT_STRUCT, TStruct([TField(7, CT_DOUBLE, 1.5)])),
                  TField(300, CT_MAP, TMap(CT_BINARY, CT_I16, [(b"k", 7)])), TField(301, CT_LIST, TList(CT_TRUE, [True, False] * 9)),
                  TField(5, CT_BYTE, -3, long_form=True), TField(-7, CT_I16, -300)])
    enc = thrift_encode_struct(ts)
    back, pos = thrift_decode_struct(enc)
    check(pos == len(enc) and thrift_encode_struct(back) == enc, "thrift round trip")
    check([(f.fid, f.value if not isinstance(f.value, (TList, TStruct, TMap)) else None) for f in back.fields][:4] ==
          [(1, -5), (2, b"abc"), (3, True), (4, False)], "thrift values")
    for bad in (b"\x15", b"\x19\xf5\xff\xff\xff\xff\x0f", b"\x18\x05ab\x00"):
        try:
            thrift_decode_struct(bad)
            check(False, "malformed thrift accepted: " + bad.hex())
        except ThriftError:
            pass
    # hybrid
    for w in (0, 1, 2, 3, 7, 8, 9, 16, 20, 32):
        for n in (0, 1, 7, 8, 9, 17, 64, 100):
            vals = [rng.randrange(1 << w) if rng.random() < 0.5 or i == 0 else None for i in range(n)]
            for i in range(n):
                if vals[i] is None:
                    vals[i] = vals[i - 1]
            for plan in (None, random_plan(rng, vals), random_plan(rng, vals)):
                b = rle_hybrid_encode(vals, w, plan)
                got, used = rle_hybrid_decode(b, 0, len(b), w, n)
                check(got == vals and (used == len(b) or plan is not None), f"hybrid w={w} n={n}")
            b = bitpacked_levels_encode(vals, w)
            check(bitpacked_levels_decode(b, 0, len(b), w, n)[0] == vals, "BIT_PACKED levels")
    check(rle_hybrid_decode(bytes([0x03, 0x88, 0xC6, 0xFA]), 0, 4, 3, 8)[0] == list(range(8)), "Encodings.md bit-packing example")
    # plain
    for t, w in (("BOOLEAN", 1), ("INT32", 4), ("INT96", 12), ("FIXED_LEN_BYTE_ARRAY", 5), ("BYTE_ARRAY", None)):
        vals = [bytes([rng.getrandbits(1)]) if t == "BOOLEAN" else bytes(rng.getrandbits(8) for _ in range(w if w else rng.randrange(0, 9))) for _ in range(19)]
        b = plain_encode(t, vals, 5)
        got, pos = plain_decode(t, b, 0, len(b), 19, 5)
        check(got == vals and pos == len(b), "plain " + t)

    # carquet-written files
    try:
        import filecase as fc
        cases = [fc.gen_case(rng, avoid=set(fc.AVOIDABLE), max_rows=100, long_strings=False) for _ in range(40)]
        paths = [fc.tmppath() for _ in cases]
        sts = fc.write_cases(list(zip(cases, paths)))
        nviol, clauses, tbl_bad = 0, {}, 0
        for cse, p, st in zip(cases, paths, sts):
            if not st.close_ok():
                continue
            pf = read_file(Path(p).read_bytes())
            errs = pf.errors()
            for v in errs:
                clauses[v.clause] = clauses.get(v.clause, 0) + 1
            nviol += bool(errs)
            want = fc.expected_table(cse)
            if pf.fatal or fc.compare_tables(want, pf.table()) is not None:
                tbl_bad += 1
            sch = [(c.name, c.ptype, c.rep, c.type_length) for c in cse.schema.columns]
            check(pf.fatal or pf.schema_summary() == sch, "schema of carquet file")
        print(f"carquet files: 40 parsed, {nviol} with error-level violations {clauses}, {tbl_bad} tables differ")
        check(tbl_bad == 0, "tables decoded from carquet files equal the written tables (avoiding known triggers)")
    except Exception as e:           # the reader tests above stand on their own
        import traceback
        traceback.print_exc()
        check(False, "carquet part: %r" % e)

    if "write_file" in globals():
        fails.extend(_selftest_writer(rng))
        fails.extend(_selftest_validate(rng))
    print(f"pq selftest: {'OK' if not fails else 'FAILED'} in {time.time() - t0:.1f}s")
    return 1 if fails else 0


if __name__ == "__main__":
    if "--selftest" in sys.argv:
        sys.exit(_selftest())
    if len(sys.argv) == 2:
        pf = read_file(Path(sys.argv[1]).read_bytes())
        for v in pf.validate():
            print(v)
        print("rows", pf.num_rows(), "row groups", pf.rg_rows(), "schema", pf.schema_summary())
    else:
        print(__doc__)
