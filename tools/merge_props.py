#!/usr/bin/env python3
"""Development-time tool: assemble Props/Properties_C11.v and Properties_C12.v from the lead's part
(coq/props_src/<id>.head.v) and the sections of Props/Properties_ENC2.v marked
`(* ---...--- <id>: <name> *)` (the enc2 engine's restatements).  Only Theorem / exact / Print Assumptions
text is copied; the result still contains nothing else."""
import re
from pathlib import Path
V = Path(__file__).resolve().parent.parent
enc2 = (V / "coq/theories/Props/Properties_ENC2.v").read_text()
imports = re.search(r"(From Carquet Require Import.*?\.)\n", enc2, re.S).group(1)
imports = imports.replace("From Carquet Require Import", "From Carquet Require Import")
parts = re.split(r"^\(\* -{20,} ", enc2, flags=re.M)
sections = {}
for p in parts[1:]:
    m = re.match(r"(C\d\d): ([^*]*)\*\)\n", p)
    if not m:
        continue
    sections.setdefault(m.group(1), []).append((m.group(2).strip(), p[m.end():].rstrip() + "\n"))
for pid in ("C11", "C12"):
    head = (V / f"coq/props_src/{pid}.head.v").read_text().rstrip() + "\n"
    out = head + "\n(* ====================================================================================\n"
    out += f"   {pid}, other encodings: restated from the enc2 engine (models Enc/Plain*, Delta*, DeltaLen*, DeltaStr*,\n"
    out += "   Bss*, Dict*; values are bit patterns, [len] is the length as N).\n"
    out += "   ==================================================================================== *)\n"
    out += "From Coq Require Import ZArith.\n" + imports + "\n"
    names_head = set(re.findall(r"^Theorem\s+(\S+)", head, re.M))
    for name, body in sections.get(pid, []):
        dup = set(re.findall(r"^Theorem\s+(\S+)", body, re.M)) & names_head
        if dup:
            raise SystemExit(f"duplicate theorem names {dup}")
        out += f"\n(* ---------------------------------------------------------------- {name} *)\n" + body
    (V / f"coq/theories/Props/Properties_{pid}.v").write_text(out)
    print(pid, "sections:", [n for n, _ in sections.get(pid, [])])
