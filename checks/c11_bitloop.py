"""Tie of the LOOP-shaped bit packing model to the code (part of C11; called from checks/C11.py).

  check_bitloop(rep, tier, rng)

Coq side: Enc/BitpackLoopModel.v mirrors carquet_bitunpack8_32 (width 0, the switch to the eight specialised
unpackers, the general while loop) and carquet_bitpack8_32 (width 0, width 8 byte copy, memset + scatter loop)
statement by statement; Enc/BitpackLoopProofs.v proves them equal to the closed form of Enc/BitpackModel.v
(unpack8_c_eq_total, pack8_c_eq_total: every width 0..32, every input).  This check

  * builds Enc/BitpackLoopProofs.vo (a proof that stops compiling = broken tie),
  * runs the extracted loops (ocaml/run_bitloop.ml, Extract/Extract_bitloop.v) and the implementation
    (harness/h_enc.c, ASan+UBSan build of the working tree) on the same cases and compares them:
    for every width 0..32 every single-bit value vector, all-ones, random UNMASKED groups (values up to
    2^32-1) through pack8; every single-bit byte string, all-ones and random byte strings through unpack8;
    short inputs (the driver answers FAULT without calling: caller contract; the model must fault too).

A difference is rep.tie_broken (the lead's check_bitpack compares the implementation with the independent
layout reference on the same family of cases and turns a wrong layout into a violation).
Stand-alone: python3 checks/c11_bitloop.py [quick|thorough]   (prints a summary, writes no evidence file).
"""
import sys, random
from pathlib import Path
sys.path.insert(0, str(Path(__file__).resolve().parent.parent / "tools"))
import vlib
from vlib import build_driver, build_runner, run_sharded


def gen_lines(tier, rng):
    lines = []
    nrand = 24 if tier == "quick" else 400
    for w in range(0, 33):
        top = (1 << w) - 1
        # pack: every single-bit vector over the FULL 32 bits of every slot (bits >= w must be masked away)
        for i in range(8):
            for bit in range(32):
                v = [0] * 8
                v[i] = 1 << bit
                lines.append("pack8 %d %s" % (w, " ".join(map(str, v))))
        lines.append("pack8 %d %s" % (w, " ".join([str(top)] * 8)))
        lines.append("pack8 %d %s" % (w, " ".join(["4294967295"] * 8)))
        lines.append("pack8 %d %s" % (w, " ".join(["0"] * 8)))
        for _ in range(nrand):
            lines.append("pack8 %d %s" % (w, " ".join(str(rng.randint(0, 0xFFFFFFFF)) for _ in range(8))))
        for _ in range(nrand // 4):
            lines.append("pack8 %d %s" % (w, " ".join(str(rng.randint(0, top)) for _ in range(8))))
        # unpack: every single-bit byte string of exactly w bytes, all ones, random; longer input (extra bytes
        # must be ignored); one byte short (fault)
        for byte in range(w):
            for bit in range(8):
                b = bytearray(w)
                b[byte] = 1 << bit
                lines.append("unpack8 %d %s" % (w, vlib.hexs(b)))
        lines.append("unpack8 %d %s" % (w, vlib.hexs(b"\xff" * w)))
        lines.append("unpack8 %d %s" % (w, vlib.hexs(bytes(w))))
        for _ in range(nrand):
            lines.append("unpack8 %d %s" % (w, vlib.hexs(bytes(rng.getrandbits(8) for _ in range(w)))))
        for _ in range(4):
            extra = rng.randint(1, 5)
            lines.append("unpack8 %d %s" % (w, vlib.hexs(bytes(rng.getrandbits(8) for _ in range(w + extra)))))
        if w:
            lines.append("unpack8 %d %s" % (w, vlib.hexs(bytes(rng.getrandbits(8) for _ in range(w - 1)))))
            lines.append("unpack8 %d -" % w)
    return lines


def check_bitloop(rep, tier, rng):
    ok, out = vlib.coq_make(["theories/Enc/BitpackLoopProofs.vo"])
    if not ok:
        rep.tie_broken("loop refinement proof Enc/BitpackLoopProofs.v (unpack8_c_eq_total / pack8_c_eq_total) "
                       "does not build: " + out[-600:])
    try:
        drv = build_driver("h_enc")
        run = build_runner("bitloop")
    except vlib.BuildError as e:
        rep.tie_broken("bit-loop harness does not build against the current tree: " + str(e)[:500])
        return
    lines = gen_lines(tier, rng)
    impl, p1 = run_sharded(drv, lines)
    model, p2 = run_sharded(run, lines)
    for pr in p1:
        rep.violation("carquet_bitpack8_32 / carquet_bitunpack8_32 crashed / sanitizer report: %s" % pr[2][-500:],
                      {"case": pr[3]})
    for pr in p2:
        rep.tie_broken("loop model runner died: %s" % pr[2][-300:], pr[3])
    ndiff = 0
    for li, a, b in zip(lines, impl, model):
        rep.count("bitloop " + li)
        if a != b:
            ndiff += 1
            if ndiff <= 5:
                what = "carquet_bitpack8_32" if li.startswith("pack8") else "carquet_bitunpack8_32"
                rep.tie_broken("the C-shaped loop model (BitpackLoopModel) and %s disagree: model %s impl %s"
                               % (what, b[:120], a[:120]), li)
    rep.cov.setdefault("input_distribution", {})["bitloop"] = len(lines)
    rep.sample({"bitloop_case": lines[len(lines) // 2], "impl": impl[len(lines) // 2][:80]})
    return ndiff


class _SelfRep:
    """minimal stand-in for vlib.Report when the file is run on its own"""
    def __init__(self):
        self.cov = {}
        self.n = 0
        self.bad = []

    def count(self, k, nontrivial=True):
        self.n += 1

    def tie_broken(self, what, case=None, key=None):
        self.bad.append(("tie", what, case))

    def violation(self, what, replay, no_input=False, key=None):
        self.bad.append(("violation", what, replay))

    def sample(self, s, limit=8):
        pass


if __name__ == "__main__":
    tier = sys.argv[1] if len(sys.argv) > 1 else "quick"
    r = _SelfRep()
    check_bitloop(r, tier, random.Random(vlib.SEED * 7919 + 13))
    print("cases", r.n, "problems", len(r.bad))
    for b in r.bad[:10]:
        print(b)
    sys.exit(1 if r.bad else 0)
