"""Independent reference encoders/decoders written from the Parquet "Encodings" document
(PLAIN, DELTA_BINARY_PACKED, DELTA_LENGTH_BYTE_ARRAY, DELTA_BYTE_ARRAY, BYTE_STREAM_SPLIT).

Nothing here looks at carquet's sources; the Coq specifications (Enc/*Spec.v) are a second transcription and
the two are cross-checked through extraction by checks/c11_enc2.py.

Values are unsigned bit patterns (ints); byte strings are `bytes`.
"""

M64 = (1 << 64) - 1


class SpecError(Exception):
    pass


# ------------------------------------------------------------------ ULEB128 / zig-zag

def uleb_enc(v, pad=0):
    """ULEB128 of v; pad > 0 appends up to that many redundant zero groups (same number; at most 10 bytes in all)."""
    out = bytearray()
    while True:
        b = v & 0x7F
        v >>= 7
        if v:
            out.append(b | 0x80)
        else:
            out.append(b)
            break
    pad = max(0, min(pad, 10 - len(out)))
    if pad:
        out[-1] |= 0x80
        out += bytes([0x80] * (pad - 1) + [0x00])
    return bytes(out)


def uleb_dec(buf, pos, maxbytes=10):
    v = 0
    shift = 0
    n = 0
    while True:
        if pos >= len(buf):
            raise SpecError("truncated varint")
        b = buf[pos]
        pos += 1
        n += 1
        v |= (b & 0x7F) << shift
        shift += 7
        if not b & 0x80:
            break
        if n >= maxbytes:
            raise SpecError("varint too long")
    if v > M64:
        raise SpecError("varint exceeds 64 bits")
    return v, pos


def zigzag_enc(x):
    """x: 64-bit two's complement pattern -> zig-zag code"""
    s = x - (1 << 64) if x >> 63 else x
    return (s << 1) if s >= 0 else ((-s) << 1) - 1


def zigzag_dec(z):
    s = (z >> 1) if not z & 1 else -((z + 1) >> 1)
    return s & M64


# ------------------------------------------------------------------ bit packing (LSB first, as in the hybrid)

def bitpack(vals, w):
    acc = 0
    for i, v in enumerate(vals):
        if v >> w:
            raise SpecError("value does not fit the width")
        acc |= v << (i * w)
    return acc.to_bytes((len(vals) * w + 7) // 8, "little")


def bitunpack(buf, n, w):
    acc = int.from_bytes(buf, "little")
    m = (1 << w) - 1
    return [(acc >> (i * w)) & m for i in range(n)]


# ------------------------------------------------------------------ DELTA_BINARY_PACKED

def delta_dec(buf, pos=0, bits=64, max_width=64):
    """Decode one DELTA_BINARY_PACKED stream starting at pos.  Returns (values as `bits`-bit patterns, end position).
    Header: <block size> <miniblocks per block> <total count> <first value zigzag>;
    block: <min delta zigzag> <one width byte per miniblock> <bit-packed miniblocks>.
    Width bytes of miniblocks that hold no value are ignored and such miniblocks occupy no bytes."""
    block, pos = uleb_dec(buf, pos)
    nmini, pos = uleb_dec(buf, pos)
    total, pos = uleb_dec(buf, pos)
    first, pos = uleb_dec(buf, pos)
    if block == 0 or block % 128 or nmini == 0 or block % nmini or (block // nmini) % 32:
        raise SpecError("illegal block geometry")
    per = block // nmini
    mask = (1 << bits) - 1
    vals = []
    if total == 0:
        return vals, pos
    last = zigzag_dec(first)
    vals.append(last & mask)
    while len(vals) < total:
        md, pos = uleb_dec(buf, pos)
        md = zigzag_dec(md)
        if pos + nmini > len(buf):
            raise SpecError("truncated width list")
        widths = buf[pos:pos + nmini]
        pos += nmini
        for w in widths:
            if len(vals) >= total:
                break
            if w > max_width:
                raise SpecError("bit width %d too large" % w)
            nb = per * w // 8
            if pos + nb > len(buf):
                raise SpecError("truncated miniblock")
            ds = bitunpack(buf[pos:pos + nb], per, w)
            pos += nb
            for d in ds:
                if len(vals) >= total:
                    break
                last = (last + md + d) & M64
                vals.append(last & mask)
    return vals, pos


def delta_enc(vals, bits=64, block=128, nmini=4, junk_widths=None, varint_pad=0, min_choice=None, widen=0):
    """Reference encoder.  vals: `bits`-bit patterns.  Arithmetic wraps at `bits` bits (the physical type).
    junk_widths: callable -> width byte used for miniblocks that hold no value (legal: readers must accept any value);
    min_choice: optional callable(list of signed deltas) -> min delta to use (any value <= all deltas is legal
    as long as the adjusted deltas fit); widen: extra bits added to every non-empty miniblock's width (legal, not minimal)."""
    mask = (1 << bits) - 1
    sign = 1 << (bits - 1)

    def sx(p):      # sign-extend a `bits` pattern to a 64-bit pattern
        return (p - (1 << bits)) & M64 if p & sign else p

    out = bytearray()
    out += uleb_enc(block, varint_pad) + uleb_enc(nmini, varint_pad) + uleb_enc(len(vals), varint_pad)
    if not vals:
        out += uleb_enc(0)
        return bytes(out)
    out += uleb_enc(zigzag_enc(sx(vals[0])), varint_pad)
    per = block // nmini
    deltas = []
    for a, b in zip(vals, vals[1:]):
        d = (b - a) & mask          # wraps in the physical type
        deltas.append(d - (1 << bits) if d & sign else d)
    for s in range(0, len(deltas), block):
        blk = deltas[s:s + block]
        md = min(blk) if min_choice is None else min_choice(blk)
        out += uleb_enc(zigzag_enc(md & M64), varint_pad)
        adj = [d - md for d in blk]
        if any(x < 0 or x > M64 for x in adj):
            raise SpecError("min delta choice does not fit")
        widths = []
        body = bytearray()
        for m in range(nmini):
            part = adj[m * per:(m + 1) * per]
            if not part:
                widths.append(junk_widths() if junk_widths else 0)
                continue
            w = min(64, max(x.bit_length() for x in part) + widen)
            widths.append(w)
            body += bitpack(part + [0] * (per - len(part)), w)
        out += bytes(widths) + body
    return bytes(out)


# ------------------------------------------------------------------ DELTA_LENGTH_BYTE_ARRAY / DELTA_BYTE_ARRAY

def delta_length_dec(buf):
    lens, pos = delta_dec(buf, 0, bits=32)
    out = []
    for n in lens:
        if n >> 31:
            raise SpecError("negative length")
        if pos + n > len(buf):
            raise SpecError("truncated data")
        out.append(bytes(buf[pos:pos + n]))
        pos += n
    return out, pos


def delta_length_enc(strs, **kw):
    return delta_enc([len(s) for s in strs], bits=32, **kw) + b"".join(strs)


def delta_strings_dec(buf):
    pre, pos = delta_dec(buf, 0, bits=32)
    suf, pos = delta_dec(buf, pos, bits=32)
    if len(pre) != len(suf):
        raise SpecError("prefix/suffix counts differ")
    out = []
    prev = b""
    for p, n in zip(pre, suf):
        if p >> 31 or n >> 31 or p > len(prev):
            raise SpecError("bad prefix length")
        if pos + n > len(buf):
            raise SpecError("truncated data")
        prev = prev[:p] + bytes(buf[pos:pos + n])
        pos += n
        out.append(prev)
    return out, pos


def delta_strings_enc(strs, shorter_prefix=None, **kw):
    """shorter_prefix: optional callable(maxprefix) -> prefix length to use (any length up to the common prefix is legal)."""
    pre, suf = [], []
    prev = b""
    for s in strs:
        p = 0
        while p < len(prev) and p < len(s) and prev[p] == s[p]:
            p += 1
        if shorter_prefix:
            p = shorter_prefix(p)
        pre.append(p)
        suf.append(s[p:])
        prev = s
    return (delta_enc(pre, bits=32, **kw) + delta_enc([len(x) for x in suf], bits=32, **kw) + b"".join(suf))


# ------------------------------------------------------------------ PLAIN

def plain_enc(ty, vals, flen=0):
    if ty == "bool":
        out = bytearray((len(vals) + 7) // 8)
        for i, v in enumerate(vals):
            if v:
                out[i // 8] |= 1 << (i % 8)
        return bytes(out)
    if ty in ("i32", "f32"):
        return b"".join(int(v).to_bytes(4, "little") for v in vals)
    if ty in ("i64", "f64"):
        return b"".join(int(v).to_bytes(8, "little") for v in vals)
    if ty == "i96":       # vals: flat list of 32-bit words, three per value
        return b"".join(int(v).to_bytes(4, "little") for v in vals)
    if ty == "ba":
        return b"".join(len(s).to_bytes(4, "little") + s for s in vals)
    if ty == "flba":
        return b"".join(vals)
    raise ValueError(ty)


def plain_dec(ty, buf, count, flen=0):
    """-> (values, bytes consumed)"""
    if ty == "bool":
        nb = (count + 7) // 8
        if len(buf) < nb:
            raise SpecError("truncated")
        return [(buf[i // 8] >> (i % 8)) & 1 for i in range(count)], nb
    if ty in ("i32", "f32", "i64", "f64", "i96"):
        w = {"i32": 4, "f32": 4, "i64": 8, "f64": 8, "i96": 12}[ty]
        if len(buf) < w * count:
            raise SpecError("truncated")
        if ty == "i96":
            return [int.from_bytes(buf[4 * i:4 * i + 4], "little") for i in range(3 * count)], w * count
        return [int.from_bytes(buf[w * i:w * i + w], "little") for i in range(count)], w * count
    if ty == "ba":
        pos, out = 0, []
        for _ in range(count):
            if pos + 4 > len(buf):
                raise SpecError("truncated")
            n = int.from_bytes(buf[pos:pos + 4], "little")
            pos += 4
            if n >> 31 or pos + n > len(buf):
                raise SpecError("bad length")
            out.append(bytes(buf[pos:pos + n]))
            pos += n
        return out, pos
    if ty == "flba":
        if len(buf) < flen * count:
            raise SpecError("truncated")
        return [bytes(buf[flen * i:flen * (i + 1)]) for i in range(count)], flen * count
    raise ValueError(ty)


# ------------------------------------------------------------------ BYTE_STREAM_SPLIT

def bss_enc(raw, k):
    """raw: concatenated K-byte values -> K streams, stream j = byte j of every value"""
    raw = bytes(raw)
    return b"".join(raw[j::k] for j in range(k))


def bss_dec(buf, k, n):
    """value i = (stream 0 [i], stream 1 [i], ...), stream j = bytes j*n .. (j+1)*n-1"""
    if len(buf) < k * n:
        raise SpecError("truncated")
    out = bytearray(k * n)
    for j in range(k):
        out[j::k] = buf[j * n:(j + 1) * n]
    return bytes(out)
