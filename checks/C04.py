"""C04 - no input file can make the reader memory-unsafe, hang or leak.

Proof: coq/theories/Props/Properties_C04.v (models Reader/FooterModel.v, Reader/PageBoundsModel.v; proofs
       Reader/FooterProofs.v, Reader/RobustProofs.v): bounds / termination LOGIC of open, get_column, page load
       and decode.  Heap discipline (leaks, double frees, lifetime) is observed here, not proved.
Tie:   (a) tools/gen.d/robust.py + tools/consts.d/robust.json: header window, minimum header read, CARQUET_MAX_*
           limits and which bounds checks each page-load path makes, regenerated from the sources;
       (b) structure-aware mutation of valid files (every footer field through an independent Thrift
           re-encoder, page headers, payloads, truncations, random bytes) x {fread, mmap, buffer} x API call
           sequences (metadata + out-of-range probes, read_batch loops, skip, batch reader with projections),
           each case in a forked ASan+UBSan+LSan worker with CPU / wall-clock limits: any fault, hang or leak
           is a violation (the property's own oracle); the class PageBoundsModel predicts for the modelled
           decisions (open stage, index checks, first page load of every chunk) is compared with the
           observation.
"""
import os, sys, json, random, re, shutil, struct, zlib, hashlib
from pathlib import Path
import vlib
from vlib import Report, prelude, build_driver, build_runner, run_sharded, log

sys.path.insert(0, str(Path(__file__).resolve().parent))
import robust_pq as pq
from robust_pq import Raw, T_TRUE, T_FALSE, T_BYTE, T_I16, T_I32, T_I64, T_DOUBLE, T_BINARY, T_LIST, T_SET, T_MAP, T_STRUCT

PID = "C04"
WRAP = ["-Wl,--wrap=fwrite,--wrap=fflush,--wrap=fclose,--wrap=ferror"]
MODES = ["fread", "mmap", "buffer"]
SCRIPTS = ["M/R7", "M/R1000", "R1/S3,5", "S1000,7", "M/B4,0", "B100,2", "B3,3", "B5,4", "B1000,1", "M/R3/B2,0", "R64/B64,0"]
ENV = {"ASAN_OPTIONS": "detect_leaks=1:abort_on_error=0:exitcode=99:allocator_may_return_null=1:max_allocation_size_mb=256:"
                       "detect_stack_use_after_return=0:malloc_context_size=6"}
RSS_LIMIT_MB = 900
FNAME = {  # names for reports: (struct kind, field id) -> name
    ("FileMetaData", 1): "version", ("FileMetaData", 2): "schema", ("FileMetaData", 3): "num_rows",
    ("FileMetaData", 4): "row_groups", ("FileMetaData", 5): "key_value_metadata", ("FileMetaData", 6): "created_by",
    ("SchemaElement", 1): "type", ("SchemaElement", 2): "type_length", ("SchemaElement", 3): "repetition_type",
    ("SchemaElement", 4): "name", ("SchemaElement", 5): "num_children", ("SchemaElement", 6): "converted_type",
    ("RowGroup", 1): "columns", ("RowGroup", 2): "total_byte_size", ("RowGroup", 3): "num_rows",
    ("ColumnChunk", 1): "file_path", ("ColumnChunk", 2): "file_offset", ("ColumnChunk", 3): "meta_data",
    ("ColumnMetaData", 1): "type", ("ColumnMetaData", 2): "encodings", ("ColumnMetaData", 3): "path_in_schema",
    ("ColumnMetaData", 4): "codec", ("ColumnMetaData", 5): "num_values", ("ColumnMetaData", 6): "total_uncompressed_size",
    ("ColumnMetaData", 7): "total_compressed_size", ("ColumnMetaData", 9): "data_page_offset",
    ("ColumnMetaData", 10): "index_page_offset", ("ColumnMetaData", 11): "dictionary_page_offset",
    ("ColumnMetaData", 12): "statistics",
    ("PageHeader", 1): "type", ("PageHeader", 2): "uncompressed_page_size", ("PageHeader", 3): "compressed_page_size",
    ("PageHeader", 4): "crc", ("PageHeader", 5): "data_page_header", ("PageHeader", 7): "dictionary_page_header",
    ("PageHeader", 8): "data_page_header_v2",
    ("Statistics", 1): "max", ("Statistics", 2): "min", ("Statistics", 5): "max_value", ("Statistics", 6): "min_value",
    ("KeyValue", 1): "key", ("KeyValue", 2): "value",
    ("DataPageHeader", 1): "num_values", ("DataPageHeader", 2): "encoding", ("DataPageHeader", 3): "definition_level_encoding",
    ("DataPageHeader", 4): "repetition_level_encoding", ("DictionaryPageHeader", 1): "num_values",
    ("DictionaryPageHeader", 2): "encoding",
}
CHILD = {("FileMetaData", 2): "SchemaElement", ("FileMetaData", 4): "RowGroup", ("RowGroup", 1): "ColumnChunk",
         ("ColumnChunk", 3): "ColumnMetaData", ("PageHeader", 5): "DataPageHeader", ("PageHeader", 7): "DictionaryPageHeader",
         ("PageHeader", 8): "DataPageHeaderV2", ("ColumnMetaData", 12): "Statistics", ("FileMetaData", 5): "KeyValue",
         ("DataPageHeader", 5): "Statistics"}


def tmpdir():
    d = vlib.VERIF / "build" / "tmp" / "robust" / f"c04_{os.getpid()}"
    shutil.rmtree(d, ignore_errors=True)
    d.mkdir(parents=True)
    return d


# ----------------------------------------------------------------------------- seeds

def python_seeds(rng):
    i32 = lambda x: struct.pack("<i", x)
    i64 = lambda x: struct.pack("<q", x)
    f64 = lambda x: struct.pack("<d", x)
    seeds = []
    seeds.append(("py-dict-crc", pq.build_file([
        {"name": "i", "type": pq.INT32, "rows": [i32(x % 3) for x in range(10)], "dict": True},
        {"name": "s", "type": pq.BYTE_ARRAY, "rep": pq.OPTIONAL,
         "rows": [b"ab", None, b"cd", b"ab", None, b"x", b"", b"ab", b"cd", b"q"], "dict": True},
        {"name": "d", "type": pq.DOUBLE, "rows": [f64(x / 2) for x in range(10)]}], codec=0, with_crc=True)))
    seeds.append(("py-dict-gzip", pq.build_file([
        {"name": "i", "type": pq.INT64, "rows": [i64(x % 4) for x in range(30)], "dict": True},
        {"name": "k", "type": pq.FLBA, "tlen": 3, "rows": [b"abc", b"def"] * 15, "dict": True}], codec=2)))
    seeds.append(("py-kv", pq.build_file([
        {"name": "i", "type": pq.INT32, "rows": [i32(x) for x in range(7)]},
        {"name": "s", "type": pq.BYTE_ARRAY, "rep": pq.OPTIONAL, "rows": [b"a", None, b"bc", b"", None, b"d", b"e"]}],
        kv=[(b"writer.note", b"robust"), (b"empty", b"")], extras=True)))
    seeds.append(("py-plain", pq.build_file([
        {"name": "b", "type": pq.BOOLEAN, "rows": [bool(x & 1) for x in range(13)]},
        {"name": "f", "type": pq.FLBA, "tlen": 4, "rep": pq.OPTIONAL, "rows": [b"wxyz", None] * 6 + [b"1234"]},
        {"name": "t", "type": pq.INT96, "rows": [bytes(range(12))] * 13},
        {"name": "s", "type": pq.BYTE_ARRAY, "rows": [bytes([65 + x]) * x for x in range(13)]}], codec=0)))
    seeds.append(("py-dict-f", pq.build_file([
        {"name": "x", "type": pq.FLOAT, "rows": [struct.pack("<f", x % 2) for x in range(9)], "dict": True, "enc": pq.RLE_DICTIONARY},
        {"name": "y", "type": pq.DOUBLE, "rep": pq.OPTIONAL, "rows": [f64(1.5), None, f64(2.5)] * 3, "dict": True}], codec=0)))
    # nested groups: schema { a: int32 required; g (optional group) { x: int32 required; y (optional group) { z: int64 optional } } }
    lv_x = [1, 0, 1, 1, 0, 1]
    lv_z = [3, 0, 2, 1, 0, 3]
    seeds.append(("py-nested", pq.build_file([
        {"name": "a", "type": pq.INT32, "rows": [i32(x) for x in range(6)]},
        {"name": "x", "path": ["g", "x"], "type": pq.INT32, "levels": lv_x, "max_def": 1, "rows": [i32(7)] * lv_x.count(1)},
        {"name": "z", "path": ["g", "y", "z"], "type": pq.INT64, "levels": lv_z, "max_def": 3, "rows": [i64(9)] * lv_z.count(3)}],
        schema_elems=[("schema", None, None, 2, 0), ("a", pq.INT32, pq.REQUIRED, 0, 0), ("g", None, pq.OPTIONAL, 2, 0),
                      ("x", pq.INT32, pq.REQUIRED, 0, 0), ("y", None, pq.OPTIONAL, 1, 0), ("z", pq.INT64, pq.OPTIONAL, 0, 0)])))
    # logical types (SchemaElement.logicalType: TIME, TIMESTAMP, INTEGER, BSON, UUID, FLOAT16, DECIMAL, STRING)
    unit = lambda k: [[k, T_STRUCT, []]]
    lts = [("t", pq.INT32, [[7, T_STRUCT, [[1, T_TRUE, True], [2, T_STRUCT, unit(1)]]]]),
           ("ts", pq.INT64, [[8, T_STRUCT, [[1, T_TRUE, False], [2, T_STRUCT, unit(3)]]]]),
           ("u8", pq.INT32, [[10, T_STRUCT, [[1, T_BYTE, 8], [2, T_TRUE, False]]]]),
           ("bs", pq.BYTE_ARRAY, [[13, T_STRUCT, []]]),
           ("id", pq.FLBA, [[14, T_STRUCT, []]]),
           ("h", pq.FLBA, [[15, T_STRUCT, []]]),
           ("dec", pq.INT32, [[5, T_STRUCT, [[1, T_I32, 2], [2, T_I32, 9]]]]),
           ("str", pq.BYTE_ARRAY, [[1, T_STRUCT, []]])]
    cols, elems = [], [("schema", None, None, len(lts), 0)]
    for nm, ty, lt in lts:
        tl = 16 if nm == "id" else (2 if nm == "h" else 0)
        rows = [i32(5)] * 4 if ty == pq.INT32 else [i64(5)] * 4 if ty == pq.INT64 else [b"x" * (tl or 3)] * 4
        cols.append({"name": nm, "type": ty, "tlen": tl, "rows": rows})
        elems.append((nm, ty, pq.REQUIRED, 0, tl, lt))
    seeds.append(("py-logical", pq.build_file(cols, schema_elems=elems)))
    # a REPEATED leaf (repetition levels) and an INT96 dictionary
    rl = [0, 1, 1, 0, 0, 1]
    dl = [1, 1, 1, 0, 1, 1]
    seeds.append(("py-repeated", pq.build_file([
        {"name": "r", "type": pq.INT32, "rep_levels": rl, "max_rep": 1, "levels": dl, "max_def": 1, "rows": [i32(3)] * dl.count(1)},
        {"name": "t", "type": pq.INT96, "rows": [bytes(range(12)), bytes(range(1, 13))] * 3, "dict": True}],
        schema_elems=[("schema", None, None, 2, 0), ("r", pq.INT32, pq.REPEATED, 0, 0), ("t", pq.INT96, pq.REQUIRED, 0, 0)])))
    return seeds


def carquet_seeds(tier, rng, drv, tmp):
    specs = ["a:0:20:1:3", "b:1:24:2:4", "c:2:10:1:5", "d:6:15:2:6", "d:0:9:1:7", "c:5:33:1:8", "b:7:12:1:9"]
    if tier == "thorough":
        specs += ["a:1:300:3:10", "d:2:60:3:11", "c:0:8:2:12", "b:0:1:1:13", "a:6:1:1:14"]
    paths = [tmp / f"seed{i}.parquet" for i in range(len(specs))]
    out, _ = run_sharded(drv, [f"gen {s} {p}" for s, p in zip(specs, paths)])
    return [("cq-" + s, p.read_bytes()) for s, p, o in zip(specs, paths, out) if o.startswith("OK")]


# ----------------------------------------------------------------------------- mutation

INTERESTING = [0, 1, -1, 2, 3, 4, 7, 8, 9, 12, 127, 128, 255, 256, 257, 4096, 65535, 65536, 2 ** 24, 2 ** 31 - 1, -2 ** 31,
               2 ** 31, 2 ** 32 - 1, 2 ** 32, 2 ** 62, 2 ** 63 - 1, -2 ** 63, -2, -8, -256, 10000, 10001, 100000, 100001,
               16 * 1024 * 1024, 16 * 1024 * 1024 + 1, 2 ** 30, 2 ** 30 + 1]


def paths_of(tree, kind, prefix=()):
    """All (path, kind, fid, type) of the fields of a decoded struct, recursively."""
    out = []
    for i, f in enumerate(tree):
        if isinstance(f, Raw):
            continue
        fid, t, v = f
        out.append((prefix + (i,), kind, fid, t))
        ck = CHILD.get((kind, fid), "?")
        if t == T_STRUCT:
            out += paths_of(v, ck, prefix + (i, "s"))
        elif t in (T_LIST, T_SET) and v[1] == T_STRUCT:
            for j, it in enumerate(v[2]):
                if not isinstance(it, Raw):
                    out += paths_of(it, ck, prefix + (i, "l", j))
    return out


def node_at(tree, path):
    """The field [fid, t, v] addressed by path."""
    cur = tree
    k = 0
    f = None
    while k < len(path):
        f = cur[path[k]]
        k += 1
        if k < len(path):
            if path[k] == "s":
                cur = f[2]
                k += 1
            else:
                cur = f[2][2][path[k + 1]]
                k += 2
    return f


def mutate_int(rng, v, n):
    r = rng.random()
    if r < 0.45:
        return rng.choice(INTERESTING)
    if r < 0.6:
        return v + rng.choice([-1, 1, -2, 2, 4, -4, 8, 256, -256])
    if r < 0.75:
        return rng.choice([n, n - 1, n + 1, n - 4, n - 8, n - 12, n - 255, n - 256, n - 257, n // 2, n * 2])
    if r < 0.85:
        return v * rng.choice([2, 3, 8, -1, 1000])
    return rng.randrange(-2 ** 63, 2 ** 63)


def deep_value(depth, kind):
    """A deeply nested value of an unknown field (parser skip path)."""
    v = ("list", T_I32, [1], None)
    for _ in range(depth):
        v = ("list", T_LIST, [v], None) if kind == 0 else (("map", T_I32, T_LIST, [(1, v)]) if kind == 2 else v)
        if kind == 1:
            v = ("list", T_STRUCT, [[[1, T_LIST, v]]], None)
    return v


def mutate_tree(rng, tree, kind, n):
    """Mutates one field of the tree in place; returns a label."""
    ps = paths_of(tree, kind)
    if not ps:
        return "empty"
    # favour the fields where two individually plausible values can disagree
    hot = [p for p in ps if (p[1], p[2]) in (("ColumnMetaData", 1), ("ColumnMetaData", 4), ("ColumnMetaData", 5),
                                             ("ColumnMetaData", 9), ("ColumnMetaData", 11), ("SchemaElement", 1),
                                             ("SchemaElement", 2), ("SchemaElement", 3), ("SchemaElement", 5),
                                             ("RowGroup", 3), ("FileMetaData", 3), ("PageHeader", 1), ("PageHeader", 2),
                                             ("PageHeader", 3), ("DataPageHeader", 1), ("DataPageHeader", 2),
                                             ("DictionaryPageHeader", 1), ("PageHeader", 4))]
    path, k, fid, t = rng.choice(hot) if hot and rng.random() < 0.6 else rng.choice(ps)
    f = node_at(tree, path)
    name = f"{k}.{FNAME.get((k, fid), fid)}"
    r = rng.random()
    if r < 0.07:
        # drop the field
        parent = tree
        cur = tree
        kk = 0
        while kk < len(path) - 1:
            ff = cur[path[kk]]
            kk += 1
            if path[kk] == "s":
                cur = ff[2]
                kk += 1
            else:
                cur = ff[2][2][path[kk + 1]]
                kk += 2
        del cur[path[-1]]
        return name + ":dropped"
    if r < 0.11:
        f[1] = rng.choice([T_TRUE, T_BYTE, T_I16, T_I32, T_I64, T_DOUBLE, T_BINARY, T_LIST, T_MAP, T_STRUCT])
        f[2] = Raw(bytes(rng.getrandbits(8) for _ in range(rng.randrange(0, 12))))
        return name + ":retyped"
    if r < 0.14:
        f[0] = rng.choice([0, -1, 100, 32767, -32768, fid + 16, 1, 2, 3])
        return name + ":field-id"
    if t in (T_I16, T_I32, T_I64, T_BYTE):
        f[2] = mutate_int(rng, f[2], n)
        return f"{name}={f[2]}"
    if t in (T_TRUE, T_FALSE):
        f[2] = not f[2]
        return name + ":flipped"
    if t == T_BINARY:
        c = rng.randrange(6)
        if c == 0:
            f[2] = b""
        elif c == 1:
            f[2] = f[2] + bytes(rng.getrandbits(8) for _ in range(rng.choice([1, 300, 5000])))
        elif c == 2:
            f[2] = Raw(pq.varint(rng.choice([len(f[2]) + 1, 2 ** 31 - 1, 2 ** 32 - 1, 2 ** 40, n])) + f[2])   # length lies
        elif c == 3:
            f[2] = b"\x00" + f[2]
        elif c == 4:
            f[2] = f[2][: len(f[2]) // 2]
        else:
            f[2] = bytes(rng.getrandbits(8) for _ in range(len(f[2])))
        return name + ":binary"
    if t == T_DOUBLE:
        f[2] = bytes(rng.getrandbits(8) for _ in range(8))
        return name + ":double"
    if t in (T_LIST, T_SET):
        tag, et, its, decl = f[2]
        c = rng.randrange(8)
        if c == 0 and its:
            its = its[:-1]
        elif c == 1 and its:
            its = its + [its[rng.randrange(len(its))]] * rng.choice([1, 2, 20])
        elif c == 2:
            decl = rng.choice([len(its) + 1, len(its) + 100, 2 ** 31 - 1, 2 ** 32 - 1, 10001, 100001, 0, max(0, len(its) - 1)])
        elif c == 3:
            its = []
        elif c == 4:
            et = rng.choice([T_TRUE, T_BYTE, T_I32, T_I64, T_BINARY, T_LIST, T_STRUCT, T_MAP, 0, 13, 15])
        elif c == 5 and its:
            rng.shuffle(its)
        elif c == 6 and its and et == T_STRUCT:
            its = its + [[[99, T_LIST, deep_value(rng.choice([3, 40, 200, 3000]), rng.randrange(3))]]]
        else:
            its = its * rng.choice([2, 50])
        f[2] = (tag, et, its, decl)
        return name + f":list/{c}"
    if t == T_STRUCT:
        c = rng.randrange(4)
        if c == 0:
            f[2] = []
        elif c == 1:
            f[2] = f[2] + [[rng.choice([50, 99, 200]), T_LIST, deep_value(rng.choice([2, 33, 64, 500, 20000]), rng.randrange(3))]]
        elif c == 2:
            f[2] = f[2] + [f[2][0]] if f[2] else []
        else:
            f[2] = Raw(bytes(rng.getrandbits(8) for _ in range(rng.randrange(1, 40))))
        return name + f":struct/{c}"
    return name + ":untouched"


def reassemble(data, L, footer_tree, keep_len=True, body=None):
    body = data[:L.footer_off] if body is None else body
    fb = pq.enc_struct(footer_tree)
    return bytes(body) + fb + struct.pack("<I", len(fb) & 0xFFFFFFFF) + pq.MAGIC


def shift_offsets(footer_tree, pos, delta):
    """After inserting delta bytes at pos: move every page / chunk offset that lies beyond pos."""
    for rg in pq.items(pq.get(footer_tree, 4)):
        for cc in pq.items(pq.get(rg, 1)):
            for f in cc:
                if f[0] == 2 and isinstance(f[2], int) and f[2] > pos:
                    f[2] += delta
            md = pq.get(cc, 3)
            if md:
                for f in md:
                    if f[0] in (9, 10, 11) and isinstance(f[2], int) and f[2] > pos:
                        f[2] += delta


def all_pages(data, L):
    pages = []
    for gi, ci, md in L.chunks:
        try:
            for off, hdr, hsize, csize in pq.chunk_pages(data, md, L.footer_off):
                pages.append((gi, ci, md, off, hdr, hsize, csize))
        except (pq.ThriftError, ValueError, TypeError):
            pass
    return pages


def mutant(rng, name, data):
    """One mutated file from a valid seed: (bytes, label)."""
    L = pq.layout(data)
    n = len(data)
    import copy
    r = rng.random()
    t = rng.random()
    if t < 0.03:
        return schema_shape(data, rng.choice([1, 2, 3, 5, 8, 16, 33, 64]), rng.choice([INT32_MAX, INT32_MAX - 1, 10 ** 9, 2 ** 20, 65536, -1, -2 ** 31, 0, 2]),
                            rng.choice(["all", "last", "first"]), rootn=rng.choice([None, None, INT32_MAX, -1, 0]))
    if t < 0.05:
        tree = copy.deepcopy(L.footer)
        ensure_var_fields(tree)
        bins = [p for p in paths_of(tree, "FileMetaData") if p[3] == T_BINARY]
        if bins:
            path, k, fid, _ = rng.choice(bins)
            ln = rng.choice(boundary_lengths(True))
            node_at(tree, path)[2] = bytes(0x41 + (i % 23) for i in range(ln))
            return reassemble(data, L, tree), f"length-boundary:{k}.{FNAME.get((k, fid), fid)}={ln}"
    if t < 0.09:
        pages = all_pages(data, L)
        if pages:
            page = rng.choice(pages)
            return page_end_mutant(data, L, page, rng.randrange(-3, page[5] + 4), fix_usize=rng.random() < 0.7)
    if r < 0.42:
        tree = copy.deepcopy(L.footer)
        labels = [mutate_tree(rng, tree, "FileMetaData", n)]
        while rng.random() < 0.25:
            labels.append(mutate_tree(rng, tree, "FileMetaData", n))
        try:
            return reassemble(data, L, tree), "footer:" + "+".join(labels)
        except Exception as e:          # an unencodable tree: fall through to byte noise
            pass
    if r < 0.72:
        pages = all_pages(data, L)
        if pages:
            gi, ci, md, off, hdr, hsize, csize = rng.choice(pages)
            h2 = copy.deepcopy(hdr)
            label = mutate_tree(rng, h2, "PageHeader", n)
            try:
                hb = pq.enc_struct(h2)
            except Exception:
                hb = bytes(rng.getrandbits(8) for _ in range(hsize))
            body = data[:off] + hb + data[off + hsize:L.footer_off]
            tree = copy.deepcopy(L.footer)
            if rng.random() < 0.8:
                shift_offsets(tree, off, len(hb) - hsize)
            return reassemble(data, L, tree, body=body), f"page[{gi},{ci}]@{off}:" + label
    if r < 0.86:
        pages = all_pages(data, L)
        if pages:
            gi, ci, md, off, hdr, hsize, csize = rng.choice(pages)
            payload = bytearray(data[off + hsize:off + hsize + csize])
            c = rng.choice([0, 1, 1, 2, 3, 4])
            if payload and c == 0:
                for _ in range(rng.choice([1, 1, 2, 8])):
                    payload[rng.randrange(len(payload))] ^= 1 << rng.randrange(8)
            elif payload and c == 1:
                # a 32-bit length field: the level-block prefix at the start of the page, or anywhere
                i = 0 if rng.random() < 0.6 else rng.randrange(len(payload))
                payload[i:i + 4] = struct.pack("<I", rng.choice([0xFFFFFFFF, 0x7FFFFFFF, len(payload), len(payload) + 1, 0, 0x80000000]))[:max(0, min(4, len(payload) - i))]
            elif payload and c == 2:
                payload = payload[:rng.randrange(len(payload))]      # payload shorter than the header says
            elif c == 3:
                payload = bytearray(rng.getrandbits(8) for _ in range(len(payload)))
            else:
                payload[:1] = bytes([rng.choice([0, 1, 31, 32, 33, 64, 255])])   # e.g. the bit width byte
            h2 = copy.deepcopy(hdr)
            if len(payload) == csize and rng.random() < 0.7:
                for f in h2:
                    if f[0] == 4:
                        c32 = zlib.crc32(bytes(payload))
                        f[2] = c32 if c32 < 2 ** 31 else c32 - 2 ** 32
            hb = pq.enc_struct(h2)
            body = data[:off] + hb + bytes(payload) + data[off + hsize + csize:L.footer_off]
            tree = copy.deepcopy(L.footer)
            shift_offsets(tree, off, len(hb) + len(payload) - hsize - csize)
            return reassemble(data, L, tree, body=body), f"payload[{gi},{ci}]@{off}/{c}"
    if r < 0.93:
        # the data area loses bytes but the footer keeps its offsets (offset vs file size)
        cut = rng.randrange(4, max(5, L.footer_off))
        return reassemble(data, L, L.footer, body=data[:cut]), f"data-area-cut@{cut}"
    if r < 0.97:
        b = bytearray(data)
        for _ in range(rng.choice([1, 2, 4, 16])):
            b[rng.randrange(len(b))] = rng.getrandbits(8)
        return bytes(b), "random-bytes"
    # framed garbage: valid magics and footer length, random or thrift-looking footer
    k = rng.choice([0, 1, 5, 40, 300])
    junk = bytes(rng.choice([0x19, 0x1c, 0x15, 0x16, 0x18, 0x2c, 0x00, 0xff, rng.getrandbits(8)]) for _ in range(k))
    return pq.MAGIC + b"\x00" * rng.choice([0, 4, 64]) + junk + struct.pack("<I", len(junk)) + pq.MAGIC, "framed-garbage"



# ----------------------------------------------------------------------------- targeted generators (mechanisms)

def arena_geometry():
    """Block size and alignment of the metadata arena, read from the current sources (core/arena.h)."""
    import gen_consts
    try:
        mac = gen_consts.file_macros((vlib.REPO / "src/core/arena.h").read_text())
        return (gen_consts._eval_c(mac["CARQUET_ARENA_DEFAULT_BLOCK_SIZE"], mac), gen_consts._eval_c(mac["CARQUET_ARENA_ALIGNMENT"], mac))
    except Exception:
        return (65536, 16)


def boundary_lengths(dense):
    """Lengths of variable-length footer fields around the allocator's block geometry (k * block size +- 16)
    and around powers of two."""
    block, align = arena_geometry()
    ds = range(-align, align + 1) if dense else (-align, -align // 2 - 1, -align // 2, -align // 2 + 1, -1, 0, 1, align // 2, align)
    out = []
    for k in (1, 2):
        out += [k * block + d for d in ds]
    for p2 in range(8, 18):
        out += [2 ** p2 + d for d in (-1, 0, 1)]
    return sorted(set(x for x in out if x >= 0))


def ensure_var_fields(tree):
    """Make sure the footer has statistics (all four binaries) in its first column chunk and a key/value entry."""
    for rg in pq.items(pq.get(tree, 4)):
        for cc in pq.items(pq.get(rg, 1)):
            md = pq.get(cc, 3)
            if md is None:
                continue
            st = pq.get(md, 12)
            if st is None:
                st = []
                md.append([12, T_STRUCT, st])
                md.sort(key=lambda f: f[0])
            have = {f[0] for f in st}
            for fid in (1, 2, 5, 6):
                if fid not in have:
                    st.append([fid, T_BINARY, b"v"])
            st.sort(key=lambda f: f[0])
            break
        break
    if pq.get(tree, 5) is None:
        tree.append([5, T_LIST, ("list", T_STRUCT, [[[1, T_BINARY, b"key"], [2, T_BINARY, b"value"]]], None)])
        tree.sort(key=lambda f: f[0])


def length_sweep(name, data):
    """Every kind of variable-length footer field x boundary lengths: (bytes, label) list."""
    import copy
    L = pq.layout(data)
    base = copy.deepcopy(L.footer)
    ensure_var_fields(base)
    kinds = {}
    for path, k, fid, t in paths_of(base, "FileMetaData"):
        if t == T_BINARY and (k, fid) not in kinds:
            kinds[(k, fid)] = path
    out = []
    # elements of list<binary> fields (path_in_schema): the first element takes the boundary lengths
    seen_lb = set()
    for path, k, fid, t in paths_of(base, "FileMetaData"):
        f0 = node_at(base, path)
        if t in (T_LIST, T_SET) and f0[2][1] == T_BINARY and f0[2][2] and (k, fid) not in seen_lb:
            seen_lb.add((k, fid))
            for ln in boundary_lengths(False):
                tree = copy.deepcopy(base)
                f = node_at(tree, path)
                tag, et, its, decl = f[2]
                f[2] = (tag, et, [bytes(0x61 + (i % 26) for i in range(ln))] + list(its[1:]), decl)
                out.append((reassemble(data, L, tree), f"length-sweep:{k}.{FNAME.get((k, fid), fid)}[0]={ln}"))
    for (k, fid), path in kinds.items():
        dense = k == "Statistics"          # allocated with the arena's default alignment: every length of the window
        for ln in boundary_lengths(dense):
            tree = copy.deepcopy(base)
            node_at(tree, path)[2] = bytes((i * 7 + ln) & 0x7F | 0x20 for i in range(ln))
            out.append((reassemble(data, L, tree), f"length-sweep:{k}.{FNAME.get((k, fid), fid)}={ln}"))
    # the same fields with a NUL inside the string (legal Thrift binary; a C-string copy that measures with strlen but
    # copies the declared length writes behind its allocation): short, one arena block and beyond one arena block
    for (k, fid), path in list(kinds.items()) + [((k, fid), path) for path, k, fid, t in paths_of(base, "FileMetaData")
                                                   if t in (T_LIST, T_SET) and node_at(base, path)[2][1] == T_BINARY and node_at(base, path)[2][2]][:2]:
        for ln in (2, 9, 300, 65536, 70000):
            tree = copy.deepcopy(base)
            f = node_at(tree, path)
            s = b"x\x00" + b"Z" * (ln - 2)
            if isinstance(f[2], tuple):
                tag, et, its, decl = f[2]
                f[2] = (tag, et, [s] + list(its[1:]), decl)
                lab = f"embedded-nul:{k}.{FNAME.get((k, fid), fid)}[0]={ln}"
            else:
                f[2] = s
                lab = f"embedded-nul:{k}.{FNAME.get((k, fid), fid)}={ln}"
            out.append((reassemble(data, L, tree), lab))
    return out


INT32_MAX = 2 ** 31 - 1


def schema_shape(data, depth, nchild, which, rootn=None):
    """Nested groups in front of the leaves: schema -> g0 -> ... -> g(depth-1) -> original leaves.
    which: 'all' = every group declares nchild children, 'last' = only the innermost, 'first' = only the outermost."""
    import copy
    L = pq.layout(data)
    tree = copy.deepcopy(L.footer)
    sch = pq.get(tree, 2)
    elems = list(sch[2])
    root, leaves = elems[0], elems[1:]
    groups = []
    for i in range(depth):
        declared = nchild if (which == "all" or (which == "last" and i == depth - 1) or (which == "first" and i == 0)) else 1
        if i == depth - 1 and declared == 1:
            declared = len(leaves)
        groups.append([[3, T_I32, 1], [4, T_BINARY, b"g%d" % i], [5, T_I32, declared]])
    for f in root:
        if f[0] == 5:
            f[2] = 1 if rootn is None else rootn
    for f in tree:
        if f[0] == 2:
            f[2] = ("list", T_STRUCT, [root] + groups + leaves, None)
    return reassemble(data, L, tree), f"schema-shape:depth={depth},num_children={nchild},{which}" + (f",root={rootn}" if rootn is not None else "")


def schema_sweep(name, data):
    out = []
    for depth in (1, 4, 16, 64):
        for nchild in (INT32_MAX, -1):
            out.append(schema_shape(data, depth, nchild, "all"))
    out.append(schema_shape(data, 2, INT32_MAX, "last"))
    out.append(schema_shape(data, 3, 10 ** 9, "first", rootn=INT32_MAX))
    return out


def raw_varint(n):
    """LEB128 of n taken modulo 2^64 (up to 10 bytes), no zig-zag: the wire form of binary lengths and list / map sizes."""
    n &= (1 << 64) - 1
    out = bytearray()
    while True:
        b = n & 0x7F
        n >>= 7
        if n:
            out.append(b | 0x80)
        else:
            out.append(b)
            return bytes(out)


def wrap_lengths(dense):
    """Lengths / sizes whose 32- or 64-bit arithmetic can wrap: around 2^31, 2^32, 2^63 and 2^64 - k (so that
    `pos + n` lands on every position in front of and at the current one)."""
    vals = []
    for base in (2 ** 31, 2 ** 32, 2 ** 63):
        vals += [base + d for d in (-2, -1, 0, 1, 2)]
    vals += [2 ** 64 - k for k in (range(1, 65) if dense else (1, 2, 3, 4, 8, 12, 13, 16, 32, 64))]
    vals += [2 ** 35, 2 ** 56 + 5, (1 << 64) - (1 << 31)]
    return vals


def varint_length_sweep(name, data):
    """Binary / string lengths and list / map sizes as 5..10-byte varints, as known string fields and as unknown
    fields, in the footer and in a page header."""
    import copy
    L = pq.layout(data)
    out = []

    def footer_case(mut, label):
        tree = copy.deepcopy(L.footer)
        mut(tree)
        out.append((reassemble(data, L, tree), label))

    for n in wrap_lengths(True):
        footer_case(lambda t: t.append(Raw(bytes([T_BINARY]) + pq.varint(pq.zz(99)) + raw_varint(n) + b"xyz")),
                    f"varint-length:FileMetaData.unknown-binary={n}")
    for n in wrap_lengths(False):
        def known(t, n=n):
            for f in t:
                if f[0] == 6:
                    f[2] = Raw(raw_varint(n) + b"robust")
            if pq.get(t, 6) is None:
                t.append([6, T_BINARY, Raw(raw_varint(n) + b"robust")])
        footer_case(known, f"varint-length:FileMetaData.created_by={n}")

        def name_len(t, n=n):
            e = pq.items(pq.get(t, 2))[1]
            for f in e:
                if f[0] == 4:
                    f[2] = Raw(raw_varint(n) + b"nm")
        footer_case(name_len, f"varint-length:SchemaElement.name={n}")
        footer_case(lambda t, n=n: t.append(Raw(bytes([T_LIST]) + pq.varint(pq.zz(98)) + bytes([0xF0 | T_BINARY]) + raw_varint(n) + b"\x01a")),
                    f"varint-length:FileMetaData.unknown-list-size={n}")
        footer_case(lambda t, n=n: t.append(Raw(bytes([T_MAP]) + pq.varint(pq.zz(97)) + raw_varint(n) + bytes([(T_BINARY << 4) | T_BINARY]) + b"\x01a\x01b")),
                    f"varint-length:FileMetaData.unknown-map-size={n}")

        def rg_list(t, n=n):
            for f in t:
                if f[0] == 4:
                    tag, et, its, _ = f[2]
                    f[2] = Raw(bytes([0xF0 | T_STRUCT]) + raw_varint(n) + b"".join(pq.enc_struct(x) for x in its))
        footer_case(rg_list, f"varint-length:FileMetaData.row_groups-size={n}")
    pages = all_pages(data, L)
    if pages:
        gi, ci, md, off, hdr, hsize, csize = pages[0]
        for n in wrap_lengths(True):
            for where in ("PageHeader", "DataPageHeader"):
                h2 = copy.deepcopy(hdr)
                tgt = h2 if where == "PageHeader" else pq.get(h2, 5)
                if tgt is None:
                    continue
                tgt.append(Raw(bytes([T_BINARY]) + pq.varint(pq.zz(99)) + raw_varint(n) + b"xyz"))
                hb = pq.enc_struct(h2)
                body = data[:off] + hb + data[off + hsize:L.footer_off]
                tree = copy.deepcopy(L.footer)
                shift_offsets(tree, off, len(hb) - hsize)
                out.append((reassemble(data, L, tree, body=body), f"varint-length:{where}.unknown-binary={n}"))
    return out


def footer_prefix_sweep(name, data):
    """The footer cut at every byte (the framing - length word and magics - stays consistent): every way the
    Thrift parser can run out of input inside the metadata."""
    L = pq.layout(data)
    fb = data[L.footer_off:L.n - 8]
    out = []
    for k in range(len(fb)):
        img = data[:L.footer_off] + fb[:k] + struct.pack("<I", k) + pq.MAGIC
        out.append((img, f"footer-prefix:{k}/{len(fb)}"))
    # an unknown DOUBLE / BYTE / UUID-typed field cut short at the end of the footer (thrift_skip past the buffer)
    for ty, have in ((7, 3), (3, 0), (13, 9)):
        tail = bytes([ty]) + pq.varint(pq.zz(77)) + bytes(have)
        cut = fb[:-1] + tail
        out.append((data[:L.footer_off] + cut + struct.pack("<I", len(cut)) + pq.MAGIC, f"footer-skip-truncated:type={ty}"))
    return out


def level_garbage_cases(name, data):
    """The level blocks of pages that have levels, replaced by byte patterns the RLE / bit-packed hybrid decoder
    must reject or run out of (CRC recomputed)."""
    import copy
    L = pq.layout(data)
    out = []
    for page in all_pages(data, L):
        gi, ci, md, off, hdr, hsize, csize = page
        if pq.get(hdr, 1) != 0 or pq.get(md, 4) != 0 or csize < 6:
            continue
        payload = data[off + hsize:off + hsize + csize]
        blen = struct.unpack("<I", payload[:4])[0]
        if blen == 0 or 4 + blen > csize:
            continue
        for tag, pat in (("ff", b"\xff"), ("00", b"\x00"), ("03", b"\x03"), ("02", b"\x02"), ("fe", b"\xfe\xff\xff\xff\x0f")):
            blk = (pat * blen)[:blen]
            p2 = payload[:4] + blk + payload[4 + blen:]
            h2 = copy.deepcopy(hdr)
            for f in h2:
                if f[0] == 4:
                    c32 = zlib.crc32(p2)
                    f[2] = c32 if c32 < 2 ** 31 else c32 - 2 ** 32
            hb = pq.enc_struct(h2)
            body = data[:off] + hb + p2 + data[off + hsize + csize:L.footer_off]
            tree = copy.deepcopy(L.footer)
            shift_offsets(tree, off, len(hb) - hsize)
            out.append((reassemble(data, L, tree, body=body), f"levels-garbage[{gi},{ci}]:{tag}"))
    return out


def page_end_mutant(data, L, page, d, fix_usize=True):
    """compressed_page_size such that the page ends d bytes behind the end of the FILE (d <= 0: inside)."""
    import copy
    gi, ci, md, off, hdr, hsize, csize = page
    hb = None
    hs = hsize
    for _ in range(3):
        n2 = len(data) + (hs - hsize)
        h2 = copy.deepcopy(hdr)
        for f in h2:
            if f[0] == 3:
                f[2] = n2 - off - hs + d
            if f[0] == 2 and fix_usize and pq.get(md, 4) == 0:
                f[2] = n2 - off - hs + d
        hb = pq.enc_struct(h2)
        if len(hb) == hs:
            break
        hs = len(hb)
    body = data[:off] + hb + data[off + hsize:L.footer_off]
    tree = copy.deepcopy(L.footer)
    shift_offsets(tree, off, len(hb) - hsize)
    return reassemble(data, L, tree, body=body), f"page-end[{gi},{ci}]@{off}:compressed_page_size=file_end{d:+d}"


def page_end_sweep(name, data):
    L = pq.layout(data)
    pages = all_pages(data, L)
    out = []
    for page in pages[-2:]:
        for d in range(-2, page[5] + 3):
            out.append(page_end_mutant(data, L, page, d))
    return out



# ----------------------------------------------------------------------------- deep nestings in skipped fields

NEST_KINDS = "LSKVF"
NEST_TYPE = {"L": T_LIST, "S": T_SET, "K": T_MAP, "V": T_MAP, "F": T_STRUCT}


def nest_field(kinds, fid):
    """One struct field (long-form header, id `fid`, unknown to the parser) whose value is the chain of containers
    `kinds` (outermost first; L list, S set, K map nested in the key, V map nested in the value, F struct) around one
    byte: well-formed at every depth, so a parser without a depth bound recurses once per constructor."""
    pre, suf = bytearray(), bytearray()
    for i, k in enumerate(kinds):
        t = NEST_TYPE[kinds[i + 1]] if i + 1 < len(kinds) else T_BYTE
        if k in "LS":
            pre.append(0x10 | t)
        elif k == "K":
            pre += bytes([0x01, (t << 4) | T_BYTE])
            suf.append(0x00)
        elif k == "V":
            pre += bytes([0x01, (T_BYTE << 4) | t, 0x00])
        else:
            pre.append(0x10 | t)
            suf.append(0x00)
    return bytes([NEST_TYPE[kinds[0]]]) + pq.varint(pq.zz(fid)) + bytes(pre) + b"\x07" + bytes(reversed(suf))


def first_struct(tree, route):
    """Follow a route of field ids through a decoded tree (lists: first element) to a struct (field list)."""
    cur = tree
    for fid in route:
        v = pq.get(cur, fid)
        if v is None:
            return None
        if isinstance(v, tuple) and v[0] == "list":
            if not v[2]:
                return None
            v = v[2][0]
        cur = v
    return cur


FOOTER_SPOTS = {"FileMetaData": (), "SchemaElement": (2,), "RowGroup": (4,), "ColumnChunk": (4, 1), "ColumnMetaData": (4, 1, 3)}


def nesting_sweep(name, data, tier):
    """Deep container / struct nestings as unknown fields of the footer, of its sub-structs and of a page header."""
    import copy
    L = pq.layout(data)
    out = []
    chains = []
    for k in NEST_KINDS:
        for d in (31, 32, 33, 1000):
            chains.append(k * d)
    for a in NEST_KINDS:
        for b in NEST_KINDS:
            if a < b:
                chains.append(((a + b) * 17)[:33])
                chains.append(((b + a) * 600)[:1000])
    for spot, route in FOOTER_SPOTS.items():
        deep = [k * 200000 for k in (NEST_KINDS if tier == "thorough" or spot in ("FileMetaData", "ColumnMetaData") else "L")]
        for ch in chains + deep:
            tree = copy.deepcopy(L.footer)
            st = first_struct(tree, route)
            if st is None:
                continue
            st.append(Raw(nest_field(ch, 99)))
            out.append((reassemble(data, L, tree), f"nesting:{spot}.unknown99={ch[:2]}x{len(ch)}"))
    pages = all_pages(data, L)
    if pages:
        gi, ci, md, off, hdr, hsize, csize = pages[0]
        for inner in (None, 5):
            for k in NEST_KINDS:
                for d in (31, 32, 33, 60):
                    h2 = copy.deepcopy(hdr)
                    tgt = h2 if inner is None else pq.get(h2, inner)
                    if tgt is None:
                        continue
                    tgt.append(Raw(nest_field(k * d, 99)))
                    hb = pq.enc_struct(h2)
                    body = data[:off] + hb + data[off + hsize:L.footer_off]
                    tree = copy.deepcopy(L.footer)
                    shift_offsets(tree, off, len(hb) - hsize)
                    out.append((reassemble(data, L, tree, body=body),
                                f"nesting:{'PageHeader' if inner is None else 'DataPageHeader'}.unknown99={k}x{d}"))
    return out


def footer_length_images():
    """Tiny images with valid magics and every declared footer length around the size of the image: the result
    must be an error on all three paths, the same one, and never an access outside an exact-size buffer."""
    out = []
    for size in (12, 13, 16, 19, 24, 40):
        for ln in sorted(set([max(0, size - 16 + d) for d in range(0, 25)] + [0xFFFFFFFF - d for d in range(0, 16)] + [0x7FFFFFFF, 0x80000000])):
            img = pq.MAGIC + bytes(size - 12) + struct.pack("<I", ln & 0xFFFFFFFF) + pq.MAGIC
            out.append((img, f"footer-length-image:size={size},declared={ln}"))
    return out



def every_int_field_sweep(name, data):
    """Every integer field of the footer and of every page header at value-1 / value+1 (both sides of the
    comparisons the reader makes), one field per file."""
    import copy
    L = pq.layout(data)
    out = []
    for path, k, fid, t in paths_of(L.footer, "FileMetaData"):
        if t in (T_I16, T_I32, T_I64, T_BYTE):
            for d in (-1, 1):
                tree = copy.deepcopy(L.footer)
                f = node_at(tree, path)
                f[2] = f[2] + d
                out.append((reassemble(data, L, tree), f"int-sweep:{k}.{FNAME.get((k, fid), fid)}{d:+d}"))
    for page in all_pages(data, L):
        gi, ci, md, off, hdr, hsize, csize = page
        for path, k, fid, t in paths_of(hdr, "PageHeader"):
            if t in (T_I16, T_I32, T_I64, T_BYTE):
                for d in (-1, 1):
                    h2 = copy.deepcopy(hdr)
                    f = node_at(h2, path)
                    f[2] = f[2] + d
                    hb = pq.enc_struct(h2)
                    body = data[:off] + hb + data[off + hsize:L.footer_off]
                    tree = copy.deepcopy(L.footer)
                    shift_offsets(tree, off, len(hb) - hsize)
                    out.append((reassemble(data, L, tree, body=body), f"int-sweep:page[{gi},{ci}].{k}.{FNAME.get((k, fid), fid)}{d:+d}"))
    return out


def special_cases(byname):
    """Inputs aimed at rejection branches no random mutant reaches (coverage audit)."""
    import copy
    out = []
    # (1) chunk type and schema type agree on a value outside the enum / on every type code: the default branches of the
    #     value-size switches
    for nm in ("py-plain", "py-dict-crc"):
        data = byname[nm]
        L = pq.layout(data)
        for ty in (8, 9, 16, 255, -1, 2 ** 31 - 1):
            tree = copy.deepcopy(L.footer)
            for e in pq.items(pq.get(tree, 2))[1:]:
                for f in e:
                    if f[0] == 1:
                        f[2] = ty
            for rg in pq.items(pq.get(tree, 4)):
                for cc in pq.items(pq.get(rg, 1)):
                    for f in (pq.get(cc, 3) or []):
                        if f[0] == 1:
                            f[2] = ty
            out.append((nm, reassemble(data, L, tree), f"special:all-types={ty}"))
        # (2) schema with the root only / without the root's children
        tree = copy.deepcopy(L.footer)
        for f in tree:
            if f[0] == 2:
                f[2] = ("list", T_STRUCT, f[2][2][:1], None)
        out.append((nm, reassemble(data, L, tree), "special:schema-root-only"))
        tree = copy.deepcopy(L.footer)
        for f in tree:
            if f[0] == 2:
                root = copy.deepcopy(f[2][2][0])
                for g in root:
                    if g[0] == 5:
                        g[2] = 0
                f[2] = ("list", T_STRUCT, [root], None)
        out.append((nm, reassemble(data, L, tree), "special:schema-single-leaf-root"))
    # (2b) row groups with fewer column chunks than the schema has leaves (the indices in between must be refused),
    #      on a zero-copy capable file: chunks that follow the array in the arena must not be mistaken for members
    for nm in ("py-plain", "py-kv"):
        data = byname[nm]
        L = pq.layout(data)
        for drop in (1, 2):
            tree = copy.deepcopy(L.footer)
            for rg in pq.items(pq.get(tree, 4)):
                for f in rg:
                    if f[0] == 1:
                        tag, et, its, decl = f[2]
                        f[2] = (tag, et, its[:max(0, len(its) - drop)], decl)
            out.append((nm, reassemble(data, L, tree), f"special:row-group-short-by-{drop}"))
    # (3) a BOOLEAN column with a dictionary page (no dictionary support for that type: NOT_IMPLEMENTED)
    out.append(("py-bool-dict", pq.build_file([{"name": "b", "type": pq.BOOLEAN, "rows": [True, False, True, True], "dict": True}]),
                "special:boolean-dictionary"))
    # (4) Thrift primitives: a varint that never ends / overflows 64 bits, a list size that is negative as int32
    data = byname["py-plain"]
    L = pq.layout(data)
    for label, raw in (("varint-overflow", b"\xff" * 11 + b"\x01"), ("varint-unterminated", b"\xff" * 9)):
        tree = copy.deepcopy(L.footer)
        for f in tree:
            if f[0] == 3:
                f[2] = Raw(raw)
        out.append(("py-plain", reassemble(data, L, tree), f"special:{label}"))
    for decl in (2 ** 31, 2 ** 32 - 1, 2 ** 31 + 5):
        tree = copy.deepcopy(L.footer)
        for f in tree:
            if f[0] == 4:
                tag, et, its, _ = f[2]
                f[2] = (tag, et, its, decl)
        out.append(("py-plain", reassemble(data, L, tree), f"special:list-size={decl}"))
    # (4b) a long-form field header whose field id is a varint that overflows / never ends: thrift_read_field_begin
    #      returns "a field" with the decoder already in error (footer and page header)
    for label, raw in (("field-id-overflow", bytes([0x05]) + b"\xff" * 11), ("field-id-unterminated", bytes([0x06]) + b"\x80" * 3)):
        tree = copy.deepcopy(L.footer)
        tree.append(Raw(raw))
        out.append(("py-plain", reassemble(data, L, tree), f"special:footer-{label}"))
        pages = all_pages(data, L)
        gi, ci, md, off, hdr, hsize, csize = pages[0]
        h2 = copy.deepcopy(hdr)
        h2.append(Raw(raw))
        hb = pq.enc_struct(h2)
        body = data[:off] + hb + data[off + hsize:L.footer_off]
        tree = copy.deepcopy(L.footer)
        shift_offsets(tree, off, len(hb) - hsize)
        out.append(("py-plain", reassemble(data, L, tree, body=body), f"special:page-header-{label}"))
    # (5) BYTE_ARRAY dictionary whose declared entry count passes the page-size test but exceeds the entries present
    data = byname["py-dict-crc"]
    L = pq.layout(data)
    for page in all_pages(data, L):
        gi, ci, md, off, hdr, hsize, csize = page
        if pq.get(hdr, 1) == 2 and pq.get(md, 1) == pq.BYTE_ARRAY:
            for extra in (1, 2):
                h2 = copy.deepcopy(hdr)
                for f in pq.get(h2, 7):
                    if f[0] == 1:
                        f[2] += extra
                hb = pq.enc_struct(h2)
                body = data[:off] + hb + data[off + hsize:L.footer_off]
                tree = copy.deepcopy(L.footer)
                shift_offsets(tree, off, len(hb) - hsize)
                out.append(("py-dict-crc", reassemble(data, L, tree, body=body), f"special:dictionary-entries+{extra}"))
    return out


# ----------------------------------------------------------------------------- running and judging

def key_of(line):
    """Stable key of a fault: kind class + the first frame inside the library."""
    t = line.split()
    kind, where = t[1], t[2]
    k = re.sub(r"^asan-", "", kind)
    return f"C04:{k}@{where}"


def classify(line):
    if line.startswith("FAULT"):
        return "FAULT"
    if line.startswith("OK") or line.startswith("ERR") or line.startswith("BADERR") or line.startswith("LIVELOCK"):
        return line.split()[0]
    return "?"


def run_cases(rep, drv, cases, tmp, tag):
    """cases: list of (name, bytes, label, mode, script).  Returns list of output lines."""
    lines = []
    for i, (name, data, label, mode, script) in enumerate(cases):
        p = tmp / f"{tag}{i}.parquet"
        p.write_bytes(data)
        lines.append(f"read {mode} {script} {p}")
    out, probs = run_sharded(drv, lines, timeout=3000, env=ENV)
    for pr in probs:
        rep.tie_broken(f"driver process died outside a forked case (rc={pr[1]}): {pr[2][-300:]}", pr[3])
    return out


def judge(rep, cases, out, stats):
    for (name, data, label, mode, script), o in zip(cases, out):
        rep.count(hashlib.sha1(data).hexdigest() + f"{mode}{script}", nontrivial=True)
        c = classify(o)
        stats[c] = stats.get(c, 0) + 1
        replay = {"seed_file": name, "mutation": label, "mode": mode, "script": script, "file_hex": data.hex(), "observed": o[:400]}
        if c == "FAULT":
            kind = o.split()[1]
            stats["fault:" + key_of(o)] = stats.get("fault:" + key_of(o), 0) + 1
            if kind == "ubsan-arith":
                # undefined behaviour that is not a bounds violation is tracked separately (DESIGN.md section 10)
                stats["ubsan-arith"] = stats.get("ubsan-arith", 0) + 1
                rep.cov.setdefault("ubsan_reports", [])
                if len(rep.cov["ubsan_reports"]) < 5:
                    rep.cov["ubsan_reports"].append({"where": o.split()[2], "mutation": label})
                continue
            rep.violation(f"{MODES[mode]} reader, calls {script}, mutation {label} of {name}: {o[:260]}", replay, key=key_of(o))
        elif c == "BADERR":
            rep.violation(f"a failing call did not report a non-OK code with a terminated message, or accepted an out-of-range index "
                          f"({MODES[mode]}, {script}, {label}): {o[:200]}", replay, key="C04:baderr")
        elif c == "LIVELOCK":
            rep.violation(f"the reading loop makes no progress ({MODES[mode]}, {script}, {label}): {o[:200]}", replay,
                          key="C04:livelock")
        elif c == "?":
            rep.tie_broken(f"unexpected driver output: {o[:200]}", label)
        else:
            m = re.search(r"rss=(\d+)", o)
            if m and int(m.group(1)) > RSS_LIMIT_MB:
                rep.violation(f"resident memory {m.group(1)} MB for a {len(data)}-byte file ({MODES[mode]}, {script}, {label})",
                              replay, key="C04:rss")



# ----------------------------------------------------------------------------- model tie

def check_model_tie(rep, drv, run, cases, tmp, tag):
    """cases: (name, bytes, label).  For every case x three modes: observe the modelled decisions one by one
    (harness op `probe`) and compare with what the extracted PageBoundsModel predicts."""
    lines, keys = [], []
    for i, (name, data, label) in enumerate(cases):
        p = tmp / f"{tag}{i}.parquet"
        p.write_bytes(data)
        for mode in range(3):
            lines.append(f"probe {mode} {p}")
            keys.append((i, mode))
    out, probs = run_sharded(drv, lines, timeout=3000, env=ENV)
    for pr in probs:
        rep.tie_broken(f"driver process died outside a forked case (rc={pr[1]}): {pr[2][-300:]}", pr[3])
    mlines, mref = [], []
    compared = 0
    for (i, mode), li, o in zip(keys, lines, out):
        name, data, label = cases[i]
        if o.startswith("FAULT"):
            rep.violation(f"{MODES[mode]} reader, probe of the modelled decisions, mutation {label} of {name}: {o[:260]}",
                          {"seed_file": name, "mutation": label, "mode": mode, "script": "M/R7", "file_hex": data.hex(), "observed": o[:400]},
                          key=key_of(o))
            continue
        if not o.startswith("OK") or " open=0" not in o or " big=1" in o or " S=" not in o:
            continue
        head, *chunks = o.split(" @")
        d = dict(t.split("=", 1) for t in head.split() if "=" in t)
        sch, lv, rgs = d.get("S", "-") or "-", d.get("LV", "-") or "-", d.get("RG", "")
        path = "stdio" if mode == 0 else "mapped"
        for ch in chunks:
            t = ch.split()
            g, c = t[0].split(",")
            cd = dict(x.split("=", 1) for x in t[1:] if "=" in x)
            if "gc" not in cd:
                continue
            mlines.append(f"getcol cur {sch} {lv} {rgs or 'none'} {g} {c}")
            mref.append(("gc", i, mode, g, c, cd))
            if cd["gc"] == "0" and "L" in cd and "T" in cd:
                hd, do, da = cd["D"].split(",")
                dhex = f"{hd},{int(do):x},{int(da):x}".replace(",-", ",-")
                mlines.append(f"firstload cur {path} {d['n']} {cd['T']} {dhex} {cd.get('H1', 'none')} {cd.get('H2', 'none')}")
                mref.append(("load", i, mode, g, c, cd))
    mout, mp = run_sharded(run, mlines, timeout=3000) if mlines else ([], [])
    for pr in mp:
        rep.tie_broken(f"model runner died (rc={pr[1]}): {pr[2][-300:]}", pr[3])
    for (kind, i, mode, g, c, cd), ml, mo in zip(mref, mlines, mout):
        name, data, label = cases[i]
        compared += 1
        where = f"{MODES[mode]} rg={g} col={c}, mutation {label} of {name}"
        if cd.get("LBAD") == "1":
            rep.violation(f"a failing page load did not report a non-OK code with a terminated message ({where})",
                          {"seed_file": name, "mutation": label, "mode": mode, "script": "M/R7", "file_hex": data.hex()}, key="C04:baderr")
        if mo.startswith("RUNNER-ERROR"):
            rep.tie_broken(f"model runner: {mo} on {ml[:200]}", ml[:200])
            continue
        if kind == "gc":
            got = int(cd["gc"])
            if got == -1:
                rep.violation(f"get_column failed without a non-OK code / terminated message ({where})",
                              {"seed_file": name, "mutation": label, "mode": mode, "script": "M", "file_hex": data.hex()}, key="C04:baderr")
            want = 0 if mo.startswith("OK") else (int(mo[1:]) if mo.startswith("E") else None)
            if want is None:
                rep.tie_broken(f"PageBoundsModel.get_column predicts an out-of-bounds access, the code returned {got} ({where})", ml[:300])
            elif want != got:
                rep.tie_broken(f"get_column: model {mo}, implementation {got} ({where})", ml[:300])
        else:
            L = int(cd["L"])
            md = dict(x.split("=", 1) for x in mo.split())
            if "FAULT" in md.values():
                rep.tie_broken(f"PageBoundsModel predicts an out-of-bounds access in the first page load ({mo}), the load returned {L} ({where})", ml[:300])
            elif L == 2:
                pass        # OUT_OF_MEMORY: whether a malloc succeeds is the environment's choice, outside the model
            elif md["first"].startswith("E"):
                # stdio: whether an unusable position shows up at fseek (14) or at fread (12) is the C library's choice
                norm = (lambda c: 12 if (mode == 0 and c == 14) else c)
                if norm(int(md["first"][1:])) != norm(L):
                    rep.tie_broken(f"first page load: model {md['first']}, implementation {L} ({where})", ml[:300])
            elif L == 0:
                bad = [k for k in ("dict", "second", "view") if md[k].startswith("E")]
                if bad:
                    rep.tie_broken(f"first page load succeeded although the model rejects it at stage {bad[0]} ({mo}) ({where})", ml[:300])
    rep.cov["model_decisions_compared"] = rep.cov.get("model_decisions_compared", 0) + compared


def corpus_cases():
    d = vlib.VERIF / "corpus" / PID
    out = []
    for f in sorted(d.glob("*.json")):
        j = json.loads(f.read_text())
        out.append((f.name, bytes.fromhex(j["file_hex"]), j.get("mutation", "corpus"), j["mode"], j["script"]))
    return out


def run(tier):
    rep = Report(PID, tier)
    rng = random.Random(vlib.SEED * 7919 + 4)
    prelude(rep, PID)
    rep.cov["trusted_base"] = vlib.TRUSTED_BASE_COMMON + [
        "tools/gen.d/robust.py, tools/consts.d/robust.json: regular-expression reading of the header window, limits and bounds checks of the page-load paths",
        "PARTIAL: the proof covers the bounds and termination logic (which byte ranges of the file a page load reads, which buffer sizes the decoders write, index checks, fuel) of a Gallina model; heap discipline of the real process - leaks, double frees, use after free, lifetime of zero-copy views - is observed by ASan/LSan in the forked workers, not proved",
        "the Thrift footer parse is a section variable in the open theorems; its count limits are the stated premise (parse_within_limits)",
        "forked workers: RLIMIT_CPU 2 s + 1 s per 256 KiB of input, wall clock 20 s, max_allocation_size_mb=256 (larger requests fail like a malloc failure), allocator_may_return_null=1",
        "checks/robust_pq.py: independent Thrift compact codec and page walker used to mutate every field of footers and page headers",
    ]
    rep.cov["rule"] = ("corpus/C04 first; then mutants of 11 (quick) / 16 (thorough) valid seed files (carquet-written: 4 schemas x codecs; "
                       "independently built dictionary / CRC / INT96 / FLBA files): footer field mutations 42%, page header 30%, payload 14%, "
                       "data-area cuts 7%, random bytes 4%, framed garbage 3%; every mutant in all three I/O modes with a call script drawn "
                       "per case; distinct by (file hash, mode, script)")
    try:
        drv = build_driver("h_robust", extra=WRAP)
    except vlib.BuildError as e:
        rep.tie_broken("harness does not build against the current tree: " + str(e)[:500])
        return rep.finish()
    tmp = tmpdir()
    stats = {}
    try:
        # 1. corpus (minimised failing files of earlier runs) in all modes
        cc = corpus_cases()
        cases = [(n, d, l, m, s) for (n, d, l, m0, s) in cc for m in range(3)]
        out = run_cases(rep, drv, cases, tmp, "corp")
        judge(rep, cases, out, stats)
        # 2. seeds must read cleanly
        seeds = carquet_seeds(tier, rng, drv, tmp) + python_seeds(rng)
        cases = [(n, d, "unmutated", m, s) for (n, d) in seeds for m in range(3) for s in ("M/R7/B4,0", "R1000/B1000,2", "B7,5")]
        out = run_cases(rep, drv, cases, tmp, "seed")
        for c, o in zip(cases, out):
            if not o.startswith("OK"):
                rep.tie_broken(f"a valid seed file is not read cleanly ({c[0]}, {MODES[c[3]]}, {c[4]}): {o[:200]}", c[0])
        judge(rep, cases, out, stats)
        # 3a. systematic sweeps (mechanisms, not single inputs): schema shapes with huge / negative child counts at
        #     several nesting depths under the CPU budget; every kind of variable-length footer field at lengths
        #     around the arena block geometry and powers of two; page ends around the end of the file
        byname = dict(seeds)
        sweep = []
        cq_first = next((n for n, d in seeds if n.startswith("cq-")), seeds[0][0])
        for nm in ([cq_first, "py-dict-crc"] if tier == "quick" else [n for n, d in seeds]):
            d = byname[nm]
            try:
                sweep += [(nm,) + x for x in schema_sweep(nm, d)]
                sweep += [(nm,) + x for x in page_end_sweep(nm, d)]
                if nm == cq_first or tier != "quick":
                    sweep += [(nm,) + x for x in length_sweep(nm, d)]
                if nm == cq_first or tier != "quick":
                    sweep += [(nm,) + x for x in nesting_sweep(nm, d, tier)]
            except Exception as e:
                rep.tie_broken(f"sweep generator failed on seed {nm}: {e!r}", nm)
        for nm in (["py-dict-crc", "py-repeated", "py-logical", cq_first] if tier == "quick" else [n for n, d in seeds]):
            try:
                sweep += [(nm,) + x for x in every_int_field_sweep(nm, byname[nm])]
            except Exception as e:
                rep.tie_broken(f"int sweep failed on seed {nm}: {e!r}", nm)
        try:
            sweep += [("py-plain",) + x for x in varint_length_sweep("py-plain", byname["py-plain"])]
        except Exception as e:
            rep.tie_broken(f"varint-length generator failed: {e!r}", "varint-length")
        try:
            sweep += [("py-dict-f",) + x for x in footer_prefix_sweep("py-dict-f", byname["py-dict-f"])]
            for nm in ("py-repeated", "py-dict-crc", "py-plain", "py-nested"):
                sweep += [(nm,) + x for x in level_garbage_cases(nm, byname[nm])]
        except Exception as e:
            rep.tie_broken(f"footer-prefix / level-garbage generator failed: {e!r}", "special")
        try:
            sweep += special_cases(byname)
        except Exception as e:
            rep.tie_broken(f"special-case generator failed: {e!r}", "special")
        sweep += [("image",) + x for x in footer_length_images()]
        # extreme truncations (the empty file included: the only input on which mmap() itself fails); every case is
        # opened both with and without an error record by the driver
        sweep += [(cq_first, byname[cq_first][:k], f"truncation:{k}") for k in range(0, 17)]
        scases = [(nm, m, label, mode, ("M/R1000" if i % 2 else "M/B64,0")) for i, (nm, m, label) in enumerate(sweep) for mode in range(3)]
        image_codes = {}
        for a in range(0, len(scases), 1500):
            part = scases[a:a + 1500]
            out = run_cases(rep, drv, part, tmp, "s")
            judge(rep, part, out, stats)
            for c, o in zip(part, out):
                if c[2].startswith("footer-length-image"):
                    m = re.search(r"open=(-?\d+)", o)
                    image_codes.setdefault(c[2], {})[c[3]] = (int(m.group(1)) if m and not o.startswith("FAULT") else None, c[1], o)
        for label, by_mode in image_codes.items():
            codes = {m: v[0] for m, v in by_mode.items()}
            data0, o0 = by_mode[0][1], by_mode[0][2]
            if any(v == 0 for v in codes.values()) or len({v for v in codes.values() if v is not None}) > 1:
                rep.violation(f"an image with valid magics but no usable footer is not rejected alike by the three open paths ({label}): "
                              f"status fread/mmap/buffer = {codes.get(0)}/{codes.get(1)}/{codes.get(2)}",
                              {"seed_file": "image", "mutation": label, "mode": 2, "script": "M", "file_hex": data0.hex(), "observed": str(codes)},
                              key="C04:footer-image-modes-differ")
        rep.cov["sweep_cases"] = len(scases)
        img_codes = {}
        for a in range(0, len(scases), 1500):
            pass
        rep.cov["sweep_families"] = sorted({c[2].split(":")[0] for c in scases})
        # 3a'. error records built from long caller-supplied text (paths, column names of 150..400 characters)
        lens = sorted(set(list(range(150, 401, 10)) + list(range(226, 262)) + [255, 256, 257, 300, 400]))
        sp = tmp / "longerr_seed.parquet"
        sp.write_bytes(byname[cq_first])
        llines = [f"longerr {n} {sp}" for n in lens]
        lout, lprobs = run_sharded(drv, llines, env=ENV)
        for pr in lprobs:
            rep.tie_broken(f"driver process died outside a forked case (rc={pr[1]}): {pr[2][-300:]}", pr[3])
        for li, o in zip(llines, lout):
            rep.count(li)
            stats[classify(o)] = stats.get(classify(o), 0) + 1
            if not o.startswith("OK"):
                rep.violation(f"a call that fails on a long caller-supplied path / column name does not leave a non-OK code and a "
                              f"message terminated inside its array: {o[:200]}", {"op": "longerr", "case": li}, key="C04:baderr-long-text")
        rep.cov["long_text_cases"] = len(llines)
        # 3b. random mutants
        nmut = 8000 if tier == "quick" else 60000
        cases = []
        for i in range(nmut):
            name, data = seeds[i % len(seeds)]
            try:
                m, label = mutant(rng, name, data)
            except Exception as e:
                continue
            for mode in range(3):
                cases.append((name, m, label, mode, rng.choice(SCRIPTS)))
        for a in range(0, len(cases), 6000):
            part = cases[a:a + 6000]
            out = run_cases(rep, drv, part, tmp, "m")
            judge(rep, part, out, stats)
        # 4. model tie on the seeds, the corpus and every fifth mutant
        try:
            run_ = build_runner("robust")
            tcases = [(n, d, "unmutated") for (n, d) in seeds] + [(n, d, l) for (n, d, l, m0, s0) in cc]
            tcases += [(nm, m, label) for (nm, m, label) in sweep if label.startswith("page-end") or label.startswith("schema-shape")]
            seen = set()
            for (n, d, l, mode, sc) in cases[::15]:
                h = hashlib.sha1(d).digest()
                if h not in seen:
                    seen.add(h)
                    tcases.append((n, d, l))
            check_model_tie(rep, drv, run_, tcases, tmp, "t")
        except vlib.BuildError as e:
            rep.tie_broken("model runner does not build: " + str(e)[:400])
        rep.sample({"mutation": cases[0][2], "mode": MODES[cases[0][3]], "script": cases[0][4], "file_bytes": len(cases[0][1])})
        rep.sample({"mutation": cases[-1][2], "mode": MODES[cases[-1][3]], "script": cases[-1][4], "file_bytes": len(cases[-1][1])})
    finally:
        shutil.rmtree(tmp, ignore_errors=True)
    rep.cov["observed_classes"] = {k: v for k, v in stats.items() if not k.startswith("fault:")}
    rep.cov["faults_by_site"] = {k[6:]: v for k, v in stats.items() if k.startswith("fault:")}
    return rep.finish()


def replay(path):
    j = json.loads(Path(path).read_text())
    r = j.get("replay", j)
    if r.get("op") == "longerr":
        drv = build_driver("h_robust", extra=WRAP)
        tmp = tmpdir()
        try:
            rng = random.Random(1)
            sp = tmp / "seed.parquet"
            out, _ = run_sharded(drv, [f"gen a:0:20:1:3 {sp}"])
            toks = r["case"].split()
            out, rc, err = vlib.run_lines(drv, [f"longerr {toks[1]} {sp}"], env=ENV)
            print("case:", r["case"], "\nimplementation:", out)
            return 0 if out and out[0].startswith("OK") else 1
        finally:
            shutil.rmtree(tmp, ignore_errors=True)
    if "file_hex" not in r:
        print(json.dumps(j, indent=1)[:3000])
        return 1
    drv = build_driver("h_robust", extra=WRAP)
    tmp = tmpdir()
    try:
        p = tmp / "replay.parquet"
        p.write_bytes(bytes.fromhex(r["file_hex"]))
        env = dict(ENV)
        env["H_ROBUST_DEBUG"] = "1"
        out, rc, err = vlib.run_lines(drv, [f"read {r['mode']} {r['script']} {p}"], env=env)
        print("mutation:", r.get("mutation"), "mode:", MODES[r["mode"]], "script:", r["script"], "bytes:", len(bytes.fromhex(r["file_hex"])))
        print("implementation:", out)
        if err:
            print(err[-3000:])
        return 1 if (not out or classify(out[0]) in ("FAULT", "BADERR", "LIVELOCK", "?")) else 0
    finally:
        shutil.rmtree(tmp, ignore_errors=True)
