"""Minimal, independent Thrift-compact + Parquet footer writer (used by the C17 and C16 checks).

Written from the Thrift compact-protocol description and parquet.thrift; shares no code with carquet.
A struct is a list of (field_id, type, value); types are the T_* constants below.  Only what the two
checks need is implemented: FileMetaData fields 1-4 (version, schema, num_rows, row_groups), SchemaElement,
RowGroup / ColumnChunk / ColumnMetaData / Statistics with free control over every field (so that
non-tree schemas, negative child counts and statistics in new or deprecated fields can be produced).
"""
import struct as _st

T_TRUE, T_FALSE, T_BYTE, T_I16, T_I32, T_I64, T_DOUBLE, T_BINARY, T_LIST, T_SET, T_MAP, T_STRUCT = range(1, 13)
T_BOOL = 100  # pseudo type: value True/False chooses T_TRUE / T_FALSE in a field header

REQUIRED, OPTIONAL, REPEATED = 0, 1, 2
BOOLEAN, INT32, INT64, INT96, FLOAT, DOUBLE, BYTE_ARRAY, FIXED_LEN_BYTE_ARRAY = range(8)


def varint(n):
    assert n >= 0
    out = bytearray()
    while True:
        b = n & 0x7F
        n >>= 7
        if n:
            out.append(b | 0x80)
        else:
            out.append(b)
            return bytes(out)


def zigzag(n, bits):
    return ((n << 1) ^ (n >> (bits - 1))) & ((1 << bits) - 1)


def enc_value(ty, v):
    if ty == T_BYTE:
        return bytes([v & 0xFF])
    if ty == T_I16:
        return varint(zigzag(v, 16))
    if ty == T_I32:
        return varint(zigzag(v, 32))
    if ty == T_I64:
        return varint(zigzag(v, 64))
    if ty == T_DOUBLE:
        return _st.pack("<d", v)
    if ty == T_BINARY:
        b = v.encode() if isinstance(v, str) else bytes(v)
        return varint(len(b)) + b
    if ty == T_STRUCT:
        return enc_struct(v)
    if ty == T_LIST:
        ety, items = v
        n = len(items)
        head = bytes([(n << 4) | ety]) if n < 15 else bytes([0xF0 | ety]) + varint(n)
        if ety in (T_TRUE, T_FALSE):
            return head + bytes(1 if x else 2 for x in items)
        return head + b"".join(enc_value(ety, x) for x in items)
    raise ValueError("type %r" % ty)


ORDERS = ("asc", "desc", "tlen_first", "name_first", "name_last", "shuffle")


def permute(fields, order, rng=None):
    """the same struct with its fields in another order: the compact protocol allows any order (a non-ascending step is
    written in the long form: type byte + zig-zag field id), so a reader must give the same result"""
    f = list(fields)
    if order in (None, "asc"):
        return f
    if order == "desc":
        return f[::-1]
    if order == "tlen_first":          # SchemaElement: type_length (2) before type (1); in general: swap the first two fields
        by = {x[0]: x for x in f}
        if 1 in by and 2 in by:
            rest = [x for x in f if x[0] not in (1, 2)]
            return [by[2], by[1]] + rest
        return f[1:2] + f[0:1] + f[2:]
    if order == "name_first":
        nm = [x for x in f if x[0] == 4]
        return nm + [x for x in f if x[0] != 4]
    if order == "name_last":
        nm = [x for x in f if x[0] == 4]
        return [x for x in f if x[0] != 4] + nm
    if order == "shuffle" and rng is not None:
        rng.shuffle(f)
    return f


def enc_struct(fields):
    out = bytearray()
    last = 0
    for fid, ty, v in fields:
        if ty == T_BOOL:
            wire = T_TRUE if v else T_FALSE
        else:
            wire = ty
        d = fid - last
        if 0 < d <= 15:
            out.append((d << 4) | wire)
        else:
            out.append(wire)
            out += varint(zigzag(fid, 16))
        last = fid
        if ty != T_BOOL:
            out += enc_value(ty, v)
    out.append(0)
    return bytes(out)


# ---------------------------------------------------------------- Parquet structures

def logical_type(lt):
    """lt: None | ("STRING",) | ("DECIMAL", scale, precision) | ("INTEGER", bits, signed) | ("TIME"/"TIMESTAMP", utc, unit)
    -> union struct for SchemaElement field 10"""
    empty = {"STRING": 1, "MAP": 2, "LIST": 3, "ENUM": 4, "DATE": 6, "NULL": 11, "JSON": 12, "BSON": 13,
             "UUID": 14, "FLOAT16": 15}
    k = lt[0]
    if k == "EXTRA":
        # a known member whose struct carries an additional, unknown field (and unknown fields in the TimeUnit union's member)
        inner = logical_type(lt[1:])
        fid, ty, body = inner[0]
        return [(fid, ty, list(body) + [(9, T_BINARY, b"later-addition"), (12, T_STRUCT, [(1, T_I64, 5)])])]
    if k == "RAW":
        # any union member id with a body of our choosing: 0 empty struct, 1 struct with fields, 2 nested structs and a list
        fid, variant = lt[1], lt[2]
        if variant == 0:
            body = []
        elif variant == 1:
            body = [(1, T_I32, 7), (2, T_BINARY, b"crs:84"), (3, T_BOOL, True), (5, T_I64, -3)]
        else:
            body = [(1, T_STRUCT, [(1, T_I32, 1), (2, T_STRUCT, [(4, T_BINARY, b"x")])]),
                    (2, T_LIST, (T_STRUCT, [[(1, T_BYTE, 3)], []])), (3, T_BINARY, b"")]
        return [(fid, T_STRUCT, body)]
    if k in empty:
        return [(empty[k], T_STRUCT, [])]
    if k == "DECIMAL":
        return [(5, T_STRUCT, [(1, T_I32, lt[1]), (2, T_I32, lt[2])])]
    if k == "INTEGER":
        return [(10, T_STRUCT, [(1, T_BYTE, lt[1]), (2, T_BOOL, bool(lt[2]))])]
    if k in ("TIME", "TIMESTAMP"):
        unit = {"MILLIS": 1, "MICROS": 2, "NANOS": 3}[lt[2]]
        return [(7 if k == "TIME" else 8, T_STRUCT, [(1, T_BOOL, bool(lt[1])), (2, T_STRUCT, [(unit, T_STRUCT, [])])])]
    raise ValueError(lt)


def schema_element(name=None, type=None, type_length=None, repetition=None, num_children=None,
                   converted_type=None, logical=None, field_id=None, scale=None, precision=None, unknown_field=False):
    f = []
    if type is not None:
        f.append((1, T_I32, type))
    if type_length is not None:
        f.append((2, T_I32, type_length))
    if repetition is not None:
        f.append((3, T_I32, repetition))
    if name is not None:
        f.append((4, T_BINARY, name))
    if num_children is not None:
        f.append((5, T_I32, num_children))
    if converted_type is not None:
        f.append((6, T_I32, converted_type))
    if scale is not None:
        f.append((7, T_I32, scale))
    if precision is not None:
        f.append((8, T_I32, precision))
    if field_id is not None:
        f.append((9, T_I32, field_id))
    if logical is not None:
        f.append((10, T_STRUCT, logical_type(logical)))
    if unknown_field:
        f.append((13, T_LIST, (T_STRUCT, [[(1, T_BINARY, b"x")], []])))     # a field a reader must skip
    return f


def statistics(max_old=None, min_old=None, null_count=None, distinct_count=None, max_value=None, min_value=None,
               is_max_exact=None, is_min_exact=None, unknown_field=False):
    f = []
    if max_old is not None:
        f.append((1, T_BINARY, max_old))
    if min_old is not None:
        f.append((2, T_BINARY, min_old))
    if null_count is not None:
        f.append((3, T_I64, null_count))
    if distinct_count is not None:
        f.append((4, T_I64, distinct_count))
    if max_value is not None:
        f.append((5, T_BINARY, max_value))
    if min_value is not None:
        f.append((6, T_BINARY, min_value))
    if is_max_exact is not None:
        f.append((7, T_BOOL, is_max_exact))
    if is_min_exact is not None:
        f.append((8, T_BOOL, is_min_exact))
    if unknown_field:
        f.append((11, T_STRUCT, [(1, T_BINARY, b"future"), (2, T_LIST, (T_I64, [1, 2, 3]))]))    # a field a reader must skip
    return f


def column_chunk(type, path, num_values, stats=None, codec=0, data_page_offset=4, size=0):
    md = [(1, T_I32, type), (2, T_LIST, (T_I32, [0])), (3, T_LIST, (T_BINARY, list(path))), (4, T_I32, codec),
          (5, T_I64, num_values), (6, T_I64, size), (7, T_I64, size), (9, T_I64, data_page_offset)]
    if stats is not None:
        md.append((12, T_STRUCT, stats))
    return [(2, T_I64, data_page_offset), (3, T_STRUCT, md)]


def row_group(chunks, num_rows, total_byte_size=0):
    return [(1, T_LIST, (T_STRUCT, chunks)), (2, T_I64, total_byte_size), (3, T_I64, num_rows)]


def file_metadata(schema_elems, num_rows=0, row_groups=(), version=1):
    return [(1, T_I32, version), (2, T_LIST, (T_STRUCT, list(schema_elems))), (3, T_I64, num_rows),
            (4, T_LIST, (T_STRUCT, list(row_groups)))]


def parquet_file(meta_fields, body=b""):
    footer = enc_struct(meta_fields)
    return b"PAR1" + body + footer + _st.pack("<I", len(footer)) + b"PAR1"


# ---------------------------------------------------------------- generic Thrift-compact reader (for page headers)

def read_varint(buf, pos):
    shift = val = 0
    while True:
        b = buf[pos]
        pos += 1
        val |= (b & 0x7F) << shift
        shift += 7
        if not b & 0x80:
            return val, pos


def unzigzag(n):
    return (n >> 1) ^ -(n & 1)


def dec_value(buf, pos, ty):
    if ty in (T_TRUE, T_FALSE):
        return ty == T_TRUE, pos
    if ty == T_BYTE:
        return buf[pos], pos + 1
    if ty in (T_I16, T_I32, T_I64):
        v, pos = read_varint(buf, pos)
        return unzigzag(v), pos
    if ty == T_DOUBLE:
        return _st.unpack("<d", buf[pos:pos + 8])[0], pos + 8
    if ty == T_BINARY:
        n, pos = read_varint(buf, pos)
        return bytes(buf[pos:pos + n]), pos + n
    if ty == T_STRUCT:
        return dec_struct(buf, pos)
    if ty in (T_LIST, T_SET):
        h = buf[pos]
        pos += 1
        n, ety = h >> 4, h & 15
        if n == 15:
            n, pos = read_varint(buf, pos)
        out = []
        for _ in range(n):
            if ety in (T_TRUE, T_FALSE):
                out.append(buf[pos] == 1)
                pos += 1
            else:
                v, pos = dec_value(buf, pos, ety)
                out.append(v)
        return out, pos
    raise ValueError("thrift type %d" % ty)


def dec_struct(buf, pos=0):
    """-> ({field_id: value}, position after the stop byte)"""
    out, last = {}, 0
    while True:
        h = buf[pos]
        pos += 1
        if h == 0:
            return out, pos
        d, ty = h >> 4, h & 15
        if d:
            fid = last + d
        else:
            z, pos = read_varint(buf, pos)
            fid = unzigzag(z)
        last = fid
        out[fid], pos = dec_value(buf, pos, ty)
