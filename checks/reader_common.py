"""Shared by checks/C02.py and checks/C03.py: file specifications for harness/h_reader.c, history
enumeration, the reference cursor (the property's oracle, written here in Python and independent of
the Coq model), parsers for the driver's canonical output."""
import itertools, struct, random

TYPES = ["i32", "i64", "f32", "f64", "bool", "ba", "fl3"]
CODECS = {"none": 0, "snappy": 1, "gzip": 2, "lz4": 5, "zstd": 6, "lz4raw": 7}


class Col:
    def __init__(self, name, typ, nullable):
        self.name, self.typ, self.nullable = name, typ, nullable

    def decl(self):
        return f"{self.name}={self.typ}{'?' if self.nullable else ''}"


class FileSpec:
    """cols: list of Col; rgs: list of row groups; row group = list (one per column) of chunks;
    chunk = list of pages; page = list of rows; row = None | bytes"""

    def __init__(self, codec, cols, rgs, dict_encoded=False):
        self.codec, self.cols, self.rgs = codec, cols, rgs
        self.dict_encoded = dict_encoded     # values are dictionary encoded (file comes from tools/pq.py)
        self._text = None
        self._impl = None                    # "x:<hex>" when the implementation gets ready-made bytes
        self.known = None                    # key of an open finding this file is a witness of

    def impl_text(self):
        """what the C driver gets: the same description, or the bytes of the file"""
        return self._impl or self.text()

    def use_bytes(self, data):
        self._impl = "x:" + data.hex()
        return self

    def text(self):
        if self._text is None:
            def row(r):
                return "N" if r is None else (r.hex() if len(r) else "-")
            rg_txt = []
            for rg in self.rgs:
                rg_txt.append(";".join("/".join(".".join(row(r) for r in pg) for pg in ch) for ch in rg))
            self._text = "w:%d%s:%s:%s" % (self.codec, "d" if self.dict_encoded else "",
                                           ",".join(c.decl() for c in self.cols), "|".join(rg_txt))
        return self._text

    def rows(self, rg, col):
        return [r for pg in self.rgs[rg][col] for r in pg]

    def column_rows(self, col):
        return [r for g in range(len(self.rgs)) for r in self.rows(g, col)]


def tok(r):
    return "N" if r is None else (r.hex() if len(r) else "-")


# ------------------------------------------------------------------ values

def value(typ, i, rng=None):
    """the i-th distinct value of a type (distinct per i so that a misplaced value is always visible)"""
    if typ == "i32":
        return struct.pack("<i", (i + 1) * 0x01010101 % 0x7fffffff if rng is None else rng.randrange(-2**31, 2**31))
    if typ == "i64":
        return struct.pack("<q", (i + 1) * 0x0101010101010101 % (2**63 - 1) if rng is None else rng.randrange(-2**63, 2**63))
    if typ == "i96":
        return bytes(((i + 1) * 29 + j) % 256 for j in range(12))
    if typ == "f32":
        return struct.pack("<f", float(i) + 0.5)
    if typ == "f64":
        return struct.pack("<d", float(i) + 0.25)
    if typ == "bool":
        # booleans cannot be distinct; use a pattern with period 3 so that shifts are visible
        return bytes([1 if (i % 3) != 1 else 0])
    if typ == "ba":
        if rng is not None:
            return bytes(rng.getrandbits(8) for _ in range(rng.choice([0, 1, 2, 5, 9])))
        return bytes([0x61 + (i % 26)]) * ((i % 4)) + bytes([0x30 + i % 10]) if i % 5 != 4 else b""
    if typ.startswith("fl"):
        n = int(typ[2:])
        return bytes(((i + 1) * 17 + j) % 256 for j in range(n))
    raise ValueError(typ)


def compositions(n, maxparts):
    """all ways to cut n rows into 1..maxparts non-empty pages"""
    out = []
    for parts in range(1, min(maxparts, n) + 1):
        for cuts in itertools.combinations(range(1, n), parts - 1):
            b = (0,) + cuts + (n,)
            out.append([b[i + 1] - b[i] for i in range(parts)])
    return out


def make_chunk(typ, nullmask, sizes, base=0):
    """nullmask: list of bool (True = null) of length sum(sizes)"""
    pages, i = [], 0
    for s in sizes:
        pg = []
        for _ in range(s):
            pg.append(None if nullmask[i] else value(typ, base + i))
            i += 1
        pages.append(pg)
    return pages


def safe_nullmask(n, rng, style=None):
    """null pattern that cannot trigger the writer's RLE level defect (DESIGN F1: a run of >= 8 equal
    levels after a partial literal group): runs are capped at 7 unless the whole page is one run"""
    style = style or rng.choice(["alt", "rand", "none", "all", "rand", "rand"])
    if style == "none":
        return [False] * n
    if style == "all":
        return [True] * n
    if style == "alt":
        k = rng.randrange(2)
        return [(i + k) % 2 == 0 for i in range(n)]
    out = []
    while len(out) < n:
        v = rng.random() < 0.4
        if len(out) >= 7 and all(x == v for x in out[-7:]):
            v = not v
        out.append(v)
    return out


# ------------------------------------------------------------------ histories

def histories(n, N, zeros=0, trailing=True):
    """every sequence of ('r'|'s', k), 1 <= k <= N (all overshoots), cut when the cumulative count passes
    the end of an n-row chunk, plus the same followed by one more read / skip after the end; optionally up
    to `zeros` zero-size operations (never two in a row)"""
    out = []

    def go(pos, seq, z):
        if pos >= n:
            out.append(tuple(seq))
            if trailing:
                out.append(tuple(seq + [("r", 1)]))
                out.append(tuple(seq + [("s", 1)]))
            return
        for kind in "rs":
            if z < zeros and not (seq and seq[-1][1] == 0):
                go(pos, seq + [(kind, 0)], z + 1)
            for k in range(1, N + 1):
                go(pos + k, seq + [(kind, k)], z)
    go(0, [], 0)
    return out


def ops_text(seq, probes=True):
    parts = []
    for kind, k in seq:
        parts.append(kind if kind in "hmn" else f"{kind}{k}")
        if probes and kind not in "hm":
            parts += ["m", "h"]
    return ",".join(parts)


def parse_ops(text):
    out = []
    for t in text.split(","):
        out.append((t[0], int(t[1:]) if len(t) > 1 else 0))
    return out


def reference_cursor(rows, nullable, ops):
    """The property's oracle: what every history must deliver given the chunk's logical content
    (rows: list of None | token).  skip(n) advances by min(n, remaining); remaining = rows not delivered."""
    out, pos, n = [], 0, len(rows)
    for kind, k in ops:
        if kind in "rq":
            cnt = min(k, n - pos)
            if cnt <= 0:
                out.append(f"{kind}0")
            elif kind == "q" and nullable:
                out.append(f"q{cnt}")
            else:
                out.append(f"{kind}{cnt}:" + ".".join(rows[pos:pos + cnt]))
            pos += max(cnt, 0)
        elif kind == "s":
            cnt = max(min(k, n - pos), 0)
            out.append(f"s{cnt}")
            pos += cnt
        elif kind == "h":
            out.append("h1" if pos < n else "h0")
        elif kind == "m":
            out.append(f"m{n - pos}")
        elif kind == "n":
            out.append("n")
            pos = 0
    return out


def parse_read_token(t):
    """'r3:aa.N.bb' -> (3, ['aa','N','bb'])   'r0' -> (0, [])"""
    head, _, body = t.partition(":")
    return int(head[1:]), (body.split(".") if body else [])


# ------------------------------------------------------------------ batch output

def parse_batches(line):
    """'OK B3[3:010:aa.bb|3:000:..] ... E63 L1' -> (batches, status, lifetime_ok)
    batches: list of (num_rows, [(n, bits, [dense tokens])...])"""
    t = line.split()
    if not t or t[0] != "OK":
        return None
    batches, status, life = [], None, None
    for x in t[1:]:
        if x[0] == "B":
            nr, _, rest = x[1:].partition("[")
            cols = []
            for c in rest.rstrip("]").split("|"):
                f = c.split(":")
                if len(f) != 3:
                    cols.append((None, c, []))
                    continue
                bits = "" if f[1] == "-" else f[1]
                vals = f[2].split(".")      # '-' alone is either "no values" or one empty byte array: batch_rows decides by count
                cols.append((int(f[0]), bits, vals))
            batches.append((int(nr), cols))
        elif x[0] == "E":
            status = int(x[1:])
        elif x[0] == "L":
            life = x[1:] == "1"
        else:
            return None
    return batches, status, life


def batch_rows(n, bits, vals, nullable):
    """rebuild logical rows of one column of one batch under the dense convention; polarity: bit 1 = null"""
    rows, k = [], 0
    for i in range(n):
        if nullable and i < len(bits) and bits[i] == "1":
            rows.append("N")
        else:
            rows.append(vals[k] if k < len(vals) else "!missing")
            k += 1
    return rows


# ------------------------------------------------------------------ running

def run_resilient(exe, lines, env=None, shards=None, timeout=3000, max_deaths=300):
    """like vlib.run_sharded, but a case that kills the driver (sanitizer report, signal) costs only that
    case: it is answered 'FAULT died' and the shard continues with the next line.
    Returns (out_lines, deaths) with deaths = [(case_line, returncode, stderr_tail)]."""
    import vlib, subprocess
    from concurrent.futures import ThreadPoolExecutor
    shards = shards or vlib.NCPU
    n = len(lines)
    if n == 0:
        return [], []
    size = (n + shards - 1) // shards
    chunks = [lines[i:i + size] for i in range(0, n, size)]

    def go(ch):
        outs, deaths, pos = [], [], 0
        while pos < len(ch):
            try:
                o, rcode, err = vlib.run_lines(exe, ch[pos:], timeout=timeout, env=env)
            except subprocess.TimeoutExpired:
                o, rcode, err = [], -9, "timeout"
            if len(o) >= len(ch) - pos and rcode == 0:
                outs.extend(o[:len(ch) - pos])
                break
            # a partial last line may have been printed before the death: drop it
            good = o[:len(ch) - pos]
            if len(good) == len(ch) - pos:
                # all lines answered but the exit status is bad (leak report at exit)
                outs.extend(good)
                deaths.append((None, rcode, err[-3000:]))
                break
            outs.extend(good)
            died_on = ch[pos + len(good)]
            deaths.append((died_on, rcode, err[-3000:]))
            outs.append("FAULT died")
            pos += len(good) + 1
            if len(deaths) >= max_deaths:
                outs.extend(["FAULT skipped"] * (len(ch) - pos))
                break
        return outs, deaths

    outs, deaths = [], []
    with ThreadPoolExecutor(len(chunks)) as ex:
        for o, d in ex.map(go, chunks):
            outs.extend(o)
            deaths.extend(d)
    return outs, deaths


# ------------------------------------------------------------------ files from the independent writer (tools/pq.py)

PQ_TYPES = {"i32": ("INT32", 0), "i64": ("INT64", 0), "f32": ("FLOAT", 0), "f64": ("DOUBLE", 0),
            "bool": ("BOOLEAN", 0), "ba": ("BYTE_ARRAY", 0), "i96": ("INT96", 0)}
PQ_CODEC = {0: "UNCOMPRESSED", 1: "SNAPPY", 2: "GZIP", 6: "ZSTD", 7: "LZ4_RAW"}


def pq_bytes(fs, encoding="RLE_DICTIONARY", crc=True, empty_pages=(), rng=None, dict_offset="present", page_encodings=None,
             page_stats=False, dictionary=None):
    """The same logical file written by tools/pq.py (independent writer): dictionary-encoded chunks, page CRCs,
    optionally an empty data page inserted before page index i of every chunk (empty_pages = set of i).
    page_stats: Statistics (min / max) in every data page header - with long BYTE_ARRAY values the page header grows
    beyond the 256-byte window the loaders read first.
    dict_offset="absent": no dictionary_page_offset in the chunk metadata (data_page_offset points at the dictionary
    page).  page_encodings: list of encodings used by the pages of every chunk in turn (mixed PLAIN / dictionary chunk).
    Returns file bytes."""
    import sys
    from pathlib import Path
    sys.path.insert(0, str(Path(__file__).resolve().parent.parent / "tools"))
    import pq
    kids = []
    for c in fs.cols:
        if c.typ.startswith("fl"):
            pt, tl = "FIXED_LEN_BYTE_ARRAY", int(c.typ[2:])
        else:
            pt, tl = PQ_TYPES[c.typ]
        kids.append(pq.SchemaNode(c.name, "OPTIONAL" if c.nullable else "REQUIRED", pt, tl))
    root = pq.SchemaNode("schema", "REQUIRED", None, 0, kids)
    rgs = []
    for rg in fs.rgs:
        cols = []
        for ci, ch in enumerate(rg):
            c = fs.cols[ci]
            rows = [r for pg in ch for r in pg]
            defs = [(0 if r is None else 1) for r in rows] if c.nullable else [0] * len(rows)
            vals = [r for r in rows if r is not None]
            enc = encoding
            if c.typ == "bool" and encoding != "PLAIN":
                enc = "PLAIN"           # booleans have no dictionary encoding
            pages = []
            encs = [enc]
            if page_encodings and c.typ != "bool":
                encs = list(page_encodings)
            for i, pg in enumerate(ch):           # a page may be empty ([]): a data page with num_values = 0
                if i in empty_pages:
                    pages.append(pq.PageSpec(0, enc, crc=crc))
                pages.append(pq.PageSpec(len(pg), encs[i % len(encs)], crc=crc, stats=page_stats))
            if len(ch) in empty_pages:
                pages.append(pq.PageSpec(0, enc, crc=crc))
            has_dict = any(e in ("RLE_DICTIONARY", "PLAIN_DICTIONARY") for e in encs)
            cols.append(pq.ColumnSpec(defs, [0] * len(rows), vals, pages, codec=PQ_CODEC[fs.codec],
                                      dictionary=(dictionary or "auto") if has_dict else None, dict_offset=dict_offset,
                                      dict_crc=crc))
        rgs.append(pq.RowGroupSpec(len([r for pg in rg[0] for r in pg]), cols))
    spec = pq.FileSpec(root, rgs)
    return pq.write_file(spec, rng or random.Random(1))


def asan_summary(err):
    """the informative lines of a sanitizer report (ERROR / SUMMARY / first frames inside the library)"""
    if not err:
        return ""
    keep = [l.strip() for l in err.splitlines()
            if "ERROR:" in l or "SUMMARY:" in l or "runtime error" in l or ("#" in l and "/src/" in l)]
    return " | ".join(keep[:6]) if keep else err[-400:]


def footer_len(data):
    return int.from_bytes(data[-8:-4], "little")


def pad_footer(data, target):
    """the same file with created_by (FileMetaData field 6) padded so that the Thrift footer is exactly `target` bytes
    long (None when the footer is already longer or the length cannot be hit)"""
    import sys
    from pathlib import Path
    sys.path.insert(0, str(Path(__file__).resolve().parent.parent / "tools"))
    import pq
    def with_pad(n):
        def fn(ts):
            ts.set(6, pq.CT_BINARY, b"carquet-verif " + b"p" * n)
        return pq.rewrite_footer(data, fn)
    base = footer_len(with_pad(0))
    if base > target:
        return None
    n = target - base
    for _ in range(6):                       # the length prefix of the string is a varint: converge
        out = with_pad(n)
        d = footer_len(out) - target
        if d == 0:
            return out
        n -= d
        if n < 0:
            return None
    return None


# ------------------------------------------------------------------ nested-schema files and special chunk placements (tools/pq.py)

class RawFile:
    """a file given by its bytes plus the ground truth the independent writer kept:
    truth[rg][col] = (defs, reps, values), levels[col] = (max_def, max_rep), names[col] = dotted path"""

    def __init__(self, label, data, truth, levels, names, model_fs=None):
        self.label, self.data, self.truth, self.levels, self.names = label, data, truth, levels, names
        self._impl = "x:" + data.hex()
        self.model_fs = model_fs          # a flat FileSpec describing the same content for the extracted model, or None
        self.known = None

    def impl_text(self):
        return self._impl

    def text(self):
        return self.model_fs.text() if self.model_fs else "raw:" + self.label

    def has_repeated(self):
        return any(mr > 0 for _, mr in self.levels)


def expected_oneshot(defs, reps, vals, max_def, max_rep, op="r"):
    """what the driver prints for one read_batch that takes the whole chunk"""
    n = len(defs)
    if n == 0:
        return f"{op}0"
    if max_def > 1 or max_rep > 0:
        return (f"{op}{n}:" + ".".join(map(str, defs)) + "/" + ".".join(map(str, reps)) + "/" +
                (".".join(tok(v) for v in vals) if vals else "-"))
    rows, k = [], 0
    for d in defs:
        if max_def == 0 or d == max_def:
            rows.append(tok(vals[k])); k += 1
        else:
            rows.append("N")
    return f"{op}{n}:" + ".".join(rows)


def nested_files(rng, thorough=False):
    """REQUIRED leaves inside OPTIONAL / REPEATED groups and a 3-level LIST, fixed width, PLAIN, uncompressed (what the
    zero-copy eligibility rule looks at) - plus the same compressed / dictionary encoded; 1..3 pages per chunk"""
    import sys, struct
    from pathlib import Path
    sys.path.insert(0, str(Path(__file__).resolve().parent.parent / "tools"))
    import pq
    S = pq.SchemaNode
    i32 = lambda v: struct.pack("<i", v)
    i64 = lambda v: struct.pack("<q", v)
    f64 = lambda v: struct.pack("<d", v)
    schemas = []
    # A: REQUIRED leaves under an OPTIONAL group, next to a top-level REQUIRED column
    rootA = S("schema", "REQUIRED", None, 0, [
        S("g", "OPTIONAL", None, 0, [S("x", "REQUIRED", "INT32"), S("y", "REQUIRED", "DOUBLE")]),
        S("z", "REQUIRED", "INT64")])
    recsA = [{"g": ({"x": i32(10 + i), "y": f64(i + 0.5)} if i % 3 != 1 else None), "z": i64(100 + i)} for i in range(7)]
    schemas.append(("opt-group", rootA, recsA))
    # B: REQUIRED leaves under a REPEATED group
    rootB = S("schema", "REQUIRED", None, 0, [
        S("r", "REPEATED", None, 0, [S("a", "REQUIRED", "INT32"), S("b", "REQUIRED", "FIXED_LEN_BYTE_ARRAY", 3)])])
    lens = [2, 0, 1, 3, 0, 1]
    k = 0
    recsB = []
    for n in lens:
        recsB.append({"r": [{"a": i32(k + j), "b": bytes([k + j, 7, 9])} for j in range(n)]})
        k += n
    schemas.append(("rep-group", rootB, recsB))
    # C: 3-level LIST (OPTIONAL group / REPEATED group / REQUIRED element) next to an id column
    rootC = S("schema", "REQUIRED", None, 0, [
        S("id", "REQUIRED", "INT32"),
        S("l", "OPTIONAL", None, 0, [S("list", "REPEATED", None, 0, [S("element", "REQUIRED", "INT64")])], converted_type=3)])
    recsC = []
    for i, n in enumerate([2, None, 0, 3, 1]):
        recsC.append({"id": i32(i), "l": (None if n is None else {"list": [{"element": i64(1000 * i + j)} for j in range(n)]})})
    schemas.append(("list3", rootC, recsC))
    variants = [("UNCOMPRESSED", "PLAIN")] + ([("SNAPPY", "PLAIN"), ("UNCOMPRESSED", "RLE_DICTIONARY")] if thorough else [("SNAPPY", "PLAIN")])
    out = []
    for label, root, recs in schemas:
        leaves = pq.spec_leaves(root)
        for codec, enc in variants:
            for maxpages in (1, 3):
                cols = []
                for lf in leaves:
                    defs, reps, vals = pq.shred(lf.nodes, recs)
                    sizes = pq.split_pages(rng, reps, len(defs), max_pages=maxpages, at_records=True)
                    pages = [pq.PageSpec(n, enc, crc=True) for n in sizes]
                    cols.append(pq.ColumnSpec(defs, reps, vals, pages, codec=codec,
                                              dictionary="auto" if enc != "PLAIN" else None))
                spec = pq.FileSpec(root, [pq.RowGroupSpec(len(recs), cols)])
                try:
                    data = pq.write_file(spec, rng)
                except Exception:
                    continue
                out.append(RawFile(f"{label}-{codec}-{enc}-p{maxpages}", data, spec.truth(),
                                   [(lf.max_def, lf.max_rep) for lf in leaves], [".".join(lf.path) for lf in leaves]))
    return out


def parse_nested_token(t):
    """'r4:1.1.0.1/0.1.0.0/aa.bb.cc' -> (defs, reps, vals)"""
    body = t.partition(":")[2]
    parts = body.split("/")
    if len(parts) != 3:
        raise ValueError("not a nested read token: " + t[:80])
    d, r, v = parts
    return [int(x) for x in d.split(".")], [int(x) for x in r.split(".")], ([] if v == "-" else v.split("."))


def reference_cursor_nested(defs, reps, vals, max_def, ops):
    """the cursor arithmetic for a column with repetition levels / several definition levels: a read of k delivers
    the next min(k, remaining) level entries and the packed values of those whose definition level is max_def"""
    out, pos, vpos, n = [], 0, 0, len(defs)
    for kind, k in ops:
        if kind in "rqs":
            cnt = max(min(k, n - pos), 0)
            dense = sum(1 for d in defs[pos:pos + cnt] if d == max_def)
            if kind == "s":
                out.append(f"s{cnt}")
            elif cnt == 0 or kind == "q":
                out.append(f"{kind}{cnt}")
            else:
                out.append(f"r{cnt}:" + ".".join(map(str, defs[pos:pos + cnt])) + "/" + ".".join(map(str, reps[pos:pos + cnt])) +
                           "/" + (".".join(vals[vpos:vpos + dense]) if dense else "-"))
            pos += cnt
            vpos += dense
        elif kind == "h":
            out.append("h1" if pos < n else "h0")
        elif kind == "m":
            out.append(f"m{n - pos}")
        elif kind == "n":
            out.append("n")
            pos = vpos = 0
    return out
