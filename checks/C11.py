"""C11 - every encoding decodes its own output back to the original sequence.

Proof: coq/theories/Props/Properties_C11.v (bit packing, RLE/bit-packed hybrid; the other encodings are
       restated from the enc2 engine's proofs).
Tie:   harness/h_enc.c (real entry points, exact-size buffers) vs extracted models (ocaml/run_enc.ml):
       byte-exact encoder output, decoded values, stream-operation histories; the property's own oracle
       (decode(encode v) = v, stream ops = cursor over the one-shot result) is evaluated on the
       implementation alone.  Other encodings: checks/c11_enc2.py.
"""
import random, json, itertools
from pathlib import Path
import vlib
from vlib import Report, prelude, build_driver, build_runner, run_sharded, log

PID = "C11"
RUNLENS = [1, 1, 2, 3, 5, 6, 7, 8, 9, 10, 15, 16, 17, 23, 24, 25, 63, 64, 65]


def gen_structured(rng, w, maxruns=8):
    """mostly-valid run structure aimed at the case splits of the encoder proof: run lengths around
    7/8/9/15/16/17 after literal stretches of 0..9 values"""
    top = (1 << w) - 1
    vals = []
    for _ in range(rng.randrange(1, maxruns + 1)):
        if rng.random() < 0.5:
            n = rng.choice(RUNLENS)
            v = rng.choice([0, top, rng.randint(0, top)])
            vals += [v] * n
        else:
            n = rng.randrange(0, 10)
            if top == 0:
                vals += [0] * n
            else:
                prev = vals[-1] if vals else None
                for _ in range(n):
                    v = rng.randint(0, top)
                    if v == prev:
                        v = (v + 1) & top
                    vals.append(v); prev = v
    return vals


def exhaustive(alpha, maxlen):
    for n in range(0, maxlen + 1):
        for t in itertools.product(alpha, repeat=n):
            yield list(t)


def cursor_oracle(full, ops):
    """what a correct streaming decoder must answer, given the one-shot decode `full` of the stream
    (padding included): pure cursor arithmetic, independent of the model"""
    pos, outs = 0, []
    for op in ops:
        c, k = op[0], int(op[1:] or 0)
        if c == "g":
            outs.append("g=%d" % (full[pos] if pos < len(full) else 0))
            if pos < len(full):
                pos += 1
        elif c == "b":
            seg = full[pos:pos + k]; pos += len(seg)
            outs.append("b=" + (",".join(map(str, seg)) if seg else "-"))
        elif c == "s":
            n = min(k, len(full) - pos); pos += n
            outs.append("s=%d" % n)
        elif c == "h":
            outs.append(None)     # has_next is compared model-vs-implementation only (see below)
    return outs


def check_rle(rep, tier, rng, drv, run, parts=("rt", "ops")):
    import rle_ref
    lines, meta = [], []
    # (1) bounded-exhaustive round trips
    ex = [(1, [0, 1], 12 if tier == "quick" else 16), (2, [0, 1, 2], 8 if tier == "quick" else 10)] if "rt" in parts else []
    for w, alpha, L in ex:
        for vs in exhaustive(alpha, L):
            lines.append("rle_rt %d %s" % (w, " ".join(map(str, vs)))); meta.append(("rt", w, vs))
    n_ex = len(lines)
    # (2) structured round trips, all widths
    nstruct = (4000 if tier == "quick" else 60000) if "rt" in parts else 0
    for i in range(nstruct):
        w = rng.randrange(0, 33) if i % 3 else rng.choice([0, 1, 2, 3, 7, 8, 9, 15, 16, 17, 24, 31, 32])
        vs = gen_structured(rng, w)
        lines.append("rle_rt %d %s" % (w, " ".join(map(str, vs)))); meta.append(("rt", w, vs))
    # long runs (run length needing 2-3 varint bytes)
    for n in ((63, 64, 65, 8191, 8192, 8193, 70000) if "rt" in parts else ()):
        for w in (0, 1, 5, 8, 12):
            vs = [1 % (1 << w) if w else 0] * 3 + [((1 << w) - 1)] * n + [0]
            lines.append("rle_rt %d %s" % (w, " ".join(map(str, vs)))); meta.append(("rt", w, vs))
    # (3) stream-operation histories over reference-encoded streams (legal forms incl. ones carquet never emits)
    streams = []
    for w in (1, 3, 8, 9):
        top = (1 << w) - 1
        runs = [("L", [rng.randint(0, top) for _ in range(16)]), ("R", 0, 1 & top), ("R", 5, top),
                ("L", [rng.randint(0, top) for _ in range(8)]), ("R", 9, 0)]
        streams.append((w, runs))
    hist = []
    # a run header of 5 varint bytes: skipping 2^27+3 values is cheap for an RLE run, then the next run must be found
    hist.append((8, [("R", (1 << 27) + 3, 200), ("R", 4, 9)], ["b5", "s%d" % ((1 << 27) - 2), "b3", "g", "h"]))
    hist.append((3, [("L", [1, 2, 3, 4, 5, 6, 7, 0]), ("R", 1 << 20, 5), ("R", 2, 1)], ["b9", "s%d" % ((1 << 20) - 2), "b4", "h"]))
    opsalpha = ["g", "b1", "b3", "b8", "b11", "s1", "s2", "s7", "s9", "h", "b0", "s0"]
    depth = 3 if tier == "quick" else 4
    for w, runs in streams[:2]:
        for ops in itertools.product(opsalpha, repeat=depth):
            hist.append((w, runs, list(ops) + ["b60", "h", "g"]))
    for _ in range(1500 if tier == "quick" else 20000):
        w, runs = rng.choice(streams)
        ops = [rng.choice(opsalpha + ["b%d" % rng.randrange(0, 50), "s%d" % rng.randrange(0, 50)])
               for _ in range(rng.randrange(1, 12))]
        hist.append((w, runs, ops))
    for w, runs, ops in hist:
        data = rle_ref.enc_runs(w, runs)
        lines.append("rle_ops %d %s %s" % (w, vlib.hexs(data), " ".join(ops))); meta.append(("ops", w, runs, ops))
    impl, p1 = run_sharded(drv, lines)
    # counts beyond ~10^5 are not replayed on the extracted model (unary nat arguments): implementation-side oracle only
    def too_big(m):
        return m[0] == "ops" and any(int(o[1:] or 0) > 200000 for o in m[3])
    model, p2 = run_sharded(run, ["rle_ops 1 - h" if too_big(m) else li for li, m in zip(lines, meta)])
    for pr in p1:
        rep.violation("RLE entry point crashed / sanitizer report (rc=%s): %s" % (pr[1], pr[2][-500:]), {"case": pr[3]})
    for pr in p2:
        rep.tie_broken("model runner died: %s" % pr[2][-300:], pr[3])
    dist = {"rt_exhaustive": n_ex, "rt_structured": 0, "ops": 0}
    for li, m, a, b in zip(lines, meta, impl, model):
        rep.count(li, nontrivial=len(li.split()) > 3)
        if m[0] == "rt":
            w, vs = m[1], m[2]
            want = ",".join(map(str, vs)) if vs else "-"
            at = a.split()
            # property oracle on the implementation: decode_all(encode_all(vs), len vs) == vs
            if len(at) != 3 or at[0] != "OK" or at[2] != want:
                rep.violation("RLE round trip fails on the implementation at width %d: decoded %s" % (w, a[:200]),
                              {"case": li, "impl": a}, key="rle-rt:%d:%s" % (w, want))
            elif a != b:
                rep.tie_broken("RleModel encode_all/decode_all differs from the implementation: model %s / impl %s" % (b[:120], a[:120]), li)
            dist["rt_structured"] += 1
        else:
            w, runs, ops = m[1], m[2], m[3]
            full = rle_ref.runs_vals(runs)
            want = cursor_oracle(full, ops)
            got = a.split()[1:]
            bad = a.split()[:1] != ["OK"] or len(got) != len(want) or any(x is not None and x != y for x, y in zip(want, got))
            if bad:
                rep.violation("streaming RLE decoder disagrees with the one-shot content under chunking/skipping: %s" % a[:200],
                              {"case": li, "impl": a, "expected": want})
            elif a != b and not too_big(m):
                rep.tie_broken("RleModel stream operations differ from the implementation: model %s / impl %s" % (b[:160], a[:160]), li)
            dist["ops"] += 1
    dist["rt_structured"] -= n_ex
    rep.cov.setdefault("input_distribution", {}).update(dist)
    if "rt" in parts:
        rep.sample({"op": "rle_rt", "case": lines[n_ex + 5][:200]})
    rep.sample({"op": "rle_ops", "case": lines[-1][:200]})


def check_rle_encoder_api(rep, tier, rng, drv, run):
    """The streaming encoder API (init / put / put_repeat / flush), which nothing in the library calls with
    put_repeat: segment lists with zero-length, short, group-sized and long repeats of equal and different values,
    at every position (first, middle, last before the flush).  Oracle: decode_all of the produced bytes returns the
    flattened sequence (inside the driver); tie: the bytes equal carquet_rle_encode_all's and the extracted
    RleModel.encode_all's on the flattened sequence (put_repeat is a loop of put)."""
    lines, flats = [], []
    n = 1500 if tier == "quick" else 20000
    for i in range(n):
        w = rng.choice([1, 1, 2, 3, 4, 7, 8, 9, 16, 20, 32]) if i % 3 else rng.randrange(1, 33)
        top = (1 << w) - 1
        segs, flat = [], []
        prev = rng.randint(0, top)
        for _ in range(rng.randrange(1, 9)):
            v = prev if rng.random() < 0.25 else rng.randint(0, min(top, 3) if rng.random() < 0.5 else top)
            r = rng.random()
            if r < 0.35:
                segs.append("p%d" % v); flat.append(v)
            else:
                c = rng.choice([0, 0, 0, 1, 2, 6, 7, 8, 9, 15, 16, 17, 63, 64, 65]) if rng.random() < 0.85 else rng.randrange(0, 400)
                segs.append("r%dx%d" % (v, c)); flat += [v] * c
            prev = v
        if rng.random() < 0.3:                       # a zero-length run of ANOTHER value right before the flush
            segs.append("r%dx0" % ((prev + 1) & top))
        lines.append("rle_encops %d %s" % (w, " ".join(segs))); flats.append((w, flat))
    # bounded-exhaustive: every list of <= 4 segments over {p0, p1, r0x0, r1x0, r0x1, r1x7, r0x8, r1x9} at width 1
    alpha = ["p0", "p1", "r0x0", "r1x0", "r0x1", "r1x7", "r0x8", "r1x9"]
    import itertools
    for L in range(1, 5 if tier == "quick" else 6):
        for segs in itertools.product(alpha, repeat=L):
            flat = []
            for t in segs:
                if t[0] == "p":
                    flat.append(int(t[1:]))
                else:
                    v, c = t[1:].split("x"); flat += [int(v)] * int(c)
            lines.append("rle_encops 1 " + " ".join(segs)); flats.append((1, flat))
    impl, p1 = run_sharded(drv, lines)
    for pr in p1:
        rep.violation("RLE streaming encoder crashed / sanitizer report: %s" % pr[2][-500:], {"case": pr[3]})
    mlines = ["rle_enc %d %s" % (w, " ".join(map(str, f))) for w, f in flats]
    model, p2 = run_sharded(run, mlines)
    for pr in p2:
        rep.tie_broken("model runner died: %s" % pr[2][-300:], pr[3])
    zero_tail = 0
    for li, (w, flat), a, m in zip(lines, flats, impl, model):
        rep.count(li, nontrivial=len(flat) > 0)
        zero_tail += li.endswith("x0")
        t = a.split()
        if len(t) != 5 or t[0] != "OK":
            rep.violation("RLE streaming encoder (put / put_repeat / flush) failed on a legal call sequence: %s" % a[:200],
                          {"case": li, "impl": a[:2000], "expected_suffix": "firstdiff=-1"}); continue
        if t[4] != "firstdiff=-1" or t[3] != "n=%d" % len(flat):
            rep.violation("RLE streaming encoder: decode_all of the bytes produced by put / put_repeat / flush does not return the "
                          "values put (first differing index %s of %d values, width %d)" % (t[4].split("=")[1], len(flat), w),
                          {"case": li, "impl": a[:2000], "expected_suffix": "firstdiff=-1"}); continue
        if t[1] != t[2]:
            rep.tie_broken("put/put_repeat/flush produce other bytes than carquet_rle_encode_all on the flattened sequence "
                           "(the model describes one encoder): %s vs %s" % (t[1][:60], t[2][:60]), li)
        elif m.split() != ["OK", t[1]]:
            rep.tie_broken("RleModel.encode_all differs from the streaming encoder's bytes: model %s impl %s" % (m[:80], t[1][:80]), li)
    rep.cov.setdefault("input_distribution", {}).update({"rle_encoder_api": len(lines), "rle_encoder_api_zero_run_before_flush": zero_tail})
    rep.sample({"op": "rle_encops", "case": lines[7][:200]})


def _lsb_pack(segs):
    """reference: values laid out LSB first, one after the other (the Parquet bit-packing order)"""
    acc, n = 0, 0
    for v, w in segs:
        acc |= (v & ((1 << w) - 1)) << n; n += w
    return acc.to_bytes((n + 7) // 8, "little"), n


def check_bit_rw(rep, tier, rng, drv, run=None):
    """Raw bit packing through the bit writer / bit reader pair of core/bitpack.c (nothing in the library calls it):
    uniform widths 1..32 x counts, mixed write_bit / write_bits / write_bits64 sequences incl. zero-width writes.
    Oracle: bytes = LSB-first layout of the masked values, bytes_written = ceil(bits/8), the reader returns the
    masked values, remaining_bits / has_more say what is left.  Also the unpack function-table accessor and
    carquet_rle_encode_levels (int16 levels) with both level decoders."""
    lines, exp = [], []

    def add(segs):
        toks, vals = [], []
        for kind, v, w in segs:
            if kind == "b":
                toks.append("b%d" % (v & 1)); vals.append((v & 1, 1))
            elif kind == "w":
                toks.append("w%d:%d" % (v, w)); vals.append((v, w))
            else:
                toks.append("q%x:%d" % (v, w)); vals.append((v, w))
        data, n = _lsb_pack(vals)
        lines.append(("bitrw " + " ".join(toks)).strip())
        rem = 8 * len(data) - n
        exp.append("OK %s %s rem=%d more=%d" % (vlib.hexs(data), ",".join("%x" % (v & ((1 << w) - 1)) for v, w in vals) or "-", rem, 1 if rem else 0))
    for w in range(1, 33):
        for cnt in ((1, 2, 5, 8, 9, 33, 64, 70) if tier == "quick" else range(1, 130)):
            add([("w", rng.getrandbits(32) if rng.random() < 0.7 else (1 << w) - 1, w) for _ in range(cnt)])
    for w in range(33, 65):
        add([("q", rng.getrandbits(64), w) for _ in range(rng.choice([1, 3, 9, 17]))])
    for _ in range(1500 if tier == "quick" else 20000):
        segs = []
        for _ in range(rng.randrange(0, 40)):
            r = rng.random()
            if r < 0.2:
                segs.append(("b", rng.getrandbits(1), 1))
            elif r < 0.8:
                segs.append(("w", rng.getrandbits(32), rng.choice([0, 1, 7, 8, 9, 10, 11, 23, 24, 25, 31, 32]) if rng.random() < 0.5 else rng.randrange(0, 33)))
            else:
                segs.append(("q", rng.getrandbits(64), rng.choice([0, 1, 32, 33, 41, 63, 64]) if rng.random() < 0.5 else rng.randrange(0, 65)))
        add(segs)
    import rle_ref
    for w in list(range(-1, 11)) + [16, 32, 33]:
        data = bytes(rng.getrandbits(8) for _ in range(max(w, 1) if 0 < w <= 8 else 9))
        lines.append("getfn %d %s" % (w, vlib.hexs(data)))
        if 1 <= w <= 8:
            acc = int.from_bytes(data[:w], "little")
            exp.append("OK " + ",".join(str((acc >> (i * w)) & ((1 << w) - 1)) for i in range(8)))
        else:
            exp.append("OK NULL")
    nlv = len(lines)
    lv = []
    for _ in range(1200 if tier == "quick" else 15000):
        w = rng.choice([1, 1, 2, 3, 4, 7, 8, 15]) if rng.random() < 0.8 else rng.randrange(1, 16)
        vs = gen_structured(rng, w)
        lines.append(("rle_enclvl %d %s" % (w, " ".join(map(str, vs)))).strip()); lv.append((w, vs))
    impl, p1 = run_sharded(drv, lines)
    for pr in p1:
        rep.violation("bit writer / reader / level encoder crashed or sanitizer report: %s" % pr[2][-500:], {"case": pr[3]})
    model = None
    if run is not None:
        nb = sum(1 for l in lines[:nlv] if l.startswith("bitrw"))
        model, p2 = run_sharded(run, lines[:nb])
        for pr in p2:
            rep.tie_broken("model runner died: %s" % pr[2][-300:], pr[3])
        model = list(model) + [None] * (nlv - nb)
    for k, (li, a, e) in enumerate(zip(lines[:nlv], impl[:nlv], exp)):
        rep.count(li, nontrivial=len(li) > 8)
        if a == e and model is not None and model[k] is not None and model[k] != a:
            rep.tie_broken("BitRwModel (extracted) differs from the bit writer / reader of core/bitpack.c: model %s impl %s" % (model[k][:120], a[:120]), li)
        if a != e:
            what = ("the raw bit writer / reader pair does not return the values written in the Parquet LSB-first layout"
                    if li.startswith("bitrw") else "carquet_get_bitunpack8_fn returns a function that does not unpack that width")
            rep.violation("%s: got %s, expected %s" % (what, a[:160], e[:160]), {"case": li, "impl": a[:3000], "expected": e[:3000]})
    return lines[nlv:], impl[nlv:], lv


def check_level_encoder(rep, tier, rng, drv, run, lines, impl, lv):
    mlines = ["rle_enc %d %s" % (w, " ".join(map(str, vs))) for w, vs in lv]
    model, p2 = run_sharded(run, mlines)
    for pr in p2:
        rep.tie_broken("model runner died: %s" % pr[2][-300:], pr[3])
    for li, a, (w, vs), m in zip(lines, impl, lv, model):
        rep.count(li, nontrivial=len(vs) > 1)
        t = a.split()
        vstr = ",".join(map(str, vs))
        if len(t) != 4 or t[0] != "OK":
            rep.violation("carquet_rle_encode_levels failed on legal levels: %s" % a[:200], {"case": li, "impl": a[:2000]}); continue
        nbytes = 0 if t[1] == "-" else len(t[1]) // 2
        want1, want2 = "%d:%s" % (len(vs), vstr), "%d/%d:%s" % (len(vs), 4 + nbytes, vstr)
        if t[2] != want1 or t[3] != want2:
            rep.violation("int16 levels do not survive carquet_rle_encode_levels + decode_levels / decode_levels_prefixed "
                          "(width %d): got %s %s" % (w, t[2][:80], t[3][:80]), {"case": li, "impl": a[:2000], "expected": "OK %s %s %s" % (t[1], want1, want2)})
        elif m.split() != ["OK", t[1]]:
            rep.tie_broken("RleModel.encode_all differs from carquet_rle_encode_levels: model %s impl %s" % (m[:80], t[1][:80]), li)
    rep.cov.setdefault("input_distribution", {}).update({"rle_encode_levels": len(lines)})


def check_rle_long_runs(rep, tier, rng, drv):
    """Round trips whose run header needs 3, 4 or 5 varint bytes, through all three one-shot decoders (decode_all,
    decode_levels, decode_levels_prefixed); the comparison with the input happens inside the driver."""
    lines = []
    for w in (1, 2, 7, 12):
        for k in (0, 3, 8):
            for cnt in ((1 << 13) + 1, (1 << 20) - 1, 1 << 20, (1 << 20) + 1 + k):
                lines.append("rle_rtrun %d %d %d %d" % (w, k, (1 << w) - 1, cnt))
    if tier == "thorough":
        lines += ["rle_rtrun 1 5 1 %d" % ((1 << 27) + 9)]
    out, probs = run_sharded(drv, lines)
    for pr in probs:
        rep.violation("RLE entry point crashed on a long run: %s" % pr[2][-400:], {"case": pr[3]})
    for li, a in zip(lines, out):
        rep.count(li)
        if not a.startswith("OK ") or "all=-1 levels=-1 prefixed=-1" not in a:
            rep.violation("RLE round trip of a long run fails on the implementation (first differing index per decoder, -1 = equal): %s" % a,
                          {"case": li, "impl": a, "expected_suffix": "all=-1 levels=-1 prefixed=-1"})
    rep.cov.setdefault("input_distribution", {})["rle_long_runs"] = len(lines)


def check_bitpack(rep, tier, rng, drv, run):
    import rle_ref
    lines = []
    for w in range(0, 33):
        top = (1 << w) - 1
        # every single-bit vector: the packing is a bit permutation, each output bit depends on one input bit
        for i in range(8):
            for bit in range(w):
                v = [0] * 8; v[i] = 1 << bit
                lines.append("pack8 %d %s" % (w, " ".join(map(str, v))))
        lines.append("pack8 %d %s" % (w, " ".join([str(top)] * 8)))
        for _ in range(20 if tier == "quick" else 300):
            lines.append("pack8 %d %s" % (w, " ".join(str(rng.randint(0, 0xFFFFFFFF)) for _ in range(8))))  # unmasked input
        for byte in range(w):
            for bit in range(8):
                b = bytearray(w); b[byte] = 1 << bit
                lines.append("unpack8 %d %s" % (w, vlib.hexs(b)))
        for _ in range(20 if tier == "quick" else 300):
            lines.append("unpack8 %d %s" % (w, vlib.hexs(bytes(rng.getrandbits(8) for _ in range(w)))))
        for cnt in (0, 1, 7, 8, 9, 15, 16, 17, 31):
            vals = [rng.randint(0, top) for _ in range(cnt)]
            lines.append("bitpack %d %s" % (w, " ".join(map(str, vals))))
            # raw bit packing of any count: pack with the reference, unpack with carquet from an
            # exact-size buffer (and one byte short: must not be read past)
            packed = b"".join(rle_ref.pack_group(w, (vals[i:i + 8] + [0] * 8)[:8]) for i in range(0, cnt, 8))
            need = (cnt // 8) * w + ((cnt % 8) * w + 7) // 8
            lines.append("bitunpack %d %d %s" % (w, cnt, vlib.hexs(packed[:need])))
            if need:
                lines.append("bitunpack %d %d %s" % (w, cnt, vlib.hexs(packed[:need - 1])))
    import rle_ref
    impl, p1 = run_sharded(drv, lines)
    model, p2 = run_sharded(run, lines)
    for pr in p1:
        rep.violation("bit packing entry point crashed / sanitizer report: %s" % pr[2][-500:], {"case": pr[3]})
    for pr in p2:
        rep.tie_broken("model runner died: %s" % pr[2][-300:], pr[3])
    import rle_ref
    for li, a, b in zip(lines, impl, model):
        rep.count(li)
        t = li.split()
        w = int(t[1])
        if t[0] == "pack8":
            vals = [int(x) for x in t[2:]]
            want = "OK " + vlib.hexs(rle_ref.pack_group(w, vals))
            if a != want:
                rep.violation("carquet_bitpack8_32 differs from the Parquet bit-packing layout: %s want %s" % (a, want), {"case": li, "impl": a})
            if b.split() != want.split() + want.split()[1:]:
                rep.tie_broken("BitpackModel.pack8 / BitpackSpec.pack_spec differ from the reference: %s" % b, li)
        elif t[0] == "unpack8":
            data = bytes.fromhex(t[2]) if t[2] != "-" else b""
            want = "OK " + ",".join(map(str, rle_ref.unpack_group(w, data)))
            if a != want:
                rep.violation("carquet_bitunpack8_32 differs from the Parquet bit-packing layout: %s want %s" % (a, want), {"case": li, "impl": a})
            if b != want:
                rep.tie_broken("BitpackModel.unpack8 differs: %s" % b, li)
        elif t[0] == "bitunpack":
            cnt = int(t[2]); data = bytes.fromhex(t[3]) if t[3] != "-" else b""
            need = (cnt // 8) * w + ((cnt % 8) * w + 7) // 8
            if len(data) >= need:
                vals = []
                for g in range(0, cnt, 8):
                    grp = (data[(g // 8) * w:(g // 8) * w + w] + bytes(w))[:w]
                    vals += rle_ref.unpack_group(w, grp)
                want = "OK %s %d" % (",".join(map(str, vals[:cnt])) if cnt else "-", need if w else 0)
                if a != want:
                    rep.violation("carquet_bitunpack_32 differs from the Parquet bit-packing layout / consumed count: %s want %s" % (a[:100], want[:100]), {"case": li, "impl": a})
            if a != b:
                rep.tie_broken("BitpackModel.bitunpack_32 differs from carquet_bitunpack_32: model %s impl %s" % (b[:100], a[:100]), li)
        else:
            if a != b:
                rep.tie_broken("BitpackModel.bitpack_32 differs from carquet_bitpack_32: model %s impl %s" % (b, a), li)
    rep.cov.setdefault("input_distribution", {})["bitpack"] = len(lines)


def run(tier):
    rep = Report(PID, tier)
    rng = random.Random(vlib.SEED * 7919 + 11)
    prelude(rep, PID)
    rep.cov["trusted_base"] = vlib.TRUSTED_BASE_COMMON + [
        "checks/rle_ref.py: independent Python transcription of the Parquet RLE/bit-packing layout (oracle for the layout and generator of legal streams)",
        "modelled, not verified: src/encoding/rle.c (encoder, streaming decoder, decode_all), src/core/bitpack.c (the group loops are mirrored statement by statement in Enc/BitpackLoopModel.v and proved equal to the closed form used by the other theorems)",
    ]
    rep.cov["rule"] = ("RLE: every sequence over {0,1} up to length 12 (thorough 16) at width 1 and over {0,1,2} up to length 8 (10) at width 2; "
                       "structured run/literal mixes with run lengths around 7/8/9/15/16/17/63/64/65 at all widths 0..32; long runs; every "
                       "stream-operation history of depth 3 (4) over 12 operations on reference-encoded streams + random histories. "
                       "Bit packing: all widths x every single-bit vector + random groups. Non-trivial = carries at least two values; distinct by case text. "
                       "Other encodings: see input_distribution.enc2")
    try:
        drv = build_driver("h_enc")
        run_ = build_runner("enc")
    except vlib.BuildError as e:
        rep.tie_broken("harness does not build against the current tree: " + str(e)[:500])
        return rep.finish()
    check_bitpack(rep, tier, rng, drv, run_)
    try:
        import c11_bitloop
        c11_bitloop.check_bitloop(rep, tier, rng)      # the C-shaped loop model vs the implementation
    except ImportError:
        pass
    check_rle(rep, tier, rng, drv, run_)
    check_rle_long_runs(rep, tier, rng, drv)
    check_rle_encoder_api(rep, tier, rng, drv, run_)
    ll, li_, lv = check_bit_rw(rep, tier, rng, drv, run_)
    check_level_encoder(rep, tier, rng, drv, run_, ll, li_, lv)
    try:
        import c11_enc2
    except ImportError:
        c11_enc2 = None
    if c11_enc2 is not None:
        c11_enc2.check_enc2_c11(rep, tier, rng)
    return rep.finish()


def replay(path):
    j = json.loads(Path(path).read_text())
    if j.get("replay", {}).get("engine") == "enc2":
        import c11_enc2
        return c11_enc2.replay_enc2(j["replay"])
    case = j.get("replay", {}).get("case")
    if not case:
        print(json.dumps(j, indent=1)[:3000])
        return 1
    drv = build_driver("h_enc")
    out, rc, err = vlib.run_lines(drv, [case])
    print("case:", case[:300])
    print("implementation:", out, "rc", rc)
    print("recorded     :", j["replay"].get("impl"), "| expected:", j["replay"].get("expected"))
    if err:
        print(err[-2000:])
    t = case.split()
    if t[0] in ("bitrw", "getfn", "rle_enclvl") and out:
        exp = j["replay"].get("expected")
        return 0 if (exp is not None and out[0][:3000] == exp) else 1
    if t[0] == "rle_encops" and out:
        return 0 if out[0].endswith("firstdiff=-1") else 1
    if t[0] == "rle_rtrun" and out:
        return 0 if "all=-1 levels=-1 prefixed=-1" in out[0] else 1
    if t[0] == "rle_rt" and out:
        want = ",".join(t[2:]) if len(t) > 2 else "-"
        return 0 if (out[0].split()[0] == "OK" and out[0].split()[-1] == want) else 1
    return 1
