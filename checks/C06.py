"""C06 - spec-valid files from another writer decode to the values stored in them; features carquet does not
implement are rejected with an error, never decoded to wrong values.

Proof: coq/theories/Props/Properties_C06.v (model File/ForeignModel.v = page/chunk decode path of
       src/reader/page_reader.c; specification File/SpecPage.v = what a data page v1 denotes per the format).
Tie:   (a) tools/gen.d/foreign.py regenerates the three dispatch tables (page types, value encodings, codec ids ->
           decompressor) and the level-width loop from page_reader.c into Gen/Foreign_gen.v on every run;
       (b) files of the reference writer tools/pq.py (feature grid + random specs + directed level/width cases)
           are read by carquet in all three I/O modes: definition levels, repetition levels and values must equal
           spec.truth() (the property's oracle, evaluated on the implementation, independent of the model);
           files with exactly one unclaimed feature must end in an error from open/get_column/read and deliver
           no wrong data;  the extracted ForeignModel decodes the same chunks (page headers + bodies taken from the
           file by pq.read_file) and must agree with carquet chunk by chunk (model tie).
"""
import json, random, sys, time
from pathlib import Path
import vlib
from vlib import Report, prelude, build_runner, run_sharded, hexs, log
import pq, pq_codecs, filecase

PID = "C06"
MODES = ("buffer", "stdio", "mmap")
CORPUS_SHARED = ["F11", "FA3", "FA4"]          # corpus/file/<id>.json (fileinfra's reproducers that belong to C06)


# ----------------------------------------------------------------------------- cases

class FileCase:
    """One file of the reference writer with its ground truth and what is expected of carquet.
    expect: 'values'  every chunk is delivered exactly;
            'reject'  the chunks listed in `bad` (rg, col) must end in an error without delivering data that differs
                      from the truth, every other chunk is delivered exactly (or the whole file is refused at open);
            'either'  every chunk is delivered exactly or ends in an error (a legal-but-unclaimed layout)."""
    def __init__(self, label, spec, data, expect="values", bad=(), key=None, family=""):
        self.label, self.spec, self.data, self.expect, self.bad, self.key = label, spec, data, expect, set(bad), key
        self.family = family or label.split("/")[0]
        self.truth = spec.truth()
        self.leaves = spec.leaves()
        self.maxdef = [l.max_def for l in self.leaves]

    def replay_obj(self, mode, batch):
        return {"label": self.label, "expect": self.expect, "bad": sorted(self.bad), "mode": mode, "batch": batch,
                "maxdef": self.maxdef, "features": {k: (list(v) if isinstance(v, tuple) else v) for k, v in self.spec.features.items()},
                "leaves": [(".".join(l.path), l.ptype, l.type_length, l.max_def, l.max_rep) for l in self.leaves],
                "truth": [[[d, r, [v.hex() for v in vals]] for (d, r, vals) in rg] for rg in self.truth],
                "file_hex": self.data.hex()}


def bad_chunks(spec):
    """(rg, col) of the chunks that carry the unsupported feature and hold at least one entry."""
    u = spec.features.get("unsupported")
    if not u:
        return []
    ci = u[2]
    return [(r, ci) for r, rg in enumerate(spec.row_groups) if rg.columns[ci].defs and rg.columns[ci].pages]


def levelled_chunks(spec):
    """(rg, col) of chunks whose pages carry a level block (max_def > 0 or max_rep > 0) and at least one entry."""
    lv = spec.leaves()
    return [(r, c) for r, rg in enumerate(spec.row_groups) for c, col in enumerate(rg.columns)
            if (lv[c].max_def or lv[c].max_rep) and col.defs and col.pages]


def chain_schema(rng, reps, ptype=None):
    """A single leaf below a chain of groups with the given repetitions (last one = the leaf's own)."""
    ptype = ptype or rng.choice(pq.ALL_TYPES)
    tl = rng.choice([1, 3, 8, 16]) if ptype == "FIXED_LEN_BYTE_ARRAY" else 0
    node = pq.SchemaNode("leaf", reps[-1], ptype, tl)
    for i, r in reversed(list(enumerate(reps[:-1]))):
        node = pq.SchemaNode(f"g{i}", r, children=[node])
    root = pq.SchemaNode("schema", "REQUIRED", children=[node])
    return root


def directed_spec(rng, max_def, max_rep, codec=None, encoding=None, random_runs=None):
    """One-leaf file whose leaf has exactly the given maximum levels (a chain of optional / repeated / required
    ancestors in random order): level bit widths at and around powers of two."""
    assert max_rep <= max_def
    kinds = ["REPEATED"] * max_rep + ["OPTIONAL"] * (max_def - max_rep) + ["REQUIRED"] * rng.randrange(0, 2)
    rng.shuffle(kinds)
    if not kinds:
        kinds = ["REQUIRED"]
    root = chain_schema(rng, kinds)
    leaves = pq.spec_leaves(root)
    lf = leaves[0]
    assert (lf.max_def, lf.max_rep) == (max_def, max_rep), (lf.max_def, lf.max_rep, kinds)
    nrows = rng.choice([1, 2, 7, 8, 9, 16, 17, 33])
    small = rng.random() < 0.6
    records = pq.gen_records(rng, root, nrows, small)
    defs, reps, vals = pq.shred(lf.nodes, records)
    enc = encoding or rng.choice(["PLAIN", "RLE_DICTIONARY", "PLAIN_DICTIONARY"])
    if lf.ptype == "BOOLEAN":
        enc = "PLAIN"
    pages = []
    for n in pq.split_pages(rng, reps, len(defs)):
        p = pq.PageSpec(n, enc)
        p.crc = rng.random() < 0.3
        if random_runs if random_runs is not None else rng.random() < 0.6:
            p.def_plan = p.rep_plan = p.idx_plan = rng.choice(["random", "random_nozero"])
        pages.append(p)
    col = pq.ColumnSpec(defs, reps, vals, pages, codec or rng.choice(pq.SUPPORTED_CODECS))
    col.dict_offset = rng.choice(["present", "absent"])
    spec = pq.FileSpec(root, [pq.RowGroupSpec(nrows, [col])])
    spec.features = {"directed": True, "max_def": max_def, "max_rep": max_rep, "unsupported": None, "dict_offset": col.dict_offset,
                     "dictionary": enc != "PLAIN"}
    return spec


def index_width_spec(rng, ndict, extra=0, ptype="INT32"):
    """REQUIRED column whose dictionary has exactly `ndict` entries: index bit widths 0 (one entry), 1, ... 10 and the
    boundaries 2^k / 2^k + 1; `extra` widens the width byte beyond the minimum (legal)."""
    root = pq.SchemaNode("schema", "REQUIRED", children=[pq.SchemaNode("v", "REQUIRED", ptype, 0)])
    w = pq.FIXED_WIDTH[ptype]
    dic = [int(i * 2654435761 % (1 << (8 * w))).to_bytes(w, "little") for i in range(ndict)]
    n = rng.choice([1, 8, 9, 40, 70])
    vals = [dic[rng.randrange(ndict)] for _ in range(n)]
    vals[0] = dic[ndict - 1]
    p = pq.PageSpec(n, rng.choice(["RLE_DICTIONARY", "PLAIN_DICTIONARY"]))
    p.idx_width_extra = extra
    p.idx_plan = rng.choice([None, "random", "random_nozero"])
    col = pq.ColumnSpec([0] * n, [0] * n, vals, [p], rng.choice(pq.SUPPORTED_CODECS))
    col.dictionary = dic
    col.dict_offset = rng.choice(["present", "absent"])
    spec = pq.FileSpec(root, [pq.RowGroupSpec(n, [col])])
    spec.features = {"directed": "index_width", "ndict": ndict, "extra": extra, "unsupported": None, "dict_offset": col.dict_offset,
                     "dictionary": True}
    return spec


def long_spec(rng):
    """One flat column with many entries: long RLE runs and long bit-packed runs in the level and index streams."""
    ptype = rng.choice(["INT32", "INT64", "DOUBLE", "BYTE_ARRAY", "FIXED_LEN_BYTE_ARRAY", "INT96", "BOOLEAN"])
    rep = rng.choice(["OPTIONAL", "OPTIONAL", "REQUIRED"])
    tl = 5 if ptype == "FIXED_LEN_BYTE_ARRAY" else 0
    root = pq.SchemaNode("schema", "REQUIRED", children=[pq.SchemaNode("v", rep, ptype, tl)])
    n = rng.choice([200, 513, 1000, 2500])
    defs = []
    while len(defs) < n:
        k = rng.choice([1, 3, 70, 130, 600])
        defs += [rng.getrandbits(1) for _ in range(k)] if rng.random() < 0.5 else [rng.getrandbits(1)] * k
    defs = defs[:n] if rep == "OPTIONAL" else [0] * n
    maxdef = 1 if rep == "OPTIONAL" else 0
    nn = sum(1 for d in defs if d == maxdef)
    small = [pq.gen_leaf_value(rng, ptype, tl, True) for _ in range(4)]
    vals = []
    while len(vals) < nn:
        k = rng.choice([1, 2, 90, 300])
        vals += [rng.choice(small)] * k if rng.random() < 0.5 else [pq.gen_leaf_value(rng, ptype, tl, rng.random() < 0.7) for _ in range(k)]
    vals = vals[:nn]
    enc = "PLAIN" if ptype == "BOOLEAN" else rng.choice(["PLAIN", "RLE_DICTIONARY", "PLAIN_DICTIONARY"])
    pages = []
    for cnt in pq.split_pages(rng, [0] * n, n, max_pages=3):
        p = pq.PageSpec(cnt, enc)
        p.def_plan = p.idx_plan = rng.choice([None, None, "random_nozero"])
        pages.append(p)
    col = pq.ColumnSpec(defs, [0] * n, vals, pages, rng.choice(pq.SUPPORTED_CODECS))
    col.dict_offset = rng.choice(["present", "absent"])
    spec = pq.FileSpec(root, [pq.RowGroupSpec(n, [col])])
    spec.features = {"directed": "long", "entries": n, "unsupported": None, "dict_offset": col.dict_offset, "dictionary": enc != "PLAIN"}
    return spec


def big_spec(rng, codec):
    """One REQUIRED column whose single page body exceeds 64 KiB: half compressible (repeats at distances below and
    above 64 KiB), half random."""
    ptype = rng.choice(["INT64", "BYTE_ARRAY", "DOUBLE"])
    root = pq.SchemaNode("schema", "REQUIRED", children=[pq.SchemaNode("v", "REQUIRED", ptype, 0)])
    n = rng.choice([9000, 12000, 20000])
    base = [pq.gen_leaf_value(rng, ptype, 0, False) for _ in range(n // 4)]
    vals = (base + base[: n // 4] + [pq.gen_leaf_value(rng, ptype, 0, True) for _ in range(n // 4)] + base)[:n]
    vals += [pq.gen_leaf_value(rng, ptype, 0, False) for _ in range(n - len(vals))]
    if ptype == "BYTE_ARRAY":
        vals = [v + b"0123456789" for v in vals]
    col = pq.ColumnSpec([0] * n, [0] * n, vals, [pq.PageSpec(n, "PLAIN")], codec)
    spec = pq.FileSpec(root, [pq.RowGroupSpec(n, [col])])
    spec.features = {"directed": "big_page", "entries": n, "unsupported": None, "dictionary": False}
    return spec


def crafted_bitpacked(rng, count):
    """OPTIONAL columns of 32 rows whose BIT_PACKED definition levels (4 bytes, MSB first: only row 6 present) read as
    the little-endian length 2, followed by a value whose first two bytes are a legal RLE run of 32 zeros."""
    out = []
    for i in range(count):
        ptype = rng.choice(["INT32", "INT64", "FLOAT", "DOUBLE", "INT96", "FIXED_LEN_BYTE_ARRAY"])
        tl = rng.choice([2, 3, 8]) if ptype == "FIXED_LEN_BYTE_ARRAY" else 0
        w = tl or pq.FIXED_WIDTH[ptype]
        root = pq.SchemaNode("schema", "REQUIRED", children=[pq.SchemaNode("v", "OPTIONAL", ptype, tl)])
        n = 32
        defs = [0] * n
        defs[6] = 1
        val = bytes([64, 0]) + bytes(rng.getrandbits(8) for _ in range(w - 2))
        p = pq.PageSpec(n, "PLAIN")
        p.level_encoding = "BIT_PACKED"
        col = pq.ColumnSpec(defs, [0] * n, [val], [p], rng.choice(pq.SUPPORTED_CODECS))
        spec = pq.FileSpec(root, [pq.RowGroupSpec(n, [col])])
        spec.features = {"bit_packed_levels": True, "unsupported": ("level_encoding", "BIT_PACKED", 0), "crafted": True}
        out.append(spec)
    return out


def width0_file(rng, ptype, n, plan):
    """A one-entry dictionary whose index stream is written at bit width 0 (what parquet-mr does for a single-entry
    dictionary; tools/pq.py never goes below width 1): the hybrid stream is encoded at width 0 and the width byte of
    every data page is patched from 1 to 0 in place (REQUIRED column, UNCOMPRESSED: it is the first body byte).
    The result is validated with the independent reader before it is used."""
    tl = 3 if ptype == "FIXED_LEN_BYTE_ARRAY" else 0
    root = pq.SchemaNode("schema", "REQUIRED", children=[pq.SchemaNode("v", "REQUIRED", ptype, tl)])
    v = pq.gen_leaf_value(rng, ptype, tl, True)
    pages = []
    for c in pq.split_pages(rng, [0] * n, n, max_pages=3):
        p = pq.PageSpec(c, rng.choice(["RLE_DICTIONARY", "PLAIN_DICTIONARY"]))
        p.idx_plan = plan
        pages.append(p)
    col = pq.ColumnSpec([0] * n, [0] * n, [v] * n, pages, "UNCOMPRESSED")
    col.dictionary = [v]
    col.dict_offset = rng.choice(["present", "absent"])
    spec = pq.FileSpec(root, [pq.RowGroupSpec(n, [col])])
    spec.features = {"directed": "index_width_0", "unsupported": None, "dictionary": True, "dict_offset": col.dict_offset}
    old = pq.rle_hybrid_encode
    pq.rle_hybrid_encode = lambda values, width, plan=None: old(values, 0 if width == 1 else width, plan)
    try:
        data = bytearray(pq.write_file(spec, rng))
    finally:
        pq.rle_hybrid_encode = old
    for pg in pq.read_file(bytes(data), decode_values=False).chunks[0][0].pages:
        if pg.kind == "DATA_PAGE":
            if data[pg.body_offset] != 1:
                raise RuntimeError("width0_file: unexpected page layout")
            data[pg.body_offset] = 0
    data = bytes(data)
    pf = pq.read_file(data)
    if pf.errors() or pf.levels() != spec.truth():
        raise RuntimeError("width0_file: the independent reader does not read the constructed file back")
    return spec, data


# ---- metadata a real-world writer emits and tools/pq.py's optional_meta does not (coverage audit: the parse branches of
#      src/thrift/parquet_types.c for logicalType, converted types, deprecated statistics, index / bloom offsets ...)

def _logical_type(k):
    """LogicalType union member number k of parquet.thrift (plus two members the pinned format does not know)."""
    T, S, F = pq.TStruct, pq.CT_STRUCT, pq.TField
    unit = lambda u: T([F(u, S, T([]))])
    members = {
        1: T([]), 2: T([]), 3: T([]), 4: T([]),                                   # STRING MAP LIST ENUM
        5: T([F(1, pq.CT_I32, 2), F(2, pq.CT_I32, 9), F(7, pq.CT_I64, 1)]),       # DECIMAL(scale, precision) + unknown field
        6: T([]),                                                                  # DATE
        7: T([F(1, pq.CT_TRUE, True), F(2, S, unit(1 + k % 3)), F(5, pq.CT_BINARY, b"x")]),   # TIME(isAdjustedToUTC, unit) + unknown
        8: T([F(1, pq.CT_FALSE, False), F(2, S, unit(1 + (k + 1) % 3)), F(3, pq.CT_I32, 4)]),   # TIMESTAMP + unknown
        10: T([F(1, pq.CT_BYTE, 32), F(2, pq.CT_TRUE, True), F(3, pq.CT_STRUCT, T([]))]),     # INTEGER(bitWidth, isSigned) + unknown
        11: T([]), 12: T([]), 13: T([]), 14: T([]), 15: T([]),                    # UNKNOWN JSON BSON UUID FLOAT16
        16: T([F(1, pq.CT_BYTE, 1)]),                                             # VARIANT (newer format versions)
        17: T([F(1, pq.CT_BINARY, b"OGC:CRS84")]),                                # GEOMETRY (newer format versions)
    }
    ids = sorted(members)
    m = ids[k % len(ids)]
    return m, T([F(m, S, members[m])])


def enrich_metadata(data, rng):
    """Add to a file of the reference writer the optional metadata other writers emit: SchemaElement.converted_type /
    scale / precision / field_id / logicalType (every union member in turn), Statistics with the deprecated max / min,
    distinct_count and the is_*_value_exact flags, ColumnMetaData.index_page_offset / bloom_filter_offset / _length /
    size_statistics, ColumnChunk offset-index and column-index locations (real OffsetIndex / ColumnIndex structures
    are inserted between the last row group and the footer), RowGroup.sorting_columns.  The page data is untouched."""
    T, F, L = pq.TStruct, pq.TField, pq.TList
    pf = pq.read_file(data, decode_values=False)
    n = len(data)
    flen = int.from_bytes(data[n - 8:n - 4], "little")
    fs = n - 8 - flen
    blob = bytearray()
    index_loc = {}
    for rg in pf.chunks:
        for ch in rg:
            if ch is None:
                continue
            dps = [p for p in ch.pages if p.kind == "DATA_PAGE"]
            oi = T([F(1, pq.CT_LIST, L(pq.CT_STRUCT, [T([F(1, pq.CT_I64, p.offset), F(2, pq.CT_I32, p.header_len + p.compressed_size),
                                                        F(3, pq.CT_I64, i)]) for i, p in enumerate(dps)]))])
            ci = T([F(1, pq.CT_LIST, L(pq.CT_TRUE, [False] * len(dps))), F(2, pq.CT_LIST, L(pq.CT_BINARY, [b"\x00"] * len(dps))),
                    F(3, pq.CT_LIST, L(pq.CT_BINARY, [b"\xff"] * len(dps))), F(4, pq.CT_I32, 0),
                    F(5, pq.CT_LIST, L(pq.CT_I64, [0] * len(dps)))])
            a = pq.thrift_encode_struct(ci)
            b = pq.thrift_encode_struct(oi)
            index_loc[(ch.rg, ch.col)] = (fs + len(blob), len(a), fs + len(blob) + len(a), len(b))
            blob += a + b
    counter = [rng.randrange(100)]

    def fn(ts):
        leaf_no = 0
        for el in ts.get(2).items:
            if el.get(5) is not None:                      # group
                if rng.random() < 0.5:
                    el.set(6, pq.CT_I32, rng.choice([1, 2, 3]))           # MAP / MAP_KEY_VALUE / LIST
                    el.set(10, pq.CT_STRUCT, T([F(rng.choice([2, 3]), pq.CT_STRUCT, T([]))]))
                continue
            if el.get(1) is None:
                continue
            counter[0] += 1
            m, lt = _logical_type(counter[0])
            el.set(6, pq.CT_I32, rng.choice([0, 5, 6, 9, 10, 17, 19, 21]))
            el.set(7, pq.CT_I32, 2)
            el.set(8, pq.CT_I32, 9)
            if el.get(9) is None:
                el.set(9, pq.CT_I32, 1000 + leaf_no)
            el.set(10, pq.CT_STRUCT, lt)
            leaf_no += 1
        for r, rg in enumerate(ts.get(4).items):
            rg.set(4, pq.CT_LIST, L(pq.CT_STRUCT, [T([F(1, pq.CT_I32, 0), F(2, pq.CT_TRUE, True), F(3, pq.CT_FALSE, False)])]))
            for c, cc in enumerate(rg.get(1).items):
                md = cc.get(3)
                st = md.get(12) or T([])
                mx, mn = st.get(5), st.get(6)
                st.set(1, pq.CT_BINARY, mx if mx is not None else b"")
                st.set(2, pq.CT_BINARY, mn if mn is not None else b"")
                if st.get(3) is None:
                    st.set(3, pq.CT_I64, 0)
                st.set(4, pq.CT_I64, 3)
                st.set(7, pq.CT_TRUE, True)
                st.set(8, pq.CT_FALSE, False)
                md.set(12, pq.CT_STRUCT, st)
                md.set(10, pq.CT_I64, fs)                  # index_page_offset (no reader uses index pages)
                md.set(14, pq.CT_I64, fs)                  # bloom filter "at" the index region (never read by a column read)
                md.set(15, pq.CT_I32, 0)
                md.set(16, pq.CT_STRUCT, T([F(1, pq.CT_I64, 7), F(2, pq.CT_LIST, L(pq.CT_I64, [1, 2])), F(3, pq.CT_LIST, L(pq.CT_I64, [3]))]))
                if (r, c) in index_loc:
                    a0, al, b0, bl = index_loc[(r, c)]
                    cc.set(6, pq.CT_I64, a0)
                    cc.set(7, pq.CT_I32, al)
                    cc.set(4, pq.CT_I64, b0)
                    cc.set(5, pq.CT_I32, bl)

    ts, _ = pq.thrift_decode_struct(data, fs, n - 8)
    fn(ts)
    footer = pq.thrift_encode_struct(ts)
    return bytes(data[:fs]) + bytes(blob) + footer + len(footer).to_bytes(4, "little") + pq.MAGIC


def rich_extras():
    """Unknown fields of every wire type thrift_skip has a branch for (replaces pq._extras for one family): byte, i16,
    i64, double, false, empty binary, list<bool>, set<i32>, empty map, map<i32, struct>, list<struct>, list<list<i32>>,
    structs nested five deep, a field id needing three varint bytes."""
    T, F, L, M = pq.TStruct, pq.TField, pq.TList, pq.TMap
    deep = T([F(1, pq.CT_I32, 5)])
    for _ in range(5):
        deep = T([F(1, pq.CT_STRUCT, deep), F(2, pq.CT_BINARY, b"")])
    return [F(100, pq.CT_I32, -12345), F(101, pq.CT_BINARY, b"unknown\x00field"),
            F(102, pq.CT_STRUCT, T([F(1, pq.CT_LIST, L(pq.CT_I64, [1, 2, 3])), F(2, pq.CT_TRUE, True)])),
            F(103, pq.CT_BYTE, 0x7F), F(104, pq.CT_I16, -300), F(105, pq.CT_I64, -(2 ** 62)), F(106, pq.CT_DOUBLE, 2.5),
            F(107, pq.CT_FALSE, False), F(108, pq.CT_BINARY, b""), F(109, pq.CT_LIST, L(pq.CT_TRUE, [True, False, True])),
            F(110, pq.CT_SET, L(pq.CT_I32, list(range(20)), is_set=True)), F(111, pq.CT_MAP, M(pq.CT_I32, pq.CT_I32, [])),
            F(112, pq.CT_MAP, M(pq.CT_I32, pq.CT_STRUCT, [(1, T([F(1, pq.CT_BYTE, 1)])), (2, T([]))])),
            F(113, pq.CT_LIST, L(pq.CT_STRUCT, [T([F(3, pq.CT_DOUBLE, -0.0)]), T([])])),
            F(114, pq.CT_LIST, L(pq.CT_LIST, [L(pq.CT_I32, [1, 2]), L(pq.CT_I32, [])])),
            F(115, pq.CT_STRUCT, deep),
            # non-empty containers of every element / key / value type (a bool ELEMENT occupies a byte, a bool FIELD none)
            F(116, pq.CT_MAP, M(pq.CT_BINARY, pq.CT_TRUE, [(b"abc", True), (b"xy", False)])),
            F(117, pq.CT_MAP, M(pq.CT_TRUE, pq.CT_BINARY, [(True, b"t"), (False, b"")])),
            F(118, pq.CT_MAP, M(pq.CT_BYTE, pq.CT_I16, [(1, -2), (3, 4)])),
            F(119, pq.CT_MAP, M(pq.CT_I64, pq.CT_DOUBLE, [(2 ** 40, 1.5)])),
            F(120, pq.CT_MAP, M(pq.CT_I32, pq.CT_LIST, [(7, L(pq.CT_TRUE, [False, True]))])),
            F(121, pq.CT_MAP, M(pq.CT_I16, pq.CT_MAP, [(1, M(pq.CT_BINARY, pq.CT_TRUE, [(b"q", True)]))])),
            F(122, pq.CT_LIST, L(pq.CT_BYTE, [1, 2, 255])), F(123, pq.CT_LIST, L(pq.CT_I16, [-1, 300])),
            F(124, pq.CT_LIST, L(pq.CT_DOUBLE, [0.0, -1.25])), F(125, pq.CT_LIST, L(pq.CT_BINARY, [b"", b"xyz"])),
            F(126, pq.CT_SET, L(pq.CT_TRUE, [True, True, False], is_set=True)), F(127, pq.CT_SET, L(pq.CT_BINARY, [b"s"], is_set=True)),
            F(128, pq.CT_LIST, L(pq.CT_MAP, [M(pq.CT_I32, pq.CT_TRUE, [(1, False)]), M(pq.CT_I32, pq.CT_TRUE, [])])),
            F(129, pq.CT_LIST, L(pq.CT_STRUCT, [T([F(1, pq.CT_MAP, M(pq.CT_BINARY, pq.CT_TRUE, [(b"z", False)])), F(2, pq.CT_TRUE, True)])])),
            F(130, pq.CT_LIST, L(pq.CT_I64, list(range(20)), long_form=True)),
            F(2000, pq.CT_MAP, M(pq.CT_BINARY, pq.CT_I32, [(b"k", 1)])), F(30000, pq.CT_I16, 1)]


def overshoot_spec(rng):
    """Level and index streams whose last RLE run announces more values than the page has left (the reader takes
    num_values of them; writers that pad runs exist): OPTIONAL column, dictionary-encoded."""
    ptype = rng.choice(["INT32", "INT64", "BYTE_ARRAY", "DOUBLE"])
    root = pq.SchemaNode("schema", "REQUIRED", children=[pq.SchemaNode("v", "OPTIONAL", ptype, 0)])
    n = rng.choice([5, 8, 13, 40])
    tail = min(n, rng.choice([1, 3, 9, 20]))
    defs = [rng.getrandbits(1) for _ in range(n - tail)] + [1] * tail
    nn = sum(defs)
    v = [pq.gen_leaf_value(rng, ptype, 0, True) for _ in range(3)]
    vals = [rng.choice(v) for _ in range(nn - tail)] + [v[0]] * tail
    p = pq.PageSpec(n, rng.choice(["RLE_DICTIONARY", "PLAIN"]))
    over = rng.choice([1, 7, 8, 100])
    head_d = pq.default_plan(defs[:n - tail]) if n > tail else []
    # the default plan may pad its last bit-packed group: cover the head exactly with groups + literal RLE runs
    def exact(seq):
        plan, i = [], 0
        while len(seq) - i >= 8:
            plan.append(("bp", 1))
            i += 8
        while i < len(seq):
            plan.append(("rle", 1))
            i += 1
        return plan
    p.def_plan = exact(defs[:n - tail]) + [("rle", tail + over)]
    p.idx_plan = exact(vals[:nn - tail]) + [("rle", tail + over)]
    col = pq.ColumnSpec(defs, [0] * n, vals, [p], rng.choice(pq.SUPPORTED_CODECS))
    col.dict_offset = rng.choice(["present", "absent"])
    spec = pq.FileSpec(root, [pq.RowGroupSpec(n, [col])])
    spec.features = {"directed": "rle_overshoot", "over": over, "unsupported": None, "dictionary": p.encoding != "PLAIN"}
    return spec


class _Patched:
    """Temporarily teach the reference writer a value encoding id the format does not define (the body is written as
    PLAIN): used for 'every other integer in the encoding field'."""
    def __init__(self, ids):
        self.ids = ids

    def __enter__(self):
        self.old = pq.encode_values
        for i in self.ids:
            pq.ENCODING_ID["ENC_%d" % i] = i

        def enc(encoding, ptype, values, tlen=0):
            if encoding.startswith("ENC_"):
                return self.old("PLAIN", ptype, values, tlen)
            return self.old(encoding, ptype, values, tlen)
        pq.encode_values = enc
        return self

    def __exit__(self, *a):
        pq.encode_values = self.old
        for i in self.ids:
            pq.ENCODING_ID.pop("ENC_%d" % i, None)


OTHER_ENCODING_IDS = [1, 3, 4, 5, 6, 7, 9, 10, 11, 63, 64, 127, 128, 255, 256, 65535, 2 ** 31 - 1, -1, -2, -(2 ** 31)]
OTHER_CODEC_IDS = [3, 4, 8, 9, 10, 63, 64, 127, 128, 255, 256, 65535, 2 ** 31 - 1, -1, -2, -(2 ** 31)]
OTHER_PAGE_TYPES = [1, 4, 5, 63, -1, -64]      # one-byte zigzag values only (patched in place)


def patch_page_types(data, newtype):
    """Replace the type of every *data* page header by `newtype` (same encoded length: one zigzag byte).  Returns
    None when a header is not in the short form (long-form field headers)."""
    pf = pq.read_file(data, decode_values=False)
    b = bytearray(data)
    n = 0
    for rg in pf.chunks:
        for ch in rg:
            if ch is None:
                continue
            for p in ch.pages:
                if p.kind != "DATA_PAGE":
                    continue
                if b[p.offset] != 0x15 or b[p.offset + 1] != 0x00:
                    return None
                z = (newtype << 1) ^ (newtype >> 63)
                if not 0 <= z < 128:
                    return None
                b[p.offset + 1] = z
                n += 1
    return bytes(b) if n else None


def gen_cases(tier, rng):
    """All file cases of one run."""
    cases = []
    thorough = tier == "thorough"

    def add(label, spec, expect="values", bad=(), key=None, data=None, family="", chooser=None):
        """chooser: (codec number, body) -> name of a framing of tools/pq_codecs.VARIANTS for the pages of this file."""
        mark = len(pq_codecs.variant_log)
        pq_codecs.variant_chooser = chooser
        try:
            d = data if data is not None else pq.write_file(spec, rng)
        except Exception as e:          # a generator bug must not pass silently
            raise RuntimeError(f"reference writer failed on {label}: {e!r}")
        finally:
            pq_codecs.variant_chooser = None
        used = sorted(set(pq_codecs.variant_log[mark:]))
        del pq_codecs.variant_log[mark:]
        if used:
            spec.features["codec_framings"] = ["%s:%s" % (pq_codecs.CODEC_NAMES.get(c, c), v) for c, v in used]
        cases.append(FileCase(label, spec, d, expect, bad, key, family))

    def any_legal(c, body):
        """a random framing among those a page may certainly hold"""
        names = pq_codecs.legal_variants(c)
        return rng.choice(names) if names else None

    # A. the systematic grid (360 cells per round)
    for rnd in range(20 if thorough else 4):
        for label, spec in pq.feature_grid(rng):
            if spec.features.get("bit_packed_levels"):
                # deprecated BIT_PACKED level encoding: not claimed.  Chunks with a level block must be refused,
                # chunks without levels (the field is then meaningless: parquet-mr writes BIT_PACKED there) read.
                add(f"grid{rnd}/{label}", spec, "reject", levelled_chunks(spec), family="bitpacked_levels")
            else:
                add(f"grid{rnd}/{label}", spec, "values", family="grid")
    # B. random specs, every flag random (zero-length runs, splits inside records, dictionary offset absent ...)
    for i in range(20000 if thorough else 2500):
        flags = {"dict_offset": rng.choice(["present", "absent"]), "split_inside_records": rng.random() < 0.3}
        spec = pq.gen_spec(rng, **flags)
        add(f"random/{i}", spec, "values", family="random", chooser=any_legal if i % 2 else None)
    # C. directed: level widths (max level 0..9 incl. 2^k - 1, 2^k), repetition depth 0..3, index widths
    lv = [(d, r) for d in range(0, 10) for r in range(0, min(d, 3) + 1)]
    for rnd in range(8 if thorough else 2):
        for d, r in lv:
            add(f"levels/def{d}_rep{r}/{rnd}", directed_spec(rng, d, r), "values", family="levels")
        for nd in (1, 2, 3, 4, 5, 8, 9, 16, 17, 255, 256, 257, 1024, 1025):
            for extra in (0, 1, 3):
                add(f"idxwidth/n{nd}_x{extra}/{rnd}", index_width_spec(rng, nd, extra, rng.choice(["INT32", "INT64", "DOUBLE", "INT96"])),
                    "values", family="idxwidth")
    # C1b. index streams at bit width 0 (single-entry dictionary)
    for i in range(60 if thorough else 15):
        spec, data = width0_file(rng, rng.choice(["INT32", "INT64", "DOUBLE", "INT96", "BYTE_ARRAY", "FIXED_LEN_BYTE_ARRAY"]),
                                 rng.choice([1, 7, 8, 9, 30, 100]), rng.choice([None, "random", "random_nozero"]))
        add(f"idxwidth0/{i}", spec, "values", data=data, family="idxwidth")
    # C1c. legal-but-unusual codec framings (tools/pq_codecs.VARIANTS): every framing of every codec, on every page of
    #      the file (dictionary pages included): ZSTD frames without Frame_Content_Size (ZSTD_c_contentSizeFlag = 0,
    #      ZSTD_compressStream2 in pieces, with flushes), with checksum, levels -5..19, several frames, a skippable
    #      frame first; GZIP members with FEXTRA / FNAME / FCOMMENT / FHCRC, stored / fixed-Huffman / Huffman-only /
    #      RLE-strategy blocks, a full flush in the middle; SNAPPY from libsnappy and literal-only blocks; LZ4_RAW from
    #      LZ4_compress_default / _HC 3, 9, 12 / _fast and literal-only blocks.  GZIP 'members3' (three members in one
    #      page) is of open legality: values or an error, never wrong data.
    for cid, variants in pq_codecs.VARIANTS.items():
        cname = pq_codecs.CODEC_NAMES[cid]
        for vname, (_, legal) in variants.items():
            for i in range(6 if thorough else 2):
                spec = pq.gen_spec(rng, codec=cname, dict_offset=rng.choice(["present", "absent"]),
                                   nested=(i % 2 == 1), max_rows=rng.choice([40, 40, 300]))
                add(f"framing/{cname}/{vname}/{i}", spec, "values" if legal else "either",
                    family="codec_framings" if legal else "codec_framings_open", chooser=(lambda c, b, v=vname: v))
    # C1d. pages above 64 KiB (several snappy fragments, LZ4 / zstd / deflate windows in use)
    for cname in ("SNAPPY", "GZIP", "ZSTD", "LZ4_RAW"):
        for i in range(3 if thorough else 1):
            spec = big_spec(rng, cname)
            add(f"bigpage/{cname}/{i}", spec, "values", family="big_pages", chooser=any_legal)
    # C1e. (coverage audit) metadata other writers emit: logical types, converted types, deprecated statistics, page
    #      index / bloom filter locations, sorting columns - on files of every shape
    for i in range(120 if thorough else 36):
        spec = pq.gen_spec(rng, dict_offset=rng.choice(["present", "absent"]), max_rows=20)
        data = enrich_metadata(pq.write_file(spec, rng), rng)
        spec.features["rich_metadata"] = True
        add(f"richmeta/{i}", spec, "values", data=data, family="rich_metadata")
    # C1f. (coverage audit) unknown fields of every wire type the skipper has a branch for
    old_extras = pq._extras
    pq._extras = lambda rng_like=None: rich_extras()
    try:
        for i in range(40 if thorough else 12):
            spec = pq.gen_spec(rng, extra_fields=True, long_form=(i % 3 == 0), max_rows=20)
            spec.features["rich_extras"] = True
            add(f"richextras/{i}", spec, "values", family="rich_extras")
    finally:
        pq._extras = old_extras
    # C1f2. (coverage audit, finding FC1) page headers longer than the reader's first 256-byte window: page statistics
    #       holding long min / max values, at the window boundary and far beyond it
    for i in range(40 if thorough else 12):
        L = [100, 110, 118, 119, 120, 121, 130, 300, 1000, 5000, 20000, 150000][i % 12]
        rep_ = rng.choice(["REQUIRED", "OPTIONAL"])
        root = pq.SchemaNode("schema", "REQUIRED", children=[pq.SchemaNode("v", rep_, "BYTE_ARRAY", 0)])
        n = rng.choice([3, 9])
        defs = [1 if rep_ == "OPTIONAL" and rng.random() < 0.8 else (0 if rep_ == "REQUIRED" else 0) for _ in range(n)]
        maxdef = 1 if rep_ == "OPTIONAL" else 0
        vals = [bytes([65 + rng.randrange(26)]) * (L + rng.randrange(3)) for d in defs if d == maxdef]
        pages = []
        for cnt in pq.split_pages(rng, [0] * n, n, max_pages=3):
            p = pq.PageSpec(cnt, rng.choice(["PLAIN", "RLE_DICTIONARY"]))
            p.stats = True
            p.crc = rng.random() < 0.5
            pages.append(p)
        col = pq.ColumnSpec(defs, [0] * n, vals, pages, rng.choice(pq.SUPPORTED_CODECS))
        col.dict_offset = rng.choice(["present", "absent"])
        col.chunk_stats = True
        spec = pq.FileSpec(root, [pq.RowGroupSpec(n, [col])])
        spec.features = {"directed": "long_page_header", "value_length": L, "unsupported": None, "dictionary": True}
        add(f"longheader/{i}", spec, "values", family="long_page_header")
    # C1g. (coverage audit) a last RLE run that announces more values than the page has left
    for i in range(60 if thorough else 16):
        add(f"overshoot/{i}", overshoot_spec(rng), "values", family="rle_overshoot")
    # C2. long streams: run headers of two varint bytes (RLE runs > 63 values, bit-packed runs > 63 groups), pages of
    #     thousands of entries
    for i in range(40 if thorough else 8):
        spec = long_spec(rng)
        add(f"long/{i}", spec, "values", family="long")
    # C2b. data pages without values (num_values = 0) before, between and after the pages that hold the entries
    for i in range(60 if thorough else 16):
        spec = pq.gen_spec(rng, dict_offset=rng.choice(["present", "absent"]), max_rows=12)
        for rg in spec.row_groups:
            for col in rg.columns:
                if not col.pages:
                    continue
                proto = col.pages[0]
                for _ in range(rng.randrange(1, 3)):
                    e = pq.PageSpec(0, proto.encoding)
                    e.crc = proto.crc
                    col.pages.insert(rng.randrange(len(col.pages) + 1), e)
        spec.features["empty_pages"] = True
        add(f"emptypages/{i}", spec, "values", family="empty_pages")
    # C3. crafted BIT_PACKED level blocks that happen to parse as a length-prefixed RLE block (FB2)
    for i, spec in enumerate(crafted_bitpacked(rng, 24 if thorough else 8)):
        add(f"bitpacked_crafted/{i}", spec, "reject", levelled_chunks(spec), family="bitpacked_levels")
    # D. exactly one unclaimed feature
    nuns = 500 if thorough else 120
    for uns in ("encoding", "page_v2", "codec"):
        for i in range(nuns):
            spec = pq.gen_spec(rng, unsupported=uns, dict_offset=rng.choice(["present", "absent"]))
            if not spec.features.get("unsupported"):
                continue
            add(f"unsupported/{uns}/{i}", spec, "reject", bad_chunks(spec), family="unsupported_" + spec.features["unsupported"][0])
    # D2. every other integer in the encoding / codec / page-type fields
    with _Patched(OTHER_ENCODING_IDS):
        for e in OTHER_ENCODING_IDS:
            for i in range(3 if thorough else 1):
                spec = pq.gen_spec(rng, encoding="PLAIN", random_runs=False, long_form=False)
                ci = rng.randrange(len(spec.leaves()))
                for rg in spec.row_groups:
                    for p in rg.columns[ci].pages:
                        p.encoding = "ENC_%d" % e
                spec.features["unsupported"] = ("encoding", e, ci)
                add(f"unsupported/encoding_id{e}/{i}", spec, "reject", bad_chunks(spec), family="unsupported_encoding")
    for cid in OTHER_CODEC_IDS:
        for i in range(3 if thorough else 1):
            spec = pq.gen_spec(rng, long_form=False)
            ci = rng.randrange(len(spec.leaves()))
            for rg in spec.row_groups:
                rg.columns[ci].codec = cid
                rg.columns[ci].body_codec = rng.choice(["UNCOMPRESSED", "SNAPPY"])
            spec.features["unsupported"] = ("codec", cid, ci)
            add(f"unsupported/codec_id{cid}/{i}", spec, "reject", bad_chunks(spec), family="unsupported_codec")
    for pt in OTHER_PAGE_TYPES:
        for i in range(3 if thorough else 1):
            spec = pq.gen_spec(rng, long_form=False, extra_fields=False)
            data = patch_page_types(pq.write_file(spec, rng), pt)
            if data is None:
                continue
            spec.features["unsupported"] = ("page_type", pt, -1)
            bad = [(r, c) for r, rg in enumerate(spec.row_groups) for c, col in enumerate(rg.columns) if col.defs and col.pages]
            add(f"unsupported/page_type{pt}/{i}", spec, "reject", bad, data=data, family="unsupported_page_type")
    # D3. (coverage audit) a dictionary-encoded chunk whose dictionary page the metadata does not lead to
    #     (dictionary_page_offset removed, data_page_offset points behind the dictionary page): DICTIONARY_NOT_FOUND;
    #     a column chunk without meta_data (metadata in another file: not implemented)
    for i in range(30 if thorough else 8):
        spec = pq.gen_spec(rng, encoding=rng.choice(["RLE_DICTIONARY", "PLAIN_DICTIONARY"]), dict_offset="present", long_form=False)
        data = pq.write_file(spec, rng)
        kind = "no_dictionary" if i % 2 == 0 else "no_meta_data"

        def fn(ts, kind=kind):
            for rg in ts.get(4).items:
                for cc in rg.get(1).items:
                    if kind == "no_dictionary":
                        cc.get(3).remove(11)
                    else:
                        cc.set(1, pq.CT_BINARY, b"other.parquet")
                        cc.remove(3)
        data = pq.rewrite_footer(data, fn)
        lv = spec.leaves()
        if kind == "no_dictionary":
            bad = [(r, c) for r, rg in enumerate(spec.row_groups) for c, col in enumerate(rg.columns)
                   if col.defs and any(p.encoding != "PLAIN" and p.n for p in col.pages)
                   and any(d == lv[c].max_def for d in col.defs)]
        else:
            bad = [(r, c) for r, rg in enumerate(spec.row_groups) for c, col in enumerate(rg.columns)]
        spec.features["unsupported"] = (kind, None, -1)
        add(f"unsupported/{kind}/{i}", spec, "either" if kind == "no_dictionary" else "reject", bad, data=data,
            family="unsupported_" + kind)
    # E. codec id 5 (LZ4, deprecated): carquet reads it as a bare LZ4 block (what its own writer emits, FA6); the
    #    format defines id 5 as Hadoop-framed.  Neither layout may ever give wrong values.
    for i in range(200 if thorough else 30):
        spec = pq.gen_spec(rng, dict_offset=rng.choice(["present", "absent"]))
        framed = i % 2 == 0
        for rg in spec.row_groups:
            for col in rg.columns:
                col.codec = 5
                col.body_codec = "LZ4" if framed else "LZ4_RAW"
        spec.features["lz4_id5"] = "hadoop_framed" if framed else "bare_block"
        add(f"lz4id5/{'framed' if framed else 'bare'}/{i}", spec, "either" if framed else "values", family="lz4_id5_" + ("framed" if framed else "bare"))
    # F. dictionary-encoded BOOLEAN (legal per the format text, no known writer emits it): values or an error
    for i in range(60 if thorough else 10):
        spec = pq.gen_spec(rng, bool_dict=True, types=["BOOLEAN", "INT32"], encoding=rng.choice(["RLE_DICTIONARY", "PLAIN_DICTIONARY"]))
        add(f"booldict/{i}", spec, "either", family="bool_dictionary")
    return cases


# ----------------------------------------------------------------------------- judging what carquet did

def hx(v):
    """hex of a delivered value (the driver prints unreadable byte-array slots as marker objects)"""
    return v.hex() if isinstance(v, (bytes, bytearray)) else repr(v)


def is_prefix(got, want):
    return len(got) <= len(want) and list(want[:len(got)]) == list(got)


def judge(case, d):
    """Compare one Dump with the case's truth.  Returns a list of (what, detail) problems (empty = fine)."""
    out = []
    if d.fault:
        return [("crash", f"reader died: {d.fault.get('summary')}")]
    if not d.opened:
        if case.expect == "values":
            return [("open", f"open failed: {d.error}")]
        return []
    got = {(c.rg, c.col): c for c in d.chunks}
    for r, rg in enumerate(case.truth):
        for c, (defs, reps, vals) in enumerate(rg):
            ch = got.get((r, c))
            where = f"rg {r} col {c} ({case.leaves[c].ptype} maxdef {case.leaves[c].max_def} maxrep {case.leaves[c].max_rep})"
            if ch is None:
                out.append(("missing", f"{where}: chunk not dumped"))
                continue
            exact = ch.end == "OK" and ch.defs == defs and ch.reps == reps and ch.values == vals
            failed = ch.end != "OK"
            clean_fail = failed and is_prefix(ch.defs, defs) and is_prefix(ch.reps, reps) and is_prefix(ch.values, vals)
            must_fail = case.expect == "reject" and (r, c) in case.bad
            may_fail = case.expect == "either"
            if must_fail:
                if not failed:
                    out.append(("accepted", f"{where}: unsupported feature accepted: " +
                                ("values equal the stored ones" if exact else
                                 f"WRONG DATA delivered with status OK: defs {ch.defs[:12]} / stored {defs[:12]}, values {[hx(v) for v in ch.values[:4]]} / stored {[v.hex() for v in vals[:4]]}")))
                elif not clean_fail:
                    out.append(("wrong_before_error", f"{where}: data delivered before the error differs from the stored data"))
            elif exact:
                pass
            elif may_fail and clean_fail:
                pass
            elif failed:
                out.append(("rejected" if clean_fail else "wrong_before_error",
                            f"{where}: read ended with {ch.end} after {len(ch.defs)} of {len(defs)} entries"))
            else:
                k = next((i for i, (a, b) in enumerate(zip(ch.defs, defs)) if a != b), None)
                what = "wrong"
                if ch.defs != defs:
                    det = f"definition levels differ (first at {k}): got {ch.defs[:16]} stored {defs[:16]} (lengths {len(ch.defs)}/{len(defs)})"
                elif ch.reps != reps:
                    det = f"repetition levels differ: got {ch.reps[:16]} stored {reps[:16]}"
                else:
                    k = next((i for i, (a, b) in enumerate(zip(ch.values, vals)) if a != b), min(len(ch.values), len(vals)))
                    det = (f"values differ (first at {k} of {len(vals)}, got {len(ch.values)}): got "
                           f"{[hx(v) for v in ch.values[k:k + 3]]} stored {[v.hex() for v in vals[k:k + 3]]}")
                out.append((what, f"{where}: {det}"))
    return out


def safe_parse(out, md):
    """filecase.parse_dump, tolerant of a line cut short by a child that died while printing it (ASan report in
    the middle of a `part` line): the malformed line is dropped, the fault stays recorded."""
    try:
        return filecase.parse_dump(out, md)
    except Exception:
        lines = [ln for ln in out.lines if not ln.startswith("part ") or (" nvals=" in ln and " vals=" in ln)]
        d = filecase.parse_dump(lines, md)
        d.fault = out.fault or {"summary": "driver output malformed (child died while printing)"}
        return d


CASE_TIMEOUT = 10          # seconds per forked driver case (a legitimate case takes milliseconds; big pages < 1 s)


def dump_many(requests):
    """Like filecase.dump_many (open + META + DUMP per request, each in its own forked case), with safe_parse."""
    import os
    scripts, tmps, mds = [], [], []
    for (src, mode, verify, batch, md) in requests:
        s = filecase.Script()
        tmp = None
        if mode == "buffer":
            s.load_image(src)
            s.open("buffer", verify)
        else:
            tmp = filecase.tmppath()
            Path(tmp).write_bytes(bytes(src))
            s.open(mode, verify, tmp)
        s.meta().dump(batch, maxdef=md).close()
        scripts.append(s)
        tmps.append(tmp)
        mds.append(md)
    try:
        outs = filecase.run_scripts(scripts, case_timeout=CASE_TIMEOUT)
    finally:
        for t in tmps:
            if t:
                try:
                    os.unlink(t)
                except OSError:
                    pass
    return [safe_parse(o, md) for o, md in zip(outs, mds)]


def run_files(rep, cases, rng, tier, stats):
    """Read every case in the three modes (one read_batch for everything; a sample again in small batches)."""
    reqs, owners = [], []
    for k, c in enumerate(cases):
        for mode in MODES:
            reqs.append((c.data, mode, True, 1 << 20, c.maxdef))
            owners.append((k, mode, 1 << 20))
        if rng.random() < (0.5 if tier == "thorough" else 0.25):
            mode, b = rng.choice(MODES), rng.choice([1, 3, 7])
            # h_file's DUMP stops with OVERRUN once a chunk delivered more than rows + 4*batch + 64 entries (a guard
            # against runaway readers); repeated fields have more entries than rows, so keep the batch large enough
            over = max([len(col.defs) - rg.num_rows - 64 for rg in c.spec.row_groups for col in rg.columns] + [0])
            b = max(b, (over + 3) // 4 + 1)
            reqs.append((c.data, mode, False, b, c.maxdef))
            owners.append((k, mode, b))
    t0 = time.time()
    # the reads go to the driver in slices (a small one first): a tree on which every open hangs or dies must not
    # cost (number of files) x (case timeout) - once 40 reads have failed the remaining slices are not run
    order = list(range(len(reqs)))
    rng.shuffle(order)
    slices, pos, size = [], 0, 64
    while pos < len(order):
        slices.append(order[pos:pos + size])
        pos += size
        size = 256 if size == 64 else 1500
    nviol = 0
    results = {}
    done = 0
    stats["stopped_early"] = False
    ncrash = 0
    for sl in slices:
        if nviol >= 40 or ncrash >= 8:      # crashes / hangs: every further case may cost a case timeout
            stats["stopped_early"] = True
            break
        dumps = dump_many([reqs[i] for i in sl])
        ncrash += sum(1 for d in dumps if d.fault)
        done += len(sl)
        nviol = _judge_slice(rep, cases, [owners[i] for i in sl], dumps, stats, results, nviol)
    stats["read_seconds"] = round(time.time() - t0, 1)
    stats["reads"] = done
    for c in cases:
        stats["families"].setdefault(c.family, {"files": 0, "reads": 0, "problems": 0, "chunks_ok": 0, "chunks_err": 0, "open_refused": 0})["files"] += 1
    return results


def _judge_slice(rep, cases, owners, dumps, stats, results, nviol):
    for (k, mode, batch), d in zip(owners, dumps):
        c = cases[k]
        try:
            probs = judge(c, d)
        except Exception as e:      # output the comparison cannot interpret is a violation of its own, with the case
            probs = [("uninterpretable", f"the driver's output could not be compared ({e!r}); first lines: {d.raw[:6]}")]
        fam = stats["families"].setdefault(c.family, {"files": 0, "reads": 0, "problems": 0, "chunks_ok": 0, "chunks_err": 0, "open_refused": 0})
        fam["reads"] += 1
        if not d.opened:
            fam["open_refused"] += 1
        for ch in d.chunks:
            fam["chunks_ok" if ch.end == "OK" else "chunks_err"] += 1
        rep.count((c.label, mode, batch, len(c.data)), nontrivial=any(col.defs for rg in c.spec.row_groups for col in rg.columns))
        results[(k, mode, batch)] = d
        if probs:
            fam["problems"] += 1
            nviol += 1
            if nviol <= 40:
                what, det = probs[0]
                rep.violation(f"[{c.label}] mode={mode} batch={batch} expect={c.expect}: {what}: {det}"
                              + (f" (+{len(probs) - 1} more)" if len(probs) > 1 else ""),
                              c.replay_obj(mode, batch), key=c.key)
    return nviol


# ----------------------------------------------------------------------------- corpus

def run_corpus(rep, stats):
    """Minimised reproducers first: fileinfra's entries that belong to this property, then corpus/C06/*.json."""
    shown = {}
    for cid in CORPUS_SHARED:
        f = vlib.VERIF / "corpus" / "file" / f"{cid}.json"
        if not f.exists():
            continue
        e = json.loads(f.read_text())
        shows, obs = filecase.replay_corpus(e)
        shown[cid] = bool(shows)
        rep.count(("corpus", cid))
        if shows:
            rep.violation(f"corpus/file/{cid}.json still shows: {e['title']}: {obs}", {"corpus": str(f), "entry": e}, key=cid)
    for f in sorted((vlib.VERIF / "corpus" / PID).glob("*.json")):
        e = json.loads(f.read_text())
        rc, obs = replay_obj(e, quiet=True)
        shown[f.stem] = bool(rc)
        rep.count(("corpus", f.stem))
        if rc:
            rep.violation(f"corpus/{PID}/{f.name} still shows: {e.get('title', '')}: {obs}", e, key=e.get("key"))
    stats["corpus"] = shown


def replay_obj(e, quiet=False):
    """Re-run a replay object (or corpus entry of this property) on the current tree.  Returns (1 if the problem
    shows else 0, observation)."""
    if "corpus" in e and "entry" in e:
        shows, obs = filecase.replay_corpus(e["entry"])
        return (1 if shows else 0), obs
    data = bytes.fromhex(e["file_hex"])
    truth = [[(d, r, [bytes.fromhex(v) for v in vals]) for (d, r, vals) in rg] for rg in e["truth"]]

    class L:
        pass
    leaves = []
    for (path, ptype, tl, md, mr) in e["leaves"]:
        l = L()
        l.ptype, l.type_length, l.max_def, l.max_rep, l.path = ptype, tl, md, mr, path.split(".")
        leaves.append(l)
    c = FileCase.__new__(FileCase)
    c.label, c.data, c.expect, c.bad, c.key = e.get("label", "?"), data, e["expect"], set(tuple(x) for x in e.get("bad", [])), e.get("key")
    c.truth, c.leaves, c.maxdef, c.family = truth, leaves, e["maxdef"], ""
    modes = [e["mode"]] if e.get("mode") else list(MODES)
    obs, rc = [], 0
    for mode in modes:
        d = dump_many([(data, mode, e.get("batch", 1 << 20) == 1 << 20, e.get("batch", 1 << 20), e["maxdef"])])[0]
        probs = judge(c, d)
        obs.append(f"{mode}: " + ("; ".join(f"{w}: {x}" for w, x in probs[:3]) if probs else
                                  ("as expected (" + ("open refused" if not d.opened else ", ".join(f"{ch.rg}/{ch.col}:{ch.end}" for ch in d.chunks)) + ")")))
        if probs:
            rc = 1
    return rc, " | ".join(obs)


# ----------------------------------------------------------------------------- model tie

CODEC_BY_NAME = pq_codecs.CODEC_IDS


def model_lines(case, limit_bytes=2500):
    """One runner line per column chunk of the file: what carquet's page loop sees, taken from the file by the
    independent reader (page headers, stored bodies) - not from the writer's data structures.
       chunk <ptype> <tlen> <maxdef> <maxrep> <codec> <num_values> <has_dict_off> <page>*
       page = <type>:<num_values|dict count>:<encoding>:<def_enc>:<rep_enc>:<uncompressed_size>:<stored body hex>:<uncompressed body hex or ->
    The uncompressed body is given for the codecs whose decompressor is external to carquet (GZIP, ZSTD: a Section
    variable of the model, instantiated by this oracle); SNAPPY / LZ4 bodies are decompressed by the extracted
    carquet model itself."""
    pf = pq.read_file(case.data, decode_values=False)
    lines = []
    for r, rg in enumerate(pf.chunks):
        for c, ch in enumerate(rg):
            if ch is None or ch.leaf is None:
                continue
            md = ch.meta
            codec = md.get("codec", 0)
            toks = ["chunk", str(pq.TYPE_ID[ch.leaf.ptype]),
                    str(ch.leaf.type_length), str(ch.leaf.max_def), str(ch.leaf.max_rep), str(codec), str(md.get("num_values", 0)),
                    "1" if md.get("dictionary_page_offset") is not None else "0"]
            size = 0
            for p in ch.pages:
                stored = case.data[p.body_offset:p.body_offset + p.compressed_size]
                size += len(stored) + p.uncompressed_size
                h = p.header
                sub = h.get("data_page_header") or h.get("dictionary_page_header") or h.get("data_page_header_v2") or {}
                f = (sub.get("num_values", 0), sub.get("encoding", 0), sub.get("definition_level_encoding", 0), sub.get("repetition_level_encoding", 0))
                unc = "-"
                if codec == 6:
                    try:
                        unc = "x" + pq_codecs.decompress("ZSTD", stored, p.uncompressed_size).hex()
                    except Exception:
                        unc = "!"
                elif codec == 2:
                    # what zlib's inflate(Z_FINISH) in gzip mode returns: the content of the FIRST member (it stops
                    # with Z_STREAM_END there), an error when that member is incomplete or exceeds the capacity
                    try:
                        import zlib
                        dz = zlib.decompressobj(31)
                        u = dz.decompress(stored)
                        unc = "x" + u.hex() if dz.eof and len(u) <= max(p.uncompressed_size, 0) else "!"
                    except Exception:
                        unc = "!"
                toks.append(":".join([str(h.get("type", 0)), str(f[0]), str(f[1]), str(f[2]), str(f[3]), str(p.uncompressed_size), "x" + stored.hex(), unc]))
            if size > limit_bytes:
                continue
            lines.append(((r, c), " ".join(toks)))
    return lines


def parse_model(out):
    """'OK defs=.. reps=.. vals=..' | 'ERR <code>' | 'FAULT <kind>' -> ('OK', defs, reps, [bytes]) | ('ERR', code) | ..."""
    t = out.split()
    if not t:
        return ("BAD", out)
    if t[0] == "OK":
        kv = dict(x.split("=", 1) for x in t[1:])
        lv = lambda s: [] if s == "-" else [int(x) for x in s.split(",")]
        vs = [] if kv["vals"] == "-" else [bytes.fromhex(x[1:]) for x in kv["vals"].split(",")]
        return ("OK", lv(kv["defs"]), lv(kv["reps"]), vs)
    return (t[0], " ".join(t[1:]))


def run_model_tie(rep, cases, results, rng, tier, stats):
    """Extracted ForeignModel vs carquet, chunk by chunk, on a sample of the files (small chunks only: the extracted
    numbers are inductive)."""
    try:
        runner = build_runner("foreign")
    except vlib.BuildError as e:
        rep.tie_broken("extraction / runner of the foreign engine does not build: " + str(e)[-600:])
        return
    budget = 20000 if tier == "thorough" else 4000
    pool = list(range(len(cases)))
    rng.shuffle(pool)
    # make sure every family is represented
    seen, order = {}, []
    for k in pool:
        seen.setdefault(cases[k].family, []).append(k)
    while any(seen.values()):
        for fam in list(seen):
            if seen[fam]:
                order.append(seen[fam].pop())
    lines, owners = [], []
    for k in order:
        if len(lines) >= budget:
            break
        try:
            ml = model_lines(cases[k])
        except Exception as e:
            continue
        for (rc, line) in ml:
            lines.append(line)
            owners.append((k, rc))
    t0 = time.time()
    outs, probs = run_sharded(runner, lines, timeout=1500)
    stats["model_seconds"] = round(time.time() - t0, 1)
    stats["model_chunks"] = len(lines)
    for pr in probs:
        rep.tie_broken(f"model runner died (rc={pr[1]}): {pr[2][-300:]}", pr[3])
    agree = 0
    kinds = {}
    for (k, (r, c)), line, o in zip(owners, lines, outs):
        case = cases[k]
        m = parse_model(o)
        kinds[m[0]] = kinds.get(m[0], 0) + 1
        rep.count(("model", case.label, r, c))
        d = results.get((k, "buffer", 1 << 20))
        if d is None or d.fault or not d.opened:
            continue
        ch = next((x for x in d.chunks if (x.rg, x.col) == (r, c)), None)
        if ch is None:
            continue
        if m[0] == "OK":
            same = ch.end == "OK" and (ch.defs, ch.reps, ch.values) == (m[1], m[2], m[3])
        elif m[0] == "ERR":
            same = ch.end != "OK"
        else:
            same = False
        if same:
            agree += 1
        else:
            rep.tie_broken(f"[{case.label}] rg {r} col {c}: ForeignModel.decode_chunk says {o[:200]} but carquet ends {ch.end} with "
                           f"defs {ch.defs[:10]} reps {ch.reps[:10]} values {[hx(v) for v in ch.values[:3]]}", line[:400])
    stats["model_agree"] = agree
    stats["model_outcomes"] = kinds


# ----------------------------------------------------------------------------- entry points

# ----------------------------------------------------------------------------- files beyond 2 GiB / 4 GiB (sparse)

SPARSE_BASES = [4, (1 << 31) + 64, (1 << 32) + 4]


def sparse_file(rng, path):
    """A reference file of three row groups whose data areas are placed by seeking: row group 0 at offset 4, row group
    1 just above 2 GiB, row group 2 and the footer just above 4 GiB.  Every 64-bit offset field of the footer
    (ColumnChunk.file_offset, data_page_offset, dictionary_page_offset, RowGroup.file_offset, and - pointing into the
    footer area, length 0 - index_page_offset, bloom_filter_offset, offset/column index offsets) then carries values
    above 2^31 and above 2^32.  The file is sparse: a few KiB are allocated.  Returns the FileSpec."""
    for _ in range(200):
        spec = pq.gen_spec(rng, dict_offset="present", optional_meta=True, long_form=False, max_rows=25,
                           encoding=rng.choice(["RLE_DICTIONARY", "PLAIN_DICTIONARY", None]))
        if len(spec.row_groups) == 3 and all(any(c.defs for c in rg.columns) for rg in spec.row_groups):
            break
    else:
        raise RuntimeError("sparse_file: no three-row-group spec drawn")
    # half of the dictionary chunks announce their dictionary page, half do not
    for rg in spec.row_groups:
        for c in rg.columns:
            c.dict_offset = rng.choice(["present", "absent"])
    data = pq.write_file(spec, rng)
    n = len(data)
    flen = int.from_bytes(data[n - 8:n - 4], "little")
    fs = n - 8 - flen
    ts, _ = pq.thrift_decode_struct(data, fs, n - 8)
    rgs = ts.get(4).items
    starts = [min(cc.get(2) for cc in rg.get(1).items) for rg in rgs] + [fs]
    shift = [SPARSE_BASES[r] - starts[r] for r in range(3)]
    tail = SPARSE_BASES[2] + (starts[3] - starts[2])             # where the footer goes
    for r, rg in enumerate(rgs):
        if rg.get(5) is not None:
            rg.set(5, pq.CT_I64, rg.get(5) + shift[r])
        for cc in rg.get(1).items:
            cc.set(2, pq.CT_I64, cc.get(2) + shift[r])
            cc.set(4, pq.CT_I64, tail)
            cc.set(5, pq.CT_I32, 0)
            cc.set(6, pq.CT_I64, tail)
            cc.set(7, pq.CT_I32, 0)
            md = cc.get(3)
            md.set(9, pq.CT_I64, md.get(9) + shift[r])
            if md.get(11) is not None:
                md.set(11, pq.CT_I64, md.get(11) + shift[r])
            md.set(10, pq.CT_I64, tail)
            md.set(14, pq.CT_I64, tail)
            md.set(15, pq.CT_I32, 0)
    footer = pq.thrift_encode_struct(ts)
    with open(path, "wb") as f:
        f.write(pq.MAGIC)
        for r in range(3):
            f.seek(SPARSE_BASES[r])
            f.write(data[starts[r]:starts[r + 1]])
        f.seek(tail)
        f.write(footer + len(footer).to_bytes(4, "little") + pq.MAGIC)
    spec.features["sparse_offsets"] = [SPARSE_BASES[1], SPARSE_BASES[2], tail]
    return spec


def run_sparse(rep, tier, stats, seed=None):
    """Sparse files above 4 GiB through the stdio and mmap readers (the buffer mode would need the memory)."""
    import os
    t0 = time.time()
    seed = vlib.SEED if seed is None else seed
    rng = random.Random(seed * 7919 + 606)          # its own stream: a replay rebuilds exactly the same files
    nfiles = 4 if tier == "thorough" else 1
    bad = 0
    for i in range(nfiles):
        path = filecase.tmppath(".sparse.parquet")
        try:
            spec = sparse_file(rng, path)
            st = os.stat(path)
            case = FileCase.__new__(FileCase)
            case.label, case.spec, case.data, case.expect, case.bad, case.key, case.family = f"sparse/{i}", spec, b"", "values", set(), None, "sparse_4gib"
            case.truth, case.leaves = spec.truth(), spec.leaves()
            case.maxdef = [l.max_def for l in case.leaves]
            scripts = []
            for mode in ("stdio", "mmap"):
                sc = filecase.Script()
                sc.open(mode, True, path)
                sc.meta().dump(1 << 20, maxdef=case.maxdef).close()
                scripts.append(sc)
            outs = filecase.run_scripts(scripts, case_timeout=CASE_TIMEOUT)
            for mode, o in zip(("stdio", "mmap"), outs):
                d = safe_parse(o, case.maxdef)
                probs = judge(case, d)
                rep.count((case.label, mode, st.st_size), nontrivial=True)
                if probs:
                    bad += 1
                    ro = {"label": case.label, "expect": "values", "mode": mode, "sparse": True, "seed": seed, "tier": tier,
                          "file_size": st.st_size, "allocated_bytes": st.st_blocks * 512, "features": {k: str(v) for k, v in spec.features.items()},
                          "note": "the file is rebuilt from the seed by replay (it is sparse, > 4 GiB apparent size)"}
                    rep.violation(f"[{case.label}] sparse file of {st.st_size} bytes ({st.st_blocks * 512} allocated) mode={mode}: {probs[0][0]}: {probs[0][1]}", ro)
            stats.setdefault("sparse", []).append({"size": st.st_size, "allocated": st.st_blocks * 512, "offsets": spec.features["sparse_offsets"]})
        finally:
            try:
                os.unlink(path)
            except OSError:
                pass
    stats["sparse_seconds"] = round(time.time() - t0, 1)
    stats["families"]["sparse_4gib"] = {"files": nfiles, "reads": 2 * nfiles, "problems": bad}


# ----------------------------------------------------------------------------- read histories (skip, reads without level buffers)

def run_histories(rep, cases, rng, tier, stats):
    """The column reader of a nullable / repeated foreign column driven by another history than "read everything with
    level buffers": skip k entries then read the rest, or read k entries without level buffers then read the rest.
    What is delivered afterwards must be the truth from entry k on (values from the first non-null at or after k)."""
    t0 = time.time()
    budget = 1500 if tier == "thorough" else 300
    pool = [k for k, c in enumerate(cases) if c.expect == "values" and c.data and len(c.data) < 200000]
    rng.shuffle(pool)
    scripts, owners = [], []
    for k in pool:
        if len(scripts) >= budget:
            break
        c = cases[k]
        cand = [(r, ci) for r, rg in enumerate(c.truth) for ci, (defs, reps, vals) in enumerate(rg)
                if c.leaves[ci].max_def > 0 and len(defs) >= 2 and any(d < c.leaves[ci].max_def for d in defs)]
        if not cand:
            continue
        r, ci = rng.choice(cand)
        defs = c.truth[r][ci][0]
        nulls = [i for i, d in enumerate(defs) if d < c.leaves[ci].max_def]
        # stop inside the chunk, after at least one null when possible
        lo = min(nulls[0] + 1, len(defs) - 1)
        kk = rng.randrange(lo, len(defs)) if lo < len(defs) else 1
        kind = rng.choice(["skip", "nolevels"])
        mode = rng.choice(MODES)
        sc = filecase.Script()
        tmp = None
        if mode == "buffer":
            sc.load_image(c.data)
            sc.open("buffer", True)
        else:
            tmp = filecase.tmppath()
            Path(tmp).write_bytes(c.data)
            sc.open(mode, True, tmp)
        sc.raw(f"CR_OPEN 0 {r} {ci} maxdef={c.leaves[ci].max_def}")
        sc.raw(f"CR_SKIP 0 {kk}" if kind == "skip" else f"CR_READ 0 {kk} nodef norep")
        sc.raw(f"CR_READ 0 {len(defs) - kk + 1}")
        sc.meta().close()
        scripts.append(sc)
        owners.append((k, r, ci, kk, kind, mode, tmp))
    outs = filecase.run_scripts(scripts, case_timeout=CASE_TIMEOUT) if scripts else []
    import os
    nbad = 0
    for (k, r, ci, kk, kind, mode, tmp), o in zip(owners, outs):
        if tmp:
            try:
                os.unlink(tmp)
            except OSError:
                pass
        c = cases[k]
        defs, reps, vals = c.truth[r][ci]
        md = c.leaves[ci].max_def
        try:
            h = filecase.parse_history(o, ci, 2)
        except Exception as e:
            h = [None, None, {"open": "?", "fault": {"summary": "unparsable: %r" % e}}]
        rep.count(("history", c.label, r, ci, kk, kind, mode))
        first, second = (h[0], h[1]) if len(h) >= 3 else (None, None)
        fault = h[-1].get("fault") if isinstance(h[-1], dict) else None
        got_first = first if kind == "skip" else (first.ret if isinstance(first, filecase.ReadPart) else None)
        nn_before = sum(1 for d in defs[:kk] if d == md)
        want = (defs[kk:], reps[kk:], vals[nn_before:])
        ok = (not fault and got_first == kk and isinstance(second, filecase.ReadPart)
              and (second.defs, second.reps, second.values) == want)
        if not ok:
            nbad += 1
            what = (f"[{c.label}] mode={mode} rg {r} col {ci} ({c.leaves[ci].ptype} maxdef {md} maxrep {c.leaves[ci].max_rep}): "
                    f"{'skip' if kind == 'skip' else 'read without level buffers'} of {kk} entries returned {got_first}, the following read "
                    + (f"delivered defs {second.defs[:10]} values {[hx(v) for v in second.values[:3]]}; stored from entry {kk}: defs {want[0][:10]} values {[hx(v) for v in want[2][:3]]}"
                       if isinstance(second, filecase.ReadPart) else f"did not complete ({fault})"))
            ro = c.replay_obj(mode, 1 << 20)
            ro["history"] = {"rg": r, "col": ci, "k": kk, "kind": kind}
            if nbad <= 10:
                rep.violation(what, ro, key=c.key)
    stats["families"]["histories"] = {"files": len(scripts), "reads": len(scripts), "problems": nbad}
    stats["history_seconds"] = round(time.time() - t0, 1)


def replay_history(e):
    """Re-run the history recorded in a replay object."""
    h = e["history"]
    data = bytes.fromhex(e["file_hex"])
    truth = e["truth"][h["rg"]][h["col"]]
    defs, reps, vals = truth[0], truth[1], [bytes.fromhex(v) for v in truth[2]]
    md = e["maxdef"][h["col"]]
    ops = [("skip", h["k"])] if h["kind"] == "skip" else [("read", h["k"], "nodef", "norep")]
    ops.append(("read", len(defs) - h["k"] + 1))
    res = filecase.column_history(data, e["mode"], True, h["rg"], h["col"], ops, maxdef=md)
    second = res[1] if len(res) >= 3 else None
    nn = sum(1 for d in defs[:h["k"]] if d == md)
    want = (defs[h["k"]:], reps[h["k"]:], vals[nn:])
    ok = isinstance(second, filecase.ReadPart) and (second.defs, second.reps, second.values) == want and not res[-1].get("fault")
    return (0 if ok else 1), ("history as expected" if ok else f"after {h['kind']} {h['k']}: got {second}, stored {want[0][:10]} / {[hx(v) for v in want[2][:3]]}")


def spec_page_independent(rep):
    """File/SpecPage.v must not (transitively) import any *Model.v (its name does not end in Spec.v, so
    vlib.spec_independence does not look at it)."""
    import re as _re
    p = vlib.sh(["coqdep", "-Q", "theories", "Carquet"] + [q.relative_to(vlib.COQ).as_posix() for q in (vlib.COQ / "theories").rglob("*.v")], cwd=vlib.COQ)
    deps = {}
    for line in p.stdout.splitlines():
        if ":" not in line:
            continue
        lhs, rhs = line.split(":", 1)
        tgt = [t for t in lhs.split() if t.endswith(".vo")]
        if tgt:
            deps[tgt[0]] = [d for d in rhs.split() if d.endswith(".vo")]
    seen, todo = set(), ["theories/File/SpecPage.vo"]
    while todo:
        t = todo.pop()
        for d in deps.get(t, []):
            if d not in seen:
                seen.add(d)
                todo.append(d)
    bad = sorted(d for d in seen if d.endswith("Model.vo") or d.endswith("Proofs.vo"))
    rep.cov["spec_page_imports"] = sorted(seen)
    if bad or "theories/File/SpecPage.vo" not in deps:
        rep.tie_broken("File/SpecPage.v is no longer independent of the models: it imports " + ", ".join(bad or ["(not found by coqdep)"]))


def run(tier):
    rep = Report(PID, tier)
    rng = random.Random(vlib.SEED * 7919 + 6)
    prelude(rep, PID)
    rep.cov["trusted_base"] = vlib.TRUSTED_BASE_COMMON + [
        "tools/pq.py + tools/pq_codecs.py: the independent reference writer (transcribed from the format documents; cross-checked by its own reader and by `python3 tools/pq.py --selftest`) and its ground truth spec.truth() are the property's oracle",
        "system libsnappy / liblz4 / libzstd / zlib produce the compressed page bodies of the reference files",
        "harness/h_file.c + tools/filecase.py observe carquet through its public API (carquet_reader_open*, carquet_reader_get_column, carquet_column_read_batch)",
        "zlib and libzstd decompressors are Section variables of ForeignProofs (gz_d, zs_d) with their assumed inverse property as a section hypothesis; GZIP/ZSTD pages are covered by the differential run only",
        "modelled, not verified: src/reader/page_reader.c (decompress_page, bit_width_for_max, decode_levels_rle, carquet_read_dictionary_page, carquet_read_data_page_v1, load_next_page_* page-type and dictionary decisions), carquet_rle_decode_levels of src/encoding/rle.c; the file-level plumbing around them (offsets, fseek/fread/mmap, Thrift page-header parsing) is exercised by the differential run only",
    ]
    stats = {"families": {}}
    t0 = time.time()
    spec_page_independent(rep)
    run_corpus(rep, stats)
    cases = gen_cases(tier, rng)
    stats["generate_seconds"] = round(time.time() - t0, 1)
    stats["files"] = len(cases)
    stats["file_bytes"] = sum(len(c.data) for c in cases)
    results = run_files(rep, cases, rng, tier, stats)
    if not stats.get("stopped_early"):
        run_histories(rep, cases, rng, tier, stats)
        run_sparse(rep, tier, stats)
        run_model_tie(rep, cases, results, rng, tier, stats)
    rep.cov["rule"] = ("files of the reference writer: feature grid {flat,nested} x 5 codecs x 3 encodings x {default, random, BIT_PACKED-level} runs x 4 "
                       "metadata styles x dictionary offset present/absent; random specs (all flags random, zero-length runs, page splits inside records); "
                       "directed one-leaf chains with max_def 0..9 / max_rep 0..3 and dictionaries of 1..1025 entries (index widths 0..11, widened width byte); "
                       "one-unclaimed-feature files (other encodings by name and by every other integer sampled, DATA_PAGE_V2, other page types, codec ids "
                       "3,4,8,... and extremes); LZ4 id 5 bare/Hadoop-framed; dictionary-encoded BOOLEAN.  Each file x {buffer, stdio, mmap} x read_batch(all) "
                       "(+ a sample with read_batch(1|3|7), checksum verification off).  non-trivial = the file holds at least one level entry; distinct by "
                       "(label, mode, batch, file length).  Model tie: extracted ForeignModel.decode_chunk on the page headers/bodies of a sample of the same files.")
    rep.cov["input_distribution"] = stats
    for c in cases[:3] + cases[-2:]:
        rep.sample({"label": c.label, "expect": c.expect, "file_bytes": len(c.data), "features": {k: str(v) for k, v in c.spec.features.items()}})
    return rep.finish()


def replay(path):
    j = json.loads(Path(path).read_text())
    e = j.get("replay", j)
    if "no_longer_checks" in j:
        print(json.dumps(j, indent=1)[:4000])
        return 1
    vlib.build_repo()
    if e.get("sparse"):
        class _R:       # minimal stand-in for Report: collects violations
            def __init__(self):
                self.v = []

            def count(self, *a, **k):
                pass

            def violation(self, what, ro, key=None):
                self.v.append(what)
        r = _R()
        print("rebuilding the sparse file(s) of seed", e.get("seed"), "tier", e.get("tier"))
        run_sparse(r, e.get("tier", "quick"), {"families": {}}, seed=e.get("seed", vlib.SEED))
        for w in r.v:
            print(w)
        if not r.v:
            print("observed on", vlib.REPO, ": as expected in stdio and mmap mode")
        return 1 if r.v else 0
    if e.get("history"):
        rc, obs = replay_history(e)
        print("case:", e.get("label"), "history:", e["history"])
        print("observed on", vlib.REPO, ":", obs)
        return rc
    rc, obs = replay_obj(e)
    print("case:", e.get("label", e.get("corpus", "?")), "expect:", e.get("expect"))
    print("observed on", vlib.REPO, ":", obs)
    return rc
