"""C08 - component decoders are safe on arbitrary bytes and respect capacities.

Deciding part (on the implementation alone): harness/h_dec.c calls every decoding entry point below the file
layer with an EXACT-SIZE heap input and an EXACT-SIZE output of the declared capacity under ASan+UBSan, one
case at a time in a supervised worker (CPU-time limit, live-heap accounting around the call, LeakSanitizer at
worker exit).  Oracle: no FAULT, no TIMEOUT, no leak, reported size <= capacity / consumed <= input length,
every byte-array view handed back lies inside the buffer it must point into.

Inputs per entry point: (a) every truncation / bit flip / deletion / insertion / field overwrite of small valid
encodings, (b) grammar-based near-valid streams aimed at the length fields, (c) raw random bytes; declared
length, width (0..255), count and capacity are drawn independently of the content.

Proof part: coq/theories/Props/Properties_C08.v (models of the entry points with checked reads and explicit
capacities: never Fault, size <= capacity, fuel linear in input + count).  Model tie: the same malformed inputs
through the extracted models of the enc / enc2 / comp / thrift / dec runners; result class and reported size
must agree with the implementation.

UBSan reports that are not memory errors (shift by >= width at bit widths > 32, ...) are counted in
coverage.ub_reports and re-run in an ASan-only build: only if that build faults too, or the size oracle
fails, is the case a violation (DESIGN.md section 10).
"""
import os, sys, json, random, struct, zlib, hashlib, time, subprocess, re
from pathlib import Path
import vlib
from vlib import Report, prelude, build_driver, build_runner, run_sharded, hexs, log

PID = "C08"
# the arena entry points parquet_types.c allocates through are wrapped in harness/h_dec.c (exact arena, second pass)
WRAP = ["-Wl,--wrap=carquet_arena_" + f for f in ("alloc", "calloc", "strdup", "strndup", "memdup")]
HERE = Path(__file__).resolve().parent
CORPUS = vlib.VERIF / "corpus" / PID

I31, I32, I63, I64 = 1 << 31, 1 << 32, 1 << 63, 1 << 64

# ------------------------------------------------------------------------------------------------ cases

class Case:
    __slots__ = ("op", "p", "count", "cap", "data", "data2", "tag")

    def __init__(self, op, p, count, cap, data, data2=None, tag=""):
        self.op, self.p, self.count, self.cap, self.data, self.data2, self.tag = op, p, count, cap, data, data2, tag

    def line(self):
        d = "null" if self.data is None else hexs(self.data)
        s = f"{self.op} {self.p} {self.count} {'-' if self.cap is None else self.cap} {d}"
        if self.data2 is not None:
            s += " " + hexs(self.data2)
        return s


def parse_line(line):
    t = line.split()
    un = lambda h: None if h == "null" else (b"" if h == "-" else bytes.fromhex(h))
    return Case(t[0], int(t[1]), int(t[2]), None if t[3] == "-" else int(t[3]), un(t[4]),
                un(t[5]) if len(t) > 5 else None)


def rb(rng, n):
    return bytes(rng.getrandbits(8) for _ in range(n))


def uleb(x):
    out = bytearray()
    while True:
        b = x & 0x7F
        x >>= 7
        if x:
            out.append(b | 0x80)
        else:
            out.append(b)
            return bytes(out)


def zz64(x):
    """zig-zag of a signed value as a 64-bit code"""
    return ((x << 1) ^ (x >> 63)) & (I64 - 1)


INTERESTING_BYTES = [0x00, 0x01, 0x7F, 0x80, 0x81, 0xFE, 0xFF, 0x0F, 0x10, 0x19, 0x1C, 0x3F, 0x40]
INTERESTING_VARINTS = [0, 1, 127, 128, 255, 256, 16383, 16384, I31 - 1, I31, I31 + 1, I32 - 5, I32 - 4, I32 - 1, I32,
                       I32 + 1, I63 - 1, I63, I64 - 1]
WIDTHS_ALL = list(range(0, 34)) + [40, 48, 56, 63, 64, 65, 72, 100, 127, 128, 129, 200, 254, 255]
HUGE_COUNTS = [I31 - 1, I31, I32 - 1, I32, 1 << 40, (1 << 62) - 1, 1 << 62, (1 << 62) + 1, (1 << 61), I64 // 12 + 1,
               I64 // 12, (1 << 63) - 1, -1, -2, -(1 << 31), -(1 << 63)]


class Quota:
    """keeps the three input streams of a generator in proportion by CASE COUNT (a mutated base yields hundreds
    of cases, a grammar or random draw one): returns the draw that selects the branch of the stream that is
    furthest behind its share"""
    TARGET = {"near": 0.55, "grammar": 0.30, "random": 0.15}

    def __init__(self, rng):
        self.rng, self.seen, self.n = rng, 0, {"near": 0, "grammar": 0, "random": 0}

    @staticmethod
    def cls(tag):
        if tag.startswith("grammar") or tag in ("nested", "generic"):
            return "grammar"
        return "random" if tag == "random" else "near"

    def draw(self, cases):
        for c in cases[self.seen:]:
            self.n[self.cls(c.tag)] += 1
        self.seen = len(cases)
        tot = max(1, sum(self.n.values()))
        k = min(self.n, key=lambda x: self.n[x] / tot - self.TARGET[x])
        return {"near": 0.0, "grammar": self.rng.choice([0.65, 0.75, 0.84]), "random": 0.95}[k]


def mutations(rng, s, budget, fields=True):
    """Malformed neighbours of a valid encoding: exhaustive at every position while the budget allows,
    sampled beyond.  Yields byte strings (the unchanged input is not included)."""
    n = len(s)
    out = []
    trunc = [s[:k] for k in range(n)]
    flips = []
    for k in range(n):
        for b in range(8):
            m = bytearray(s); m[k] ^= 1 << b
            flips.append(bytes(m))
    dels = [s[:k] + s[k + 1:] for k in range(n)]
    ins = []
    for k in range(n + 1):
        for v in (0x00, 0x80, 0xFF, 0x01):
            ins.append(s[:k] + bytes([v]) + s[k:])
    subs = []
    for k in range(n):
        for v in INTERESTING_BYTES:
            if s[k] != v:
                m = bytearray(s); m[k] = v
                subs.append(bytes(m))
    fld = []
    if fields:
        for k in range(n):
            for v in (I31 - 1, I31, I32 - 1, I32 - 4, 0):
                m = bytearray(s); m[k:k + 4] = struct.pack("<I", v)      # a 4-byte length field written here
                fld.append(bytes(m[:max(n, k + 4)]))
            for v in (I32 - 1, I31, I63, I64 - 1):
                fld.append(s[:k] + uleb(v) + s[k + 1:])                  # a varint blown up here
    ext = [s + rb(rng, rng.randrange(1, 9)) for _ in range(3)] + [s + s, s + b"\x00" * 8, s + b"\xff" * 8]
    groups = [trunc, flips, dels, ins, subs, fld, ext]
    total = sum(len(g) for g in groups)
    if total <= budget:
        for g in groups:
            out += g
    else:
        # keep every truncation, sample the rest proportionally
        out += trunc if len(trunc) <= budget // 3 else rng.sample(trunc, budget // 3)
        rest = [m for g in groups[1:] for m in g]
        out += rng.sample(rest, min(len(rest), max(0, budget - len(out))))
    seen, res = {s}, []
    for m in out:
        if m not in seen:
            seen.add(m); res.append(m)
    return res


# ------------------------------------------------------------------------------------------------ RLE hybrid

def pack_group(w, vals):
    g = 0
    for i, v in enumerate(vals):
        g |= (v & ((1 << w) - 1)) << (i * w)
    return g.to_bytes(w, "little") if w else b""


def rle_runs(rng, w, nruns=None):
    """a valid hybrid stream at width w (0..32) -> (bytes, number of values)"""
    out = bytearray()
    total = 0
    vb = (w + 7) // 8
    for _ in range(nruns if nruns is not None else rng.randrange(1, 5)):
        if rng.random() < 0.5:
            n = rng.choice([0, 1, 2, 7, 8, 9, 20, 100, rng.randrange(0, 40)])
            v = rng.getrandbits(w) if w else 0
            out += uleb(n << 1) + v.to_bytes(vb, "little")
            total += n
        else:
            g = rng.choice([0, 1, 1, 2, 3])
            out += uleb((g << 1) | 1)
            for _ in range(g):
                out += pack_group(w, [rng.getrandbits(w) if w else 0 for _ in range(8)])
            total += 8 * g
    return bytes(out), total


def rle_yield(data, w, limit):
    """upper bound on the values a hybrid stream can deliver at width w, whatever way the decoder walks it
    (every offset is tried as a run header; each header is read at a distinct offset, so the sum bounds any
    walk, including the level decoder's re-synchronisation after a truncated group).  Saturates at limit+1.
    Used only to decide whether a huge count may be paired with this input: the output buffer of such a
    count cannot be backed in full."""
    n, tot = len(data), 0
    for i in range(n):
        h, sh, pos = 0, 0, i
        while pos < n and sh < 35:
            b = data[pos]; pos += 1
            h |= (b & 0x7F) << sh
            sh += 7
            if not b & 0x80:
                break
        h &= I32 - 1
        if h & 1 == 0:
            tot += h >> 1
        elif w == 0:
            tot += 8 * (h >> 1)
        else:
            tot += 8 * min(h >> 1, (n - pos) // w + 1)
        if tot > limit:
            return limit + 1
    return tot


def counts_for(rng, exact, huge_ok=True, small_only=False):
    c = [0, 1, exact, exact - 1, exact + 1, 7, 8, 9, rng.randrange(0, 70)]
    if not small_only:
        c += [1000, 65536]
    c = [x for x in c if x >= 0]
    r = rng.choice(c)
    if huge_ok and rng.random() < 0.12:
        r = rng.choice(HUGE_COUNTS)
    return r


def gen_rle(rng, n, ops=("rle_all", "rle_stream", "rle_levels", "rle_levels_pref")):
    cases = []
    quota = Quota(rng)

    def add(op, w, count, data, tag):
        dd = data or b""
        if count > 65536 and rle_yield(dd[4:] if op == "rle_levels_pref" else dd, max(0, min(w, 255)), 1 << 20) > (1 << 20):
            count = 65536
        cases.append(Case(op, w, count, None, data, tag=tag))

    def prefixed(rng, stream, how=None):
        L = len(stream)
        how = how or rng.choice(["exact", "exact", "short", "long", "wrap", "big", "zero"])
        v = {"exact": L, "short": max(0, L - rng.randrange(1, 4)), "long": L + rng.randrange(1, 6),
             "wrap": rng.choice([I32 - 4, I32 - 3, I32 - 2, I32 - 1, I32 - 5]),
             "big": rng.choice([I31 - 1, I31, I31 + 1, 1 << 24, 65536]), "zero": 0}[how]
        tail = rb(rng, rng.choice([0, 0, 1, 5]))
        return struct.pack("<I", v & (I32 - 1)) + stream + tail

    while len(cases) < n:
        op = rng.choice(ops)
        w = rng.choice([0, 1, 1, 2, 3, 4, 5, 7, 8, 9, 12, 16, 17, 24, 31, 32])
        base, exact = rle_runs(rng, w)
        kind = quota.draw(cases)
        if kind < 0.55:
            # (a) mutations of a valid stream; width usually the right one
            for m in mutations(rng, base, 60 if len(base) > 12 else 400):
                ww = w if rng.random() < 0.8 else rng.choice(WIDTHS_ALL)
                d = prefixed(rng, m) if op == "rle_levels_pref" else m
                add(op, ww, counts_for(rng, exact), d, "mut")
            d = prefixed(rng, base, "exact") if op == "rle_levels_pref" else base
            for c in (exact, exact - 1, exact + 1, 0, 1):
                if c >= 0:
                    add(op, w, c, d, "valid")
            if op == "rle_levels_pref":
                for how in ("short", "long", "wrap", "big", "zero"):
                    add(op, w, counts_for(rng, exact), prefixed(rng, base, how), "prefix-" + how)
                for k in range(0, 5):
                    add(op, w, exact, prefixed(rng, base, "exact")[:k], "prefix-trunc")
        elif kind < 0.8:
            # (b) grammar: headers with extreme run lengths / group counts, truncated varints, widths at the edges
            ww = rng.choice(WIDTHS_ALL)
            parts = bytearray()
            for _ in range(rng.randrange(1, 4)):
                h = rng.choice(INTERESTING_VARINTS + [2, 3, 16, 17, (I32 - 1) & ~1, I32 - 1, (1 << 28) | 1, 1 << 28])
                hv = uleb(h)
                if rng.random() < 0.2:
                    hv = hv[:-1] + bytes([hv[-1] | 0x80])                     # continuation bit left set
                if rng.random() < 0.1:
                    hv = b"\x80" * rng.randrange(1, 7) + bytes([rng.choice([0, 1, 0x7F])])
                parts += hv + rb(rng, rng.choice([0, 1, (ww + 7) // 8, ww % 40, max(0, (ww + 7) // 8 - 1), 8]))
            d = bytes(parts)
            d = prefixed(rng, d) if op == "rle_levels_pref" else d
            add(op, ww, counts_for(rng, rng.randrange(0, 40)), d, "grammar")
        else:
            # (c) raw random bytes, everything independent
            d = rb(rng, rng.choice([0, 1, 2, 3, 4, 5, 8, 16, 33, rng.randrange(0, 80)]))
            if op == "rle_levels_pref" and rng.random() < 0.5:
                d = prefixed(rng, d)
            add(op, rng.choice(WIDTHS_ALL), counts_for(rng, rng.randrange(0, 64)),
                None if (not d and rng.random() < 0.3) else d, "random")
    return cases[:n]


# ------------------------------------------------------------------------------------------------ PLAIN / BSS

PLAIN_ES = {"bool": None, "i32": 4, "i64": 8, "i96": 12, "f32": 4, "f64": 8}


def gen_plain(rng, n):
    cases = []
    quota = Quota(rng)
    while len(cases) < n:
        t = rng.choice(["bool", "i32", "i64", "i96", "f32", "f64", "ba", "flba", "disp"])
        exact = rng.choice([0, 1, 2, 3, 7, 8, 9, 17, rng.randrange(0, 30)])
        p = 0
        if t == "bool":
            base = rb(rng, (exact + 7) // 8)
        elif t in PLAIN_ES:
            base = rb(rng, exact * PLAIN_ES[t])
        elif t == "flba":
            p = rng.choice([1, 2, 3, 16, rng.randrange(1, 20)])
            base = rb(rng, exact * p)
            if rng.random() < 0.25:
                p = rng.choice([0, -1, -(1 << 31), I31 - 1, 1 << 30, 65536, p + 1, max(1, p - 1)])
        elif t == "disp":
            p = rng.choice([0, 1, 2, 3, 4, 5, 6, 7, 8, -1, 100, 255])
            base = rb(rng, rng.randrange(0, 50))
            if p == 6:
                base = b"".join(struct.pack("<I", k) + rb(rng, k) for k in [rng.randrange(0, 6) for _ in range(exact)])
        else:  # ba
            lens = [rng.choice([0, 1, 2, 5, rng.randrange(0, 12)]) for _ in range(exact)]
            base = b"".join(struct.pack("<I", k) + rb(rng, k) for k in lens)
        kind = quota.draw(cases)
        if kind < 0.5:
            muts = mutations(rng, base, 120, fields=(t in ("ba", "disp")))
            for m in muts:
                cases.append(Case("plain_" + t, p, counts_for(rng, exact), None, m, tag="mut"))
            for c in (exact, exact + 1, max(0, exact - 1)):
                cases.append(Case("plain_" + t, p, c, None, base, tag="valid"))
        elif kind < 0.8:
            # grammar: byte-array lengths at the sign / size boundaries; counts whose byte size wraps
            if t in ("ba", "disp"):
                d = bytearray()
                for _ in range(rng.randrange(1, 4)):
                    L = rng.choice([0, 1, 4, I31 - 1, I31, I32 - 1, I32 - 4, I32 - 5, 0x7FFFFFFB, 0x7FFFFFFC, 5, 6])
                    d += struct.pack("<I", L) + rb(rng, rng.choice([0, 1, 4, 5]))
                cases.append(Case("plain_" + t, p if t == "disp" else 0, counts_for(rng, 3), None, bytes(d), tag="grammar"))
            else:
                cases.append(Case("plain_" + t, p, rng.choice(HUGE_COUNTS), None, base, tag="grammar-count"))
        else:
            d = rb(rng, rng.randrange(0, 60))
            cases.append(Case("plain_" + t, p, counts_for(rng, rng.randrange(0, 20)), None,
                              None if (not d and rng.random() < 0.3) else d, tag="random"))
    return cases[:n]


def gen_bss(rng, n):
    cases = []
    quota = Quota(rng)
    while len(cases) < n:
        op = rng.choice(["bss_f32", "bss_f64", "bss_flba"])
        k = 4 if op == "bss_f32" else 8 if op == "bss_f64" else rng.choice([1, 2, 3, 5, 16, rng.randrange(1, 24)])
        exact = rng.choice([0, 1, 2, 7, 8, 9, 15, 16, 17, 31, 32, 33, 63, 64, 65, rng.randrange(0, 80)])
        base = rb(rng, exact * k)
        p = k if op == "bss_flba" else 0
        r = quota.draw(cases)
        if r < 0.5:
            # declared length around count * width; count around length / width
            for L in {len(base), max(0, len(base) - 1), len(base) + 1, max(0, len(base) - k), 0, rng.randrange(0, len(base) + 1)}:
                d = (base + rb(rng, 8))[:L]
                for c in {exact, exact + 1, max(0, exact - 1), 0}:
                    cases.append(Case(op, p, c, None, d, tag="lengths"))
        elif r < 0.8:
            pp = p
            if op == "bss_flba" and rng.random() < 0.5:
                pp = rng.choice([0, -1, -(1 << 31), I31 - 1, 1 << 30, 65536, k + 1])
            cases.append(Case(op, pp, rng.choice(HUGE_COUNTS + [I64 // 4, I64 // 8, I64 // 4 + 1, I64 // 8 + 1, I64 // 16 + 1]),
                              None, base, tag="grammar-count"))
        else:
            d = rb(rng, rng.randrange(0, 100))
            cases.append(Case(op, p, counts_for(rng, rng.randrange(0, 30)), None, None if (not d and rng.random() < 0.3) else d,
                              tag="random"))
    return cases[:n]


# ------------------------------------------------------------------------------------------------ DELTA family

def bitpack(vals, w):
    g = 0
    for i, v in enumerate(vals):
        g |= (v & ((1 << w) - 1)) << (i * w)
    return g.to_bytes((len(vals) * w + 7) // 8, "little")


def delta_enc(vals, block=128, nmini=4, total=None, widths_override=None):
    """DELTA_BINARY_PACKED of signed 64-bit values in the geometry given (carquet's decoder accepts
    block <= 128, 1..4 mini-blocks, mini-block size <= 32)"""
    out = bytearray(uleb(block) + uleb(nmini) + uleb(len(vals) if total is None else total))
    out += uleb(zz64(vals[0] if vals else 0))
    per = max(1, block // nmini)
    deltas = [(b - a) for a, b in zip(vals, vals[1:])]
    for s in range(0, len(deltas), per * nmini):
        blk = deltas[s:s + per * nmini]
        md = min(blk)
        out += uleb(zz64(md))
        widths, body = [], bytearray()
        for m in range(nmini):
            part = [d - md for d in blk[m * per:(m + 1) * per]]
            if not part:
                widths.append(0)
                continue
            w = max(x.bit_length() for x in part)
            widths.append(w)
            body += bitpack(part + [0] * (per - len(part)), w)
        if widths_override:
            widths = widths_override(widths)
        out += bytes(widths) + body
    return bytes(out)


def rand_ints(rng, n, bits):
    style = rng.random()
    if style < 0.3:
        base, step = rng.randrange(-1000, 1000), rng.randrange(-5, 6)
        return [base + i * step for i in range(n)]
    if style < 0.6:
        return [rng.randrange(-(1 << 10), 1 << 10) for _ in range(n)]
    lim = 1 << (bits - 2)
    return [rng.randrange(-lim, lim) for _ in range(n)]


GEOMS = [(128, 4), (128, 4), (128, 4), (64, 2), (32, 1), (8, 1), (16, 2), (4, 4), (12, 4), (24, 3), (128, 1), (1, 1), (3, 4), (100, 4)]


def delta_grammar(rng):
    """near-valid header + block aimed at the validated fields and the width bytes"""
    block = rng.choice([0, 1, 4, 8, 127, 128, 129, 256, I31 - 1, I31, I32 - 1, I32, I32 + 128, I64 - 1])
    nmini = rng.choice([0, 1, 2, 3, 4, 5, 8, 255, I31, I32 + 4, I64 - 1])
    total = rng.choice(INTERESTING_VARINTS + [2, 5, 129, 1000])
    if rng.random() < 0.7:
        block, nmini = rng.choice(GEOMS)
    out = bytearray(uleb(block) + uleb(nmini) + uleb(total) + uleb(rng.choice(INTERESTING_VARINTS)))
    for _ in range(rng.randrange(0, 3)):
        out += uleb(rng.choice(INTERESTING_VARINTS))
        out += bytes(rng.choice([0, 1, 7, 8, 9, 31, 32, 33, 63, 64, 65, 128, 255]) for _ in range(rng.choice([0, 1, max(0, min(nmini, 4)), 4])))
        out += rb(rng, rng.choice([0, 1, 4, 16, 32, 33, 64]))
    return bytes(out)


def gen_delta(rng, n):
    cases = []
    quota = Quota(rng)
    while len(cases) < n:
        op = rng.choice(["delta_i32", "delta_i64", "delta_i32", "delta_i64", "delta_len", "delta_str"])
        r = quota.draw(cases)
        if op in ("delta_i32", "delta_i64"):
            bits = 32 if op == "delta_i32" else 64
            exact = rng.choice([1, 2, 3, 5, 9, 17, 33, 34, 129, 130, rng.randrange(1, 60)])
            block, nmini = rng.choice(GEOMS)
            base = delta_enc(rand_ints(rng, exact, bits), block, nmini)
            if r < 0.5:
                for m in mutations(rng, base, 150):
                    cases.append(Case(op, 0, counts_for(rng, exact, small_only=True), None, m, tag="mut"))
                for c in (exact, exact + 1, exact - 1, 0, -1, 1000, I31 - 1):
                    cases.append(Case(op, 0, c, None, base, tag="valid"))
            elif r < 0.8:
                cases.append(Case(op, 0, rng.choice([0, 1, 2, 5, 33, 129, 1000, 65536, I31 - 1, -1, -(1 << 31)]), None,
                                  delta_grammar(rng), tag="grammar"))
                # widths 33..255 in an otherwise valid block
                wo = lambda ws: [rng.choice([33, 40, 63, 64, 65, 128, 255, w]) for w in ws]
                cases.append(Case(op, 0, exact, None, delta_enc(rand_ints(rng, exact, bits), block, nmini, widths_override=wo),
                                  tag="grammar-width"))
                cases.append(Case(op, 0, rng.choice([exact, 1000]), None,
                                  delta_enc(rand_ints(rng, exact, bits), block, nmini, total=rng.choice(INTERESTING_VARINTS)),
                                  tag="grammar-total"))
            else:
                d = rb(rng, rng.randrange(0, 80))
                cases.append(Case(op, 0, counts_for(rng, rng.randrange(0, 40), small_only=True), None,
                                  None if (not d and rng.random() < 0.3) else d, tag="random"))
        else:
            exact = rng.choice([1, 2, 3, 5, 9, 33, rng.randrange(1, 40)])
            if rng.random() < 0.5:
                stem = rb(rng, rng.randrange(0, 6))
                strs = [stem[:rng.randrange(0, len(stem) + 1)] + rb(rng, rng.randrange(0, 5)) for _ in range(exact)]
            else:
                strs = [rb(rng, rng.choice([0, 1, 3, 8, rng.randrange(0, 12)])) for _ in range(exact)]
            if op == "delta_len":
                base = delta_enc([len(s) for s in strs]) + b"".join(strs)
                need = None
            else:
                pre, suf, prev = [], [], b""
                for s in strs:
                    k = 0
                    while k < len(prev) and k < len(s) and prev[k] == s[k]:
                        k += 1
                    pre.append(k); suf.append(s[k:]); prev = s
                base = delta_enc(pre) + delta_enc([len(x) for x in suf]) + b"".join(suf)
                need = sum(len(s) for s in strs)

            def capof():
                if need is None:
                    return None
                return rng.choice([0, 1, need, max(0, need - 1), need + 1, need + 100, 1 << 20, 1 << 33, 1 << 46,
                                   rng.randrange(0, need + 2)])
            if r < 0.55:
                for m in mutations(rng, base, 150):
                    cases.append(Case(op, 0, counts_for(rng, exact, small_only=True), capof(), m, tag="mut"))
                for c in (exact, exact + 1, exact - 1, 0, -1):
                    cases.append(Case(op, 0, c, capof(), base, tag="valid"))
                if need is not None:
                    for cp in (need, need - 1, 0, 1):
                        if cp >= 0:
                            cases.append(Case(op, 0, exact, cp, base, tag="valid-cap"))
            elif r < 0.85:
                # lengths that are negative after the cast / sum beyond the input / prefix beyond the previous string
                nn = rng.randrange(1, 6)
                lens = [rng.choice([0, 1, 5, I31 - 1, -1, -5, 1 << 30, 1 << 20, 100]) for _ in range(nn)]
                if op == "delta_len":
                    d = delta_enc(lens) + rb(rng, rng.randrange(0, 20))
                else:
                    pl = [rng.choice([0, 0, 1, 2, 5, 100, I31 - 1, -1]) for _ in range(nn)]
                    d = delta_enc(pl) + delta_enc(lens) + rb(rng, rng.randrange(0, 20))
                cases.append(Case(op, 0, rng.choice([nn, nn + 1, 1]), capof() if need is not None else None, d, tag="grammar"))
                cases.append(Case(op, 0, rng.choice([1, 5, 1000, I31 - 1, 1 << 20]), capof() if need is not None else None,
                                  delta_grammar(rng), tag="grammar-hdr"))
            else:
                d = rb(rng, rng.randrange(0, 80))
                cases.append(Case(op, 0, counts_for(rng, rng.randrange(0, 20), small_only=True),
                                  rng.choice([0, 1, 16, 1000]) if need is not None else None,
                                  None if (not d and rng.random() < 0.3) else d, tag="random"))
    return cases[:n]


# ------------------------------------------------------------------------------------------------ dictionary

def gen_dict(rng, n):
    cases = []
    quota = Quota(rng)
    while len(cases) < n:
        t = rng.choice(["i32", "i64", "f32", "f64"])
        es = 4 if t in ("i32", "f32") else 8
        dc = rng.choice([1, 2, 3, 4, 5, 8, 16, 17, 255, 256, rng.randrange(1, 40)])
        dic = rb(rng, dc * es)
        w = max(1, (dc - 1).bit_length()) if dc > 1 else rng.choice([0, 1])
        # index stream: runs with indices inside the dictionary, sometimes outside
        out, total = bytearray(), 0
        for _ in range(rng.randrange(1, 4)):
            bad = rng.random() < 0.15
            idx = lambda: (rng.choice([dc, dc + 1, (1 << w) - 1, I31, I32 - 1]) if bad else rng.randrange(dc)) & ((1 << w) - 1)
            if rng.random() < 0.5:
                k = rng.choice([0, 1, 8, 20, rng.randrange(0, 40)])
                out += uleb(k << 1) + idx().to_bytes((w + 7) // 8, "little")
                total += k
            else:
                g = rng.choice([1, 1, 2])
                out += uleb((g << 1) | 1)
                for _ in range(g):
                    out += pack_group(w, [idx() for _ in range(8)])
                total += 8 * g
        base = bytes([w]) + bytes(out)
        r = quota.draw(cases)
        if r < 0.45:
            for m in mutations(rng, base, 100):
                cases.append(Case("dict_" + t, dc, counts_for(rng, total), None, m, dic, tag="mut"))
            for c in (total, total + 1, max(0, total - 1), 0, 1):
                cases.append(Case("dict_" + t, dc, c, None, base, dic, tag="valid"))
        elif r < 0.8:
            # width byte over the whole range, 32-bit indices with the top bit set, dictionary count vs size
            ww = rng.choice(WIDTHS_ALL)
            vb = (ww + 7) // 8
            st = bytearray([ww])
            for _ in range(rng.randrange(1, 3)):
                if rng.random() < 0.5:
                    st += uleb(rng.choice([2, 16, 200, I32 - 2])) + rng.choice([b"\xff" * vb, b"\x00" * vb, rb(rng, vb), struct.pack("<I", I31)[:vb]])
                else:
                    g = rng.choice([1, 2, I31 - 1])
                    st += uleb(((g << 1) | 1) & (I32 - 1)) + rb(rng, rng.choice([ww % 64, 0, 8]))
            dcc = rng.choice([dc, dc + 1, 0, -1, -(1 << 31), I31 - 1, 1 << 30, 1 << 29, 1])
            dd = rng.choice([dic, dic[:-1], dic + b"\x00", b"", dic[:es]])
            cases.append(Case("dict_" + t, dcc, counts_for(rng, rng.randrange(0, 40)), None, bytes(st),
                              None if (not dd and rng.random() < 0.5) else dd, tag="grammar"))
        else:
            d = rb(rng, rng.randrange(0, 60))
            cases.append(Case("dict_" + t, rng.choice([dc, 0, 1, -1, I31 - 1]), counts_for(rng, rng.randrange(0, 30)), None,
                              d, rng.choice([dic, rb(rng, rng.randrange(0, 40))]), tag="random"))
    return cases[:n]


# ------------------------------------------------------------------------------------------------ codecs

def snappy_stream(rng):
    out, body = bytearray(), bytearray()
    for _ in range(rng.randrange(1, 7)):
        if not out or rng.random() < 0.4:
            ln = rng.choice([1, 2, 3, 59, 60, 61, 62, rng.randrange(1, 70)])
            data = rb(rng, ln)
            if ln <= 60 and rng.random() < 0.7:
                body += bytes([(ln - 1) << 2]) + data
            else:
                nb = rng.choice([k for k in (1, 2, 3, 4) if ln - 1 < 1 << (8 * k)])
                body += bytes([(59 + nb) << 2]) + (ln - 1).to_bytes(nb, "little") + data
            out += data
        else:
            kind = rng.choice([1, 2, 4])
            avail = len(out)
            off = rng.choice([1, 2, 3, avail, rng.randrange(1, avail + 1)])
            off = min(off, avail)
            if kind == 1:
                ln = rng.randrange(4, 12); off = min(off, 2047)
                body += bytes([((off >> 8) << 5) | ((ln - 4) << 2) | 1, off & 0xFF])
            elif kind == 2:
                ln = rng.choice([1, 2, 63, 64, rng.randrange(1, 65)]); off = min(off, 65535)
                body += bytes([((ln - 1) << 2) | 2, off & 0xFF, off >> 8])
            else:
                ln = rng.choice([1, 64, rng.randrange(1, 65)])
                body += bytes([((ln - 1) << 2) | 3]) + off.to_bytes(4, "little")
            for _ in range(ln):
                out.append(out[-off])
    return uleb(len(out)) + bytes(body), len(out)


def lz4_len(v):
    o = bytearray()
    while v >= 255:
        o.append(255); v -= 255
    o.append(v)
    return bytes(o)


def lz4_stream(rng):
    out, body = bytearray(), bytearray()
    for i in range(rng.randrange(0, 5)):
        ll = rng.choice([0, 1, 5, 14, 15, 16, 30, rng.randrange(0, 40)]) if out else rng.choice([1, 5, 15, 20])
        lits = rb(rng, ll)
        ml = rng.choice([4, 5, 18, 19, 20, 40, rng.randrange(4, 300)])
        out += lits
        off = rng.choice([1, 2, 7, 8, 9, len(out), rng.randrange(1, len(out) + 1)])
        off = min(off, len(out), 65535)
        tok = (min(ll, 15) << 4) | min(ml - 4, 15)
        body += bytes([tok]) + (lz4_len(ll - 15) if ll >= 15 else b"") + lits + struct.pack("<H", off)
        body += lz4_len(ml - 4 - 15) if ml - 4 >= 15 else b""
        for _ in range(ml):
            out.append(out[-off])
    ll = rng.choice([0, 1, 5, 12, 15, 16, rng.randrange(0, 40)])
    lits = rb(rng, ll)
    body += bytes([min(ll, 15) << 4]) + (lz4_len(ll - 15) if ll >= 15 else b"") + lits
    out += lits
    return bytes(body), len(out)


_zstd = None


def zstd_compress(data, level=3):
    global _zstd
    import ctypes
    if _zstd is None:
        _zstd = ctypes.CDLL("libzstd.so.1")
        _zstd.ZSTD_compressBound.restype = ctypes.c_size_t
        _zstd.ZSTD_compressBound.argtypes = [ctypes.c_size_t]
        _zstd.ZSTD_compress.restype = ctypes.c_size_t
        _zstd.ZSTD_compress.argtypes = [ctypes.c_void_p, ctypes.c_size_t, ctypes.c_char_p, ctypes.c_size_t, ctypes.c_int]
    cap = _zstd.ZSTD_compressBound(len(data))
    buf = ctypes.create_string_buffer(cap)
    n = _zstd.ZSTD_compress(buf, cap, data, len(data), level)
    return buf.raw[:n]


def content(rng):
    n = rng.choice([0, 1, 2, 5, 20, 64, 100, 300, rng.randrange(0, 200)])
    s = rng.random()
    if s < 0.3:
        return rb(rng, n)
    if s < 0.6:
        return bytes([rng.getrandbits(8)]) * n
    return bytes(rng.choice(b"abc") for _ in range(n))


def gen_codec(rng, n, ops=("snappy", "lz4", "gzip", "zstd", "snappy_len")):
    cases = []
    quota = Quota(rng)

    def caps(exact):
        c = rng.choice([0, 1, exact, max(0, exact - 1), exact + 1, exact + 100, rng.randrange(0, exact + 2), 1 << 16])
        if rng.random() < 0.08:
            c = rng.choice([1 << 24, 1 << 28, I32 - 1, I32, I32 + 5, 1 << 40, 1 << 46])
        return c

    while len(cases) < n:
        op = rng.choice(ops)
        if op in ("snappy", "snappy_len"):
            base, exact = snappy_stream(rng)
        elif op == "lz4":
            base, exact = lz4_stream(rng)
        elif op == "gzip":
            c = content(rng)
            base, exact = gzip_member(c, rng.choice([1, 6, 9])), len(c)
            if rng.random() < 0.25:          # further members: capacities are then drawn around the first member
                for _ in range(rng.randrange(1, 4)):
                    base += gzip_member(content(rng))
        else:
            c = content(rng)
            base, exact = zstd_compress(c, rng.choice([1, 3, 19])), len(c)
            if rng.random() < 0.25:          # further frames: libzstd decodes them all
                for _ in range(rng.randrange(1, 4)):
                    c2 = content(rng)
                    base += zstd_compress(c2); exact += len(c2)
        r = quota.draw(cases)
        if r < 0.6:
            for m in mutations(rng, base, 120 if op in ("gzip", "zstd") else 250, fields=False):
                cases.append(Case(op, 0, 0, None if op == "snappy_len" else caps(exact), m, tag="mut"))
            for cp in (exact, exact - 1, exact + 1, 0, 1, 1 << 20):
                if cp >= 0:
                    cases.append(Case(op, 0, 0, None if op == "snappy_len" else cp, base, tag="valid"))
        elif r < 0.85:
            if op in ("snappy", "snappy_len"):
                pre = rng.choice([uleb(v) for v in (0, 1, 60, 65536, I31 - 1, I31, I32 - 1, I32, I32 * 8)] +
                                 [b"\x80\x80\x80\x80\x10", b"\xff\xff\xff\xff\x7f", b"\x80" * 6 + b"\x00", b"\xff"])
                body = bytearray()
                for _ in range(rng.randrange(0, 4)):
                    tag = rng.choice([0x00, 0xF0, 0xF4, 0xF8, 0xFC, 0x01, 0xFD, 0x02, 0xFE, 0x03, 0xFF, rng.getrandbits(8)])
                    body += bytes([tag]) + rb(rng, rng.choice([0, 1, 2, 3, 4, 5]))
                d = pre + bytes(body)
            elif op == "lz4":
                d = bytearray()
                for _ in range(rng.randrange(1, 4)):
                    tok = rng.choice([0x00, 0x0F, 0xF0, 0xFF, 0x10, 0x1F, rng.getrandbits(8)])
                    d += bytes([tok]) + rng.choice([b"", b"\xff" * rng.randrange(1, 6) + bytes([rng.getrandbits(8)]), rb(rng, 1)])
                    d += rb(rng, rng.choice([0, 1, 2, 15, 16])) + rng.choice([b"", b"\x00\x00", b"\x01\x00", b"\xff\xff", rb(rng, 2)])
                    d += rng.choice([b"", b"\xff\xff\x00", b"\xff" * 8])
                d = bytes(d)
            else:
                d = base[:rng.randrange(0, len(base) + 1)] + rb(rng, rng.randrange(0, 12))
            cases.append(Case(op, 0, 0, None if op == "snappy_len" else caps(rng.randrange(0, 100)), d, tag="grammar"))
        else:
            d = rb(rng, rng.randrange(0, 60))
            if op == "zstd" and rng.random() < 0.5:
                d = bytes.fromhex("28b52ffd") + d
            if op == "gzip" and rng.random() < 0.5:
                d = bytes.fromhex("1f8b0800000000000003") + d
            cases.append(Case(op, 0, 0, None if op == "snappy_len" else caps(rng.randrange(0, 100)),
                              None if (not d and rng.random() < 0.3) else d, tag="random"))
    return cases[:n]


# ------------------------------------------------------------------------------------------------ Thrift compact

T_STOP, T_TRUE, T_FALSE, T_BYTE, T_I16, T_I32, T_I64, T_DOUBLE, T_BIN, T_LIST, T_SET, T_MAP, T_STRUCT, T_UUID = range(14)


def tc_value(v):
    """generic value tree -> compact protocol bytes.  v = (type, payload):
    ints: python int; BIN: bytes; LIST/SET: (elem_type, [payloads]); MAP: (kt, vt, [(k, v)]); STRUCT: [(field id, (type, payload))]"""
    t, x = v
    if t in (T_TRUE, T_FALSE):
        return bytes([1 if t == T_TRUE else 2])            # as a container element
    if t == T_BYTE:
        return bytes([x & 0xFF])
    if t in (T_I16, T_I32, T_I64):
        return uleb(zz64(x))
    if t == T_DOUBLE:
        return struct.pack("<d", x)
    if t == T_BIN:
        return uleb(len(x)) + x
    if t == T_UUID:
        return (x + bytes(16))[:16]
    if t in (T_LIST, T_SET):
        et, items = x
        hdr = bytes([(len(items) << 4) | et]) if len(items) < 15 else bytes([0xF0 | et]) + uleb(len(items))
        return hdr + b"".join(tc_value((et, i)) for i in items)
    if t == T_MAP:
        kt, vt, items = x
        if not items:
            return b"\x00"
        return uleb(len(items)) + bytes([(kt << 4) | vt]) + b"".join(tc_value((kt, k)) + tc_value((vt, w)) for k, w in items)
    if t == T_STRUCT:
        out, last = bytearray(), 0
        for fid, (ft, fx) in x:
            d = fid - last
            if 0 < d <= 15:
                out.append((d << 4) | ft)
            else:
                out.append(ft); out += uleb(zz64(fid))
            if ft not in (T_TRUE, T_FALSE):
                out += tc_value((ft, fx))
            last = fid
        out.append(0)
        return bytes(out)
    raise ValueError(t)


def rand_tree(rng, depth, t=None):
    t = t if t is not None else rng.choice([T_TRUE, T_BYTE, T_I16, T_I32, T_I64, T_DOUBLE, T_BIN, T_LIST, T_SET, T_MAP, T_STRUCT, T_UUID])
    if depth <= 0 and t in (T_LIST, T_SET, T_MAP, T_STRUCT):
        t = T_I32
    if t in (T_TRUE, T_FALSE):
        return (t, None)
    if t == T_BYTE:
        return (t, rng.getrandbits(8))
    if t in (T_I16, T_I32, T_I64):
        return (t, rng.choice([0, 1, -1, 63, 64, -65, I31 - 1, -I31, I63 - 1, -I63, rng.randrange(-1000, 1000)]))
    if t == T_DOUBLE:
        return (t, rng.random())
    if t == T_BIN:
        return (t, rb(rng, rng.choice([0, 1, 3, 10])))
    if t == T_UUID:
        return (t, rb(rng, 16))
    if t in (T_LIST, T_SET):
        et = rng.choice([T_TRUE, T_BYTE, T_I32, T_I64, T_DOUBLE, T_BIN, T_LIST, T_STRUCT, T_MAP])
        k = rng.choice([0, 1, 2, 3, 14, 15, 16])
        if depth <= 1 and et in (T_LIST, T_STRUCT, T_MAP):
            et = T_I32
        return (t, (et, [rand_tree(rng, depth - 1, et)[1] for _ in range(k)]))
    if t == T_MAP:
        kt, vt = rng.choice([T_I32, T_BIN, T_BYTE]), rng.choice([T_I32, T_BIN, T_STRUCT, T_LIST, T_TRUE])
        if depth <= 1 and vt in (T_STRUCT, T_LIST):
            vt = T_I32
        k = rng.choice([0, 1, 2, 3])
        return (t, (kt, vt, [(rand_tree(rng, 0, kt)[1], rand_tree(rng, depth - 1, vt)[1]) for _ in range(k)]))
    fields, fid = [], 0
    for _ in range(rng.choice([0, 1, 2, 3, 5])):
        fid += rng.choice([1, 1, 2, 15, 16, 100])
        fields.append((fid, rand_tree(rng, depth - 1)))
    return (T_STRUCT, fields)


def stats_tree(rng):
    return (T_STRUCT, [(1, (T_BIN, rb(rng, 4))), (2, (T_BIN, rb(rng, 4))), (3, (T_I64, rng.randrange(0, 9))),
                       (5, (T_BIN, rb(rng, rng.randrange(0, 6)))), (6, (T_BIN, rb(rng, rng.randrange(0, 6)))), (7, (T_TRUE, None))])


def page_header_tree(rng):
    kind = rng.choice([0, 0, 2, 3])
    f = [(1, (T_I32, kind)), (2, (T_I32, rng.randrange(0, 5000))), (3, (T_I32, rng.randrange(0, 5000)))]
    if rng.random() < 0.5:
        f.append((4, (T_I32, rng.randrange(-I31, I31))))
    if kind == 0:
        d = [(1, (T_I32, rng.randrange(0, 100))), (2, (T_I32, rng.choice([0, 2, 3, 8]))), (3, (T_I32, 3)), (4, (T_I32, 3))]
        if rng.random() < 0.5:
            d.append((5, stats_tree(rng)))
        f.append((5, (T_STRUCT, d)))
    elif kind == 2:
        f.append((7, (T_STRUCT, [(1, (T_I32, rng.randrange(0, 100))), (2, (T_I32, 0)), (3, (rng.choice([T_TRUE, T_FALSE]), None))])))
    else:
        d = [(1, (T_I32, 10)), (2, (T_I32, 1)), (3, (T_I32, 10)), (4, (T_I32, 0)), (5, (T_I32, 4)), (6, (T_I32, 0)),
             (7, (rng.choice([T_TRUE, T_FALSE]), None))]
        if rng.random() < 0.5:
            d.append((8, stats_tree(rng)))
        f.append((8, (T_STRUCT, d)))
    if rng.random() < 0.3:
        f.append((rng.choice([9, 20, 300]), rand_tree(rng, 2)))
    return (T_STRUCT, f)


def file_metadata_tree(rng):
    ncol = rng.choice([1, 1, 2, 3])
    schema = [[(4, (T_BIN, b"root")), (5, (T_I32, ncol))]]
    for c in range(ncol):
        el = [(1, (T_I32, rng.choice([0, 1, 2, 4, 5, 6, 7]))), (3, (T_I32, rng.choice([0, 1, 2]))), (4, (T_BIN, b"c%d" % c))]
        if rng.random() < 0.3:
            el.insert(1, (2, (T_I32, rng.randrange(1, 20))))
        if rng.random() < 0.3:
            el.append((6, (T_I32, rng.randrange(0, 22))))
        if rng.random() < 0.3:
            el.append((10, logical_type_tree(rng)))
        schema.append(el)
    rgs = []
    for g in range(rng.choice([0, 1, 2])):
        cols = []
        for c in range(ncol):
            md = [(1, (T_I32, 1)), (2, (T_LIST, (T_I32, [0, 3]))), (3, (T_LIST, (T_BIN, [b"c%d" % c]))), (4, (T_I32, rng.choice([0, 1, 2, 6]))),
                  (5, (T_I64, 10)), (6, (T_I64, 100)), (7, (T_I64, 90)), (9, (T_I64, 4 + 100 * c))]
            if rng.random() < 0.4:
                md.append((8, (T_LIST, (T_STRUCT, [[(1, (T_BIN, b"k")), (2, (T_BIN, b"v"))]]))))
            if rng.random() < 0.4:
                md.append((11, (T_I64, 4)))
            if rng.random() < 0.5:
                md.append((12, stats_tree(rng)))
            if rng.random() < 0.3:
                md.append((13, (T_LIST, (T_STRUCT, [[(1, (T_I32, 0)), (2, (T_I32, 0)), (3, (T_I32, 1))]]))))
            cc = [(2, (T_I64, 4)), (3, (T_STRUCT, md))]
            if rng.random() < 0.2:
                cc.insert(0, (1, (T_BIN, b"f")))
            cols.append(cc)
        rgs.append([(1, (T_LIST, (T_STRUCT, cols))), (2, (T_I64, 100)), (3, (T_I64, 10))] +
                   ([(7, (T_I16, g))] if rng.random() < 0.5 else []))
    f = [(1, (T_I32, rng.choice([1, 2]))), (2, (T_LIST, (T_STRUCT, schema))), (3, (T_I64, 10)), (4, (T_LIST, (T_STRUCT, rgs)))]
    if rng.random() < 0.5:
        f.append((5, (T_LIST, (T_STRUCT, [[(1, (T_BIN, b"key")), (2, (T_BIN, rb(rng, 3)))] for _ in range(rng.randrange(0, 3))]))))
    if rng.random() < 0.5:
        f.append((6, (T_BIN, b"carquet test")))
    if rng.random() < 0.3:
        f.append((rng.choice([7, 8, 9, 40]), rand_tree(rng, 3)))
    return (T_STRUCT, f)


def thrift_grammar(rng):
    """field headers followed by hostile container / binary headers"""
    out = bytearray()
    for _ in range(rng.randrange(1, 4)):
        ft = rng.choice([T_BIN, T_LIST, T_SET, T_MAP, T_STRUCT, T_I32, T_I64, T_DOUBLE, T_UUID, 14, 15, T_BYTE, T_TRUE])
        delta = rng.choice([1, 1, 2, 3, 4, 5, 6, 0])
        out.append((delta << 4) | ft)
        if delta == 0:
            out += uleb(rng.choice([0, 1, 2, 4, 8, 65535, I32 - 1, I64 - 1]))
        big = rng.choice([I31 - 1, I31, I31 + 1, I32 - 1, I32, I63, I64 - 1, 1 << 35, 200, 15, 16])
        if ft == T_BIN:
            out += uleb(big) + rb(rng, rng.randrange(0, 6))
        elif ft in (T_LIST, T_SET):
            et = rng.choice([T_STOP, T_TRUE, T_BYTE, T_I32, T_DOUBLE, T_BIN, T_LIST, T_STRUCT, T_MAP, T_UUID, 14, 15])
            out += bytes([0xF0 | et]) + uleb(big) + rb(rng, rng.randrange(0, 6))
        elif ft == T_MAP:
            out += uleb(big) + bytes([rng.getrandbits(8)]) + rb(rng, rng.randrange(0, 6))
        elif ft == T_STRUCT:
            out += bytes([rng.choice([0x1C, 0x19, 0x18, 0x1B, 0x00])]) * rng.choice([1, 5, 31, 32, 33, 64])
        else:
            out += rb(rng, rng.randrange(0, 10))
    if rng.random() < 0.5:
        out.append(0)
    return bytes(out)


def thrift_nested(rng):
    """one unknown field made of k nested list / struct / map headers (recursion depth of thrift_skip)"""
    k = rng.choice([1, 5, 30, 31, 32, 33, 34, 64, 200, 1000, 5000, 5000, 100000, 300000])
    unit = rng.choice([b"\x19", b"\x1c", b"\x1c\x1c", b"\x01\xcc", b"\x1b\x01\x5c", b"\x19\x1c"])
    fid = rng.choice([0x90, 0xF0, 0x10])
    t = {b"\x19": T_LIST, b"\x1c": T_STRUCT, b"\x1c\x1c": T_STRUCT, b"\x01\xcc": T_MAP, b"\x1b\x01\x5c": T_MAP, b"\x19\x1c": T_LIST}[unit]
    return bytes([fid | t]) + unit * k + rb(rng, rng.choice([0, 1, 4]))


def gen_thrift(rng, n):
    cases = []
    quota = Quota(rng)
    while len(cases) < n:
        op = rng.choice(["thrift_fm", "thrift_ph"])
        r = quota.draw(cases)
        base = tc_value(file_metadata_tree(rng) if op == "thrift_fm" else page_header_tree(rng))
        if r < 0.5:
            for m in mutations(rng, base, 250 if len(base) < 60 else 150):
                cases.append(Case(op, 0, 0, None, m, tag="mut"))
            cases.append(Case(op, 0, 0, None, base, tag="valid"))
            cases.append(Case(op, 0, 0, None, base + rb(rng, 5), tag="valid"))
        elif r < 0.7:
            cases.append(Case(op, 0, 0, None, thrift_grammar(rng), tag="grammar"))
            cases.append(Case(op, 0, 0, None, base[:rng.randrange(0, len(base))] + thrift_grammar(rng), tag="grammar"))
        elif r < 0.8:
            cases.append(Case(op, 0, 0, None, thrift_nested(rng), tag="nested"))
        elif r < 0.9:
            # a generic struct: every field goes through the known-field switch with an unexpected type, or through skip
            cases.append(Case(op, 0, 0, None, tc_value(rand_tree(rng, 4, T_STRUCT)), tag="generic"))
        else:
            d = rb(rng, rng.randrange(0, 80))
            cases.append(Case(op, 0, 0, None, None if (not d and rng.random() < 0.3) else d, tag="random"))
    return cases[:n]


# repeated-field family: a Thrift struct may carry the same field id twice (the second time in the long field
# header form); decoders take the last occurrence.  Every field of every struct of a FULL FileMetaData / PageHeader
# tree is emitted twice: shorter-then-longer, longer-then-shorter, equal, and (lists) short-then-thousands so that
# a 64 KiB arena block is left.

class _AllOptional(random.Random):
    """random source for the tree builders that takes every optional branch (random() < p is always true)"""
    def random(self):
        return 0.0

    def getrandbits(self, k):          # keeps choice / randrange on the bit source (not on random())
        return super().getrandbits(k)


def _struct_lists(node, acc):
    """references to the field list of every struct in the tree, in traversal order"""
    t, x = node
    if t == T_STRUCT:
        acc.append(x)
        for _, v in x:
            _struct_lists(v, acc)
    elif t in (T_LIST, T_SET):
        et, items = x
        if et in (T_STRUCT, T_LIST, T_SET, T_MAP):
            for it in items:
                _struct_lists((et, it), acc)
    elif t == T_MAP:
        kt, vt, items = x
        for k, v in items:
            _struct_lists((kt, k), acc)
            _struct_lists((vt, v), acc)
    return acc


def _resized(v, mode):
    """a shorter / longer / huge version of a field value (same wire type)"""
    t, x = v
    if t in (T_LIST, T_SET):
        et, items = x
        if not items:
            return v
        if mode == "short":
            return (t, (et, items[:max(1, len(items) // 2)]))
        if mode == "long":
            return (t, (et, (items * 4)[:max(len(items) + 3, 5)]))
        if mode == "huge":
            return (t, (et, (items * 5000)[:4000]))
    if t == T_BIN:
        if mode == "short":
            return (t, x[:len(x) // 2])
        if mode in ("long", "huge"):
            return (t, x * 4 + b"zz" * (2000 if mode == "huge" else 1))
    if t == T_STRUCT and mode == "short" and len(x) > 1:
        return (t, x[:-1])
    return v


def gen_repeated_fields(rng, tier):
    import copy
    cases = []
    bases = []
    for _ in range(2 if tier == "quick" else 6):
        for _try in range(50):
            ar = _AllOptional(rng.getrandbits(32))
            tr = file_metadata_tree(ar)
            rgs = [v for fid, v in tr[1] if fid == 4][0][1][1]
            if rgs:
                bases.append(("thrift_fm", tr))
                break
        bases.append(("thrift_ph", page_header_tree(_AllOptional(rng.getrandbits(32)))))
        bases.append(("thrift_ph", page_header_tree(rng)))
    for op, tr in bases:
        nstruct = len(_struct_lists(tr, []))
        for si in range(nstruct):
            nf = len(_struct_lists(tr, [])[si])
            for fi in range(nf):
                fid0, v0 = _struct_lists(tr, [])[si][fi]
                variants = [("short", "long"), ("long", "short"), ("same", "same")]
                if v0[0] in (T_LIST, T_SET, T_BIN):
                    variants.append(("short", "huge"))
                for first, second in variants:
                    t2 = copy.deepcopy(tr)
                    fl = _struct_lists(t2, [])[si]
                    fid, v = fl[fi]
                    fl[fi] = (fid, _resized(v, first))
                    dup = (fid, _resized(v, second))
                    if rng.random() < 0.5:
                        fl.insert(fi + 1, dup)          # right behind the first occurrence
                    else:
                        fl.append(dup)                  # at the end of the struct (a negative id delta)
                    try:
                        cases.append(Case(op, 0, 0, None, tc_value(t2), tag="repeated"))
                    except Exception:
                        pass
    return cases


def logical_type_tree(rng):
    """LogicalType union: every member carquet parses, with its parameters (time units 1 / 2 / 3)"""
    k = rng.choice([1, 2, 3, 4, 5, 6, 7, 8, 10, 11, 12, 13, 14, 15, 16])
    body = []
    if k == 5:
        body = [(1, (T_I32, rng.randrange(0, 10))), (2, (T_I32, rng.randrange(1, 38)))]
    elif k in (7, 8):
        body = [(1, (rng.choice([T_TRUE, T_FALSE]), None)), (2, (T_STRUCT, [(rng.choice([1, 2, 3, 4]), (T_STRUCT, []))]))]
    elif k == 10:
        body = [(1, (T_BYTE, rng.choice([8, 16, 32, 64]))), (2, (rng.choice([T_TRUE, T_FALSE]), None))]
    return (T_STRUCT, [(k, (T_STRUCT, body))])


def gen_count_limits(rng, tier):
    """list counts at the parser's limits (CARQUET_MAX_*: schema 10000, row groups 100000, columns 10000, key-values
    10000, encodings / path / encoding stats 100): limit - 1, limit, limit + 1, each followed by that many minimal
    elements so that the 'count exceeds the remaining data' test does not answer first"""
    cases = []

    def lst(et, n):
        return (T_LIST, (et, [[] if et == T_STRUCT else (0 if et == T_I32 else b"")] * n))

    def fm(fields):
        return tc_value((T_STRUCT, [(1, (T_I32, 1))] + fields))

    def col(meta_fields):
        return (4, (T_LIST, (T_STRUCT, [[(1, (T_LIST, (T_STRUCT, [[(2, (T_I64, 4)), (3, (T_STRUCT, meta_fields))]])))]])))

    for d in (-1, 0, 1):
        cases.append(fm([(2, lst(T_STRUCT, 10000 + d))]))
        cases.append(fm([(4, lst(T_STRUCT, 100000 + d))]))
        cases.append(fm([(5, lst(T_STRUCT, 10000 + d))]))
        cases.append(fm([(4, (T_LIST, (T_STRUCT, [[(1, lst(T_STRUCT, 10000 + d))]])))]))
        cases.append(fm([col([(2, lst(T_I32, 100 + d))])]))
        cases.append(fm([col([(3, lst(T_BIN, 100 + d))])]))
        cases.append(fm([col([(8, lst(T_STRUCT, 10000 + d))])]))
        cases.append(fm([col([(13, lst(T_STRUCT, 100 + d))])]))
    return [Case("thrift_fm", 0, 0, None, c, tag="limits") for c in cases]


def gzip_member(c, level=6):
    co = zlib.compressobj(level, zlib.DEFLATED, 31)
    return co.compress(c) + co.flush()


def gen_multimember_suite(rng, tier):
    """legal multi-member gzip streams (RFC 1952 section 2.2: members back to back) and multi-frame zstd streams
    (frames back to back, skippable frames in between) x capacities around every member boundary and the total.
    zlib / libzstd are not sanitizer-instrumented: a store past the capacity shows only through the reported
    size and the guard area the driver keeps behind the output."""
    cases = []
    shapes = [[700, 700], [1, 1], [0, 5], [5, 0], [10, 20, 30], [300, 1, 300], [64, 64, 64, 64], [1000, 10], [10, 1000],
              [255, 256, 257], [4096, 4096]]
    for _ in range(6 if tier == "quick" else 30):
        shapes.append([rng.choice([0, 1, 7, 100, 700, rng.randrange(0, 2000)]) for _ in range(rng.randrange(2, 5))])
    for op in ("gzip", "zstd"):
        for sizes in shapes:
            parts = []
            for i, n in enumerate(sizes):
                c = bytes([0x41 + i]) * n if rng.random() < 0.5 else rb(rng, n)
                parts.append(gzip_member(c, rng.choice([1, 6, 9])) if op == "gzip" else zstd_compress(c, rng.choice([1, 3])))
            streams = [b"".join(parts)]
            if op == "zstd":     # a skippable frame between the frames (magic 0x184D2A50, 4-byte size, payload)
                streams.append(parts[0] + bytes.fromhex("502a4d18") + struct.pack("<I", 3) + b"xyz" + b"".join(parts[1:]))
            caps = {0, 1}
            acc = 0
            for n in sizes:
                acc += n
                caps |= {max(0, acc - 1), acc, acc + 1}
            caps |= {acc + 100, sizes[0] + sizes[1] // 2, max(0, acc - sizes[-1] // 2)}
            for st in streams:
                for cp in sorted(caps):
                    cases.append(Case(op, 0, 0, cp, st, tag="multimember"))
                # damage in / after the second member, trailing garbage after a complete member
                cut = len(parts[0]) + max(1, len(parts[1]) // 2)
                for bad in (st[:cut], st[:len(parts[0])] + b"\x00", st[:len(parts[0])] + rb(rng, 8), st + b"\x1f\x8b"):
                    for cp in (sizes[0], sizes[0] + 1, acc, max(0, acc - 1)):
                        cases.append(Case(op, 0, 0, cp, bad, tag="multimember"))
    return cases


# nesting suite: deep chains of EVERY container constructor in EVERY child position, for both parsers.
# The skipped value is one unknown field of the top-level struct; frame kinds:
#   L  list<child>   S  set<child>   K  map<child, byte> (child = key)   V  map<byte, child> (child = value)
#   F  struct { 1: child }
NEST_KINDS = "LSKVF"
NEST_TYPE = {"L": T_LIST, "S": T_SET, "K": T_MAP, "V": T_MAP, "F": T_STRUCT}


def nest_chain(kinds, fid=15):
    """compact-protocol bytes of a top-level struct whose only field (id `fid`, unknown to both parsers) is the
    chain of containers `kinds` (outermost first) around one BYTE; well-formed at every depth"""
    pre, suf = bytearray(), bytearray()
    for i, k in enumerate(kinds):
        t = NEST_TYPE[kinds[i + 1]] if i + 1 < len(kinds) else T_BYTE
        if k in "LS":
            pre.append(0x10 | t)                       # one element of type t
        elif k == "K":
            pre += bytes([0x01, (t << 4) | T_BYTE])    # one pair: key = child, value = byte
            suf.append(0x00)
        elif k == "V":
            pre += bytes([0x01, (T_BYTE << 4) | t, 0x00])
        else:
            pre.append(0x10 | t)                       # field 1 of type t ... STOP
            suf.append(0x00)
    head = bytes([(fid << 4) | NEST_TYPE[kinds[0]]]) if fid <= 15 else bytes([NEST_TYPE[kinds[0]]]) + uleb(zz64(fid))
    return head + bytes(pre) + b"\x07" + bytes(reversed(suf)) + b"\x00"


def gen_nesting_suite(rng, tier):
    cases = []
    deep = [150000] if tier == "quick" else [150000, 1000000, 3000000]
    for op in ("thrift_ph", "thrift_fm"):
        for k in NEST_KINDS:
            for d in [1, 2, 30, 31, 32, 33, 34, 64, 100, 130, 1000] + deep:
                cases.append(Case(op, 0, 0, None, nest_chain(k * d), tag="nesting"))
        # mixed chains: every ordered pair of constructors alternating, and random chains
        for a in NEST_KINDS:
            for b in NEST_KINDS:
                if a != b:
                    for d in (33, 100):
                        cases.append(Case(op, 0, 0, None, nest_chain(((a + b) * d)[:d]), tag="nesting"))
        for _ in range(20 if tier == "quick" else 100):
            d = rng.choice([31, 32, 33, 34, 40, 100, 120, 1000, 20000, deep[0]])
            ks = "".join(rng.choice(NEST_KINDS) for _ in range(min(d, 2000)))
            ks = (ks * (d // len(ks) + 1))[:d]
            cases.append(Case(op, 0, 0, None, nest_chain(ks, fid=rng.choice([9, 12, 15, 100])), tag="nesting"))
        # the same chains inside the sub-structs and in the fields the parsers skip on purpose
        for k in NEST_KINDS:
            for d in (31, 33, 100, deep[0]):
                unknown9 = nest_chain(k * d, fid=9)[:-1]                   # field 9 = chain, without the final STOP
                if op == "thrift_ph":
                    # data_page_header { 9: chain }   /   data_page_header_v2 { 9: chain }   /   v2 { 8 (statistics): chain }
                    cases.append(Case(op, 0, 0, None, b"\x15\x00\x15\x00\x15\x00\x2c" + unknown9 + b"\x00\x00", tag="nesting"))
                    cases.append(Case(op, 0, 0, None, b"\x15\x06\x15\x00\x15\x00\x5c" + unknown9 + b"\x00\x00", tag="nesting"))
                    cases.append(Case(op, 0, 0, None, b"\x15\x06\x15\x00\x15\x00\x5c" + nest_chain(k * d, fid=8)[:-1] + b"\x00\x00", tag="nesting"))
                else:
                    # column_orders (7) / encryption_algorithm (8): skipped by type
                    cases.append(Case(op, 0, 0, None, b"\x15\x02" + nest_chain(k * d, fid=6), tag="nesting"))
                    cases.append(Case(op, 0, 0, None, b"\x15\x02" + nest_chain(k * d, fid=7), tag="nesting"))
    return cases


def gen_bitreader(rng, n):
    """bit reader, raw bit-unpack kernels (inside their contract: packed_size bytes present) and the Thrift decoder
    primitives the two parsers do not call (double, uuid, allocated string, set header, skip_field, init_reader)"""
    cases = []
    for i in range(n):
        r = i % 10
        if r < 2:
            cases.append(Case("bitreader", rng.randrange(0, 65), 0, None, rb(rng, rng.randrange(0, 40)), tag="random"))
        elif r < 4:
            w = rng.choice(list(range(0, 33)))
            c = rng.choice([0, 1, 7, 8, 9, 15, 16, 17, 32, 33, rng.randrange(0, 70)])
            cases.append(Case("bitunpack", w, c, None, rb(rng, (c * w + 7) // 8 + rng.choice([0, 0, 1, 5])), tag="random"))
        else:
            kind = rng.random()
            if kind < 0.4:
                d = tc_value(rand_tree(rng, 3, T_STRUCT))
                if rng.random() < 0.6 and d:
                    m = mutations(rng, d, 8)
                    d = rng.choice(m) if m else d
                tag = "mut"
            elif kind < 0.7:
                # near-valid: doubles, uuids, strings with hostile lengths, set headers with hostile counts
                d = bytearray()
                for _ in range(rng.randrange(1, 5)):
                    d += rng.choice([rb(rng, 8), rb(rng, 16), uleb(rng.choice([0, 1, 5, I31 - 1, I31, I32 - 1, I63])) + rb(rng, rng.randrange(0, 6)),
                                     bytes([0xF0 | rng.randrange(16)]) + uleb(rng.choice([0, 3, 16, I31 - 1, I31, I64 - 1])),
                                     bytes([rng.randrange(16) << 4 | rng.randrange(16)])])
                d, tag = bytes(d), "grammar"
            else:
                d, tag = rb(rng, rng.randrange(0, 60)), "random"
            cases.append(Case("thrift_prim", rng.randrange(0, 64), rng.randrange(0, 50), None, d, tag=tag))
    return cases


FAMILIES = [("rle", gen_rle, 0.22), ("plain", gen_plain, 0.13), ("bss", gen_bss, 0.06), ("delta", gen_delta, 0.2),
            ("dict", gen_dict, 0.1), ("codec", gen_codec, 0.15), ("thrift", gen_thrift, 0.12), ("bitreader", gen_bitreader, 0.02)]

ALL_OPS = ["thrift_fm", "thrift_ph", "rle_all", "rle_stream", "rle_levels", "rle_levels_pref",
           "plain_bool", "plain_i32", "plain_i64", "plain_i96", "plain_f32", "plain_f64", "plain_ba", "plain_flba", "plain_disp",
           "delta_i32", "delta_i64", "delta_len", "delta_str", "bss_f32", "bss_f64", "bss_flba",
           "dict_i32", "dict_i64", "dict_f32", "dict_f64", "snappy", "snappy_len", "lz4", "gzip", "zstd", "bitreader",
           "bitunpack", "thrift_prim"]


# API variants with NULL out-parameters / NULL arguments (p is otherwise unused by these entry points; the driver
# decodes the bits): the call must be refused, or - for an optional bytes_consumed - work without it
NULL_FLAGS = {"delta_i32": [1], "delta_i64": [1], "delta_len": [1, 2, 3], "delta_str": [1, 2, 3], "bss_f32": [1], "bss_f64": [1],
              "snappy": [1, 2, 3], "lz4": [1, 2, 3], "gzip": [1, 2, 3], "zstd": [1, 2, 3], "snappy_len": [2],
              "thrift_ph": [1, 2, 3, 4, 5, 6, 7], "thrift_fm": [1, 2, 3, 4, 5, 6, 7],
              "plain_bool": [1], "plain_i32": [1], "plain_i64": [1], "plain_i96": [1], "plain_f32": [1], "plain_f64": [1], "plain_ba": [1]}


def gen_cases(total, rng):
    cases = []
    for name, fn, share in FAMILIES:
        sub = random.Random(rng.getrandbits(64))
        cases += fn(sub, max(1, int(total * share)))
    for c in cases:
        if c.op in NULL_FLAGS and rng.random() < 0.02:
            c.p = rng.choice(NULL_FLAGS[c.op])
            c.tag = "nullarg"
        elif c.op == "rle_levels_pref" and rng.random() < 0.02:
            c.cap = 0                                   # bytes_consumed = NULL
            c.tag = "nullarg"
    return cases


# ------------------------------------------------------------------------------------------------ builds

def build_asan_only():
    """Second build of the working tree and of the driver with AddressSanitizer only (no UBSan): a case on
    which UBSan stopped the worker (shift by >= width, ...) is run again here to see whether the undefined
    operation is followed by an out-of-bounds access or a wrong size.  Same procedure as vlib.build_repo /
    build_driver with another flag set (kept here: vlib knows only its two flavours)."""
    flags = [f for f in vlib.SAN_FLAGS if not f.startswith("-fsanitize") and not f.startswith("-fno-sanitize")]
    flags += ["-fsanitize=address"]
    out = vlib.BUILD / "asan"
    objd = out / "obj"
    objd.mkdir(parents=True, exist_ok=True)
    from concurrent.futures import ThreadPoolExecutor
    with vlib.Lock(out / ".lock"):
        hh = vlib._headers_hash()
        sf = out / "stamps.json"
        try:
            stamps = json.loads(sf.read_text())
        except Exception:
            stamps = {}
        jobs, objs, new = [], [], {}
        for rel in vlib.repo_sources():
            fl = flags + vlib.PER_FILE.get(rel, [])
            key = vlib._sha((vlib.REPO / rel).read_bytes(), hh, " ".join(fl))
            o = objd / (rel.replace("/", "__") + ".o")
            objs.append(o)
            new[rel] = key
            if stamps.get(rel) != key or not o.exists():
                jobs.append((rel, o, fl))

        def cc(job):
            rel, o, fl = job
            return rel, vlib.sh(["gcc"] + fl + ["-I", str(vlib.REPO / "include"), "-I", str(vlib.REPO / "src"),
                                 "-c", str(vlib.REPO / rel), "-o", str(o)])
        failed = []
        if jobs:
            with ThreadPoolExecutor(vlib.NCPU) as ex:
                for rel, p in ex.map(cc, jobs):
                    if p.returncode != 0:
                        failed.append(rel + ": " + p.stderr[-1500:])
                        new.pop(rel, None)
        sf.write_text(json.dumps(new))
        if failed:
            raise vlib.BuildError("ASan-only build failed: " + "; ".join(failed))
        lib = out / "libcarquet.a"
        if jobs or not lib.exists():
            if lib.exists():
                lib.unlink()
            vlib.sh(["ar", "rcs", str(lib)] + [str(o) for o in objs], check=True)
        exe = out / "h_dec"
        src = vlib.VERIF / "harness" / "h_dec.c"
        key = vlib._sha(src.read_bytes(), (vlib.VERIF / "harness" / "hcommon.h").read_bytes(), lib.stat().st_mtime_ns, " ".join(flags + WRAP))
        st = out / "h_dec.stamp"
        if not (exe.exists() and st.exists() and st.read_text() == key):
            p = vlib.sh(["gcc"] + flags + WRAP + ["-I", str(vlib.REPO / "include"), "-I", str(vlib.REPO / "src"),
                         "-I", str(vlib.VERIF / "harness"), str(src), str(lib)] + vlib.LINK_LIBS + ["-o", str(exe)])
            if p.returncode != 0:
                raise vlib.BuildError("ASan-only driver does not build: " + p.stderr[-2000:])
            st.write_text(key)
        return exe


# ------------------------------------------------------------------------------------------------ oracle

DECOMP = ("snappy", "lz4", "gzip", "zstd")


def judge(c, out):
    """robust wrapper: driver output that cannot be interpreted is a violation with the case as replay"""
    try:
        return _judge(c, out)
    except Exception as e:                      # noqa: BLE001
        return "VIOL", f"driver output cannot be interpreted ({type(e).__name__}): {out[:200]!r}"


def _judge(c, out):
    """-> (class, detail): class in OK ERR UB FAULT TIMEOUT VIOL SKIP.  Checks the reported sizes again on
    this side (the driver checks them too): defence against a driver edited into agreeing."""
    t = out.split()
    if not t:
        return "FAULT", "no output"
    k = t[0]
    if k == "OK":
        try:
            a = int(t[1])
        except (IndexError, ValueError):
            return "VIOL", "unparsable OK line: " + out
        n = len(c.data) if c.data is not None else 0
        lim = None
        if c.op in ("rle_all", "rle_stream", "rle_levels", "rle_levels_pref"):
            lim = max(c.count, 0)
            if c.op == "rle_levels_pref" and len(t) > 2 and int(t[2]) > n:
                return "VIOL", f"bytes_consumed {t[2]} exceeds the input length {n}"
        elif c.op.startswith("plain_") or c.op.startswith("delta_") or c.op == "thrift_ph":
            lim = n
            if c.op == "delta_str" and len(t) > 2 and c.cap is not None and int(t[2]) > c.cap:
                return "VIOL", f"strings total {t[2]} exceeds the work buffer {c.cap}"
        elif c.op in DECOMP:
            lim = c.cap
        if lim is not None and a > lim:
            return "VIOL", f"reported size {a} exceeds the limit {lim}"
        if "statsview=outside" in t:
            return "STATSVIEW", a
        return "OK", a
    if k == "ERR":
        return "ERR", t[1] if len(t) > 1 else ""
    if k == "FAULT":
        d = out[6:]
        if d.startswith("ubsan:"):
            return "UB", d
        return "FAULT", d
    if k in ("TIMEOUT", "VIOL", "SKIP"):
        return k, out[len(k) + 1:]
    return "FAULT", "unexpected driver output: " + out[:200]


def ub_kind(detail):
    m = re.search(r"runtime error: (.*)", detail)
    msg = m.group(1) if m else detail
    if "shift exponent" in msg or "left shift of" in msg:
        return "shift"
    if "signed integer overflow" in msg:
        return "signed-overflow"
    if "pointer index expression" in msg or "pointer overflow" in msg:
        return "pointer-overflow"
    if "misaligned" in msg:
        return "misaligned"
    if "null pointer" in msg:
        return "null"
    return "other"


def site_of(detail):
    m = re.search(r"(/[^ :]+\.[ch]):(\d+)", detail)
    return f"{Path(m.group(1)).name}:{m.group(2)}" if m else detail[:60]


def run_cases(rep, drv, cases, stats, label=""):
    """run, judge, register violations.  Returns list of (case, line, class, detail)."""
    lines = [c.line() for c in cases]
    outs, probs = run_sharded(drv, lines, timeout=1800)
    for pr in probs:
        # the supervisor itself died or a worker failed at exit (LeakSanitizer): attributable to a shard only;
        # reported after the per-case verdicts (a per-case "VIOL leak" names the input)
        stats.setdefault("shard_problems", []).append((pr[1], pr[2][-500:], pr[3]))
    res = []
    ubs = []
    for c, li, o in zip(cases, lines, outs):
        k, d = judge(c, o)
        rep.count(li, nontrivial=bool(c.data))
        stats["by_op"].setdefault(c.op, {}).setdefault(k, 0)
        stats["by_op"][c.op][k] += 1
        stats["by_tag"][c.tag or label] = stats["by_tag"].get(c.tag or label, 0) + 1
        if k == "UB":
            ubs.append((c, li, d))
        if k == "STATSVIEW":
            # parquet_parse_page_header returned OK with has_statistics set and a min/max view outside the input
            # (finding repaired by /repo bc9c026: the sub-headers share a union, a second sub-header overwrote the
            # pointers that field 5 borrowed from the input)
            stats["statsview"] = stats.get("statsview", 0) + 1
            stats["violations"].append((c.op, "parquet_parse_page_header returns OK with data_page_header.has_statistics = 1 and a "
                                              "statistics min/max pointer outside the input", li))
            k = "OK"
        res.append((c, li, k, d, o))
    # UBSan reports: separate bucket; violation only if the ASan-only build faults or misreports as well
    if ubs:
        for c, li, d in ubs:
            key = f"{ub_kind(d)} {site_of(d)} via {c.op}"
            e = stats["ub"].setdefault(key, {"count": 0, "example": li[:300], "message": d[:200]})
            e["count"] += 1
        try:
            drv2 = build_asan_only()
            outs2, probs2 = run_sharded(drv2, [li for _, li, _ in ubs], timeout=1800)
            for (c, li, d), o2 in zip(ubs, outs2):
                k2, d2 = judge(c, o2)
                if k2 in ("FAULT", "VIOL", "TIMEOUT", "UB"):
                    stats["violations"].append((c.op, f"undefined behaviour ({d[:150]}) followed by {k2}: {d2}", li))
                else:
                    stats["ub_memory_safe"] += 1
        except vlib.BuildError as e:
            rep.tie_broken("ASan-only build failed, UBSan reports could not be classified: " + str(e)[:300])
    for c, li, k, d, _o in res:
        if k == "FAULT":
            stats["violations"].append((c.op, "FAULT " + d, li))
        elif k == "TIMEOUT":
            stats["violations"].append((c.op, "does not terminate within the CPU limit: " + d, li))
        elif k == "VIOL":
            stats["violations"].append((c.op, d, li))
        elif k == "SKIP" and "hang-budget" in str(d):
            stats["hang_skipped"] = stats.get("hang_skipped", 0) + 1
        elif k == "SKIP" and "unknown-op" in str(d):
            stats["violations"].append((c.op, "driver does not know the entry point (harness out of date)", li))
    return res


def load_corpus():
    cases = []
    if CORPUS.is_dir():
        for f in sorted(CORPUS.glob("*.txt")):
            for ln in f.read_text().splitlines():
                ln = ln.strip()
                if ln and not ln.startswith("#"):
                    try:
                        c = parse_line(ln)
                        c.tag = "corpus"
                        cases.append(c)
                    except Exception:
                        pass
    return cases


def flush_violations(rep, stats):
    seen = {}
    for op, what, li in stats["violations"]:
        key = (op, re.sub(r"0x[0-9a-f]+|\d{4,}", "#", what)[:120])
        if key in seen:
            seen[key][0] += 1
            continue
        seen[key] = [1, what, li]
    for (op, _), (cnt, what, li) in sorted(seen.items(), key=lambda kv: -kv[1][0]):
        rep.violation(f"{op}: {what}  ({cnt} case(s) of this kind)", {"case": li, "entry_point": op},
                      key=f"{op}:{site_of(what)}")
    stats["violations"] = []
    for rc, err, case in stats.pop("shard_problems", []):
        rep.violation(f"h_dec supervisor/worker failed outside a case (rc={rc}): {err}",
                      {"case": case, "note": "shard-level failure: LeakSanitizer verdict at worker exit, or the supervisor died"})


def run(tier):
    rep = Report(PID, tier)
    rng = random.Random(vlib.SEED * 7919 + 8)
    prelude(rep, PID)
    rep.cov["trusted_base"] = vlib.TRUSTED_BASE_COMMON + [
        "AddressSanitizer red zones around exact-size heap objects, guard pages after mapped outputs above 16 MiB, LeakSanitizer and the live-heap counter (__sanitizer_get_current_allocated_bytes) as the observers of memory safety on the implementation",
        "zlib inflate and libzstd ZSTD_decompressDCtx are external: Section variables in Dec/WrapperModel.v assumed to write at most dst_capacity bytes and to report a size <= capacity or an error (what carquet adds around them is proved); the system libraries are NOT sanitizer-instrumented, so their stores are observed through the reported size and a 64 KiB guard area behind the declared capacity that the driver compares after every gzip / zstd call",
        "the heap discipline of the real process (that the C code frees what the model's allocation events say) is observed by the driver, not proved (DESIGN.md section 10)",
    ]
    rep.cov["rule"] = ("per entry point (32 ops covering every decoder named by the property): (a) every truncation, bit flip, "
                       "deletion, insertion of 00/80/FF/01, interesting-byte substitution, 4-byte field and varint overwrite of "
                       "small valid encodings (sampled above the per-base budget), (b) grammar-built near-valid streams aimed at "
                       "length fields (varints 2^31-1, 2^31, 2^32-1, 2^63, counts beyond the input, widths 0..255, block sizes 0), "
                       "(c) raw random bytes; width / count / capacity drawn independently (0, 1, exact, exact-1, exact+1, huge); "
                       "non-trivial = non-empty input; distinct by full case text")
    stats = {"by_op": {}, "by_tag": {}, "ub": {}, "ub_memory_safe": 0, "violations": []}
    try:
        drv = build_driver("h_dec", extra=WRAP)
    except vlib.BuildError as e:
        rep.tie_broken("harness/h_dec.c does not build against the current tree: " + str(e)[:600])
        return rep.finish()
    t0 = time.time()
    # 1. corpus first
    corpus = load_corpus()
    if corpus:
        run_cases(rep, drv, corpus, stats, "corpus")
        flush_violations(rep, stats)
    # 1b. the nesting suite (every container constructor in every child position, depths 1 .. 10^5 / 10^6)
    suite = gen_nesting_suite(random.Random(vlib.SEED * 131 + 7), tier)
    suite_res = run_cases(rep, drv, suite, stats)
    flush_violations(rep, stats)
    # 1c. multi-member gzip / multi-frame zstd streams x capacities around every member boundary
    mm = gen_multimember_suite(random.Random(vlib.SEED * 137 + 11), tier)
    run_cases(rep, drv, mm, stats)
    flush_violations(rep, stats)
    # 1d. repeated fields in the Thrift structures (second pass of thrift_fm runs on the exact arena)
    rf = gen_repeated_fields(random.Random(vlib.SEED * 139 + 13), tier)
    tie_rf = run_cases(rep, drv, rf, stats)
    flush_violations(rep, stats)
    # 1e. list counts at the parser's limits
    lim = gen_count_limits(random.Random(vlib.SEED * 149 + 17), tier)
    run_cases(rep, drv, lim, stats)
    flush_violations(rep, stats)
    # 2. generated cases
    total = 300_000 if tier == "quick" else 5_000_000
    chunk = 250_000
    done = 0
    tie_pool = [r for r in suite_res if tie_ok(r[0])] + [r for r in tie_rf if tie_ok(r[0])]
    while done < total:
        n = min(chunk, total - done)
        cases = gen_cases(n, rng)
        res = run_cases(rep, drv, cases, stats)
        if len(tie_pool) < 400000:
            tie_pool += [r for r in res if TIE.get(r[0].op) and tie_ok(r[0])][: 400000 - len(tie_pool)]
        done += len(cases)
        flush_violations(rep, stats)
        if len(rep.violations) >= 5:
            break
    rep.cov["calls"] = done + len(corpus) + len(suite) + len(mm) + len(rf) + len(lim)
    rep.cov["by_entry_point"] = stats["by_op"]
    rep.cov["input_distribution"] = stats["by_tag"]
    rep.cov["ub_reports"] = stats["ub"]
    rep.cov["cases_skipped_after_hang_budget"] = stats.get("hang_skipped", 0)
    rep.cov["page_header_statistics_views_outside_input"] = stats.get("statsview", 0)
    rep.cov["ub_shift_reports"] = sum(v["count"] for k, v in stats["ub"].items() if k.startswith("shift"))
    rep.cov["ub_reports_memory_safe_in_asan_only_build"] = stats["ub_memory_safe"]
    rep.cov["harness_wall_s"] = round(time.time() - t0, 1)
    missing = [op for op in ALL_OPS if op not in stats["by_op"]]
    if missing:
        rep.tie_broken("entry points without a single case: " + ", ".join(missing))
    for c, li, k, d, _o in (tie_pool[:3] if tie_pool else []):
        rep.sample({"case": li[:200], "class": k})
    # 3. model tie
    try:
        model_tie(rep, tie_pool, tier)
    except vlib.BuildError as e:
        rep.tie_broken("model runner does not build: " + str(e)[:400])
    return rep.finish()


# ------------------------------------------------------------------------------------------------ model tie
# The SAME malformed inputs go through the extracted models (this engine's runner for the level decoders and the
# guarded decode_all; the enc / enc2 / comp / thrift runners for the rest).  Compared: result class and reported
# size (decoded values too where both sides print them).  A difference where the implementation is safe is
# rep.tie_broken: a new over-read introduced by a change disagrees with a model that says ERR.

TIE_MAX_COUNT = 3000        # inductive nat fuel / output lists in the extracted models
TIE_MAX_LEN = 400


def _hx(b):
    return hexs(b) if b else "-"


def _tie_line(c):
    """-> (engine, runner line) or None when the case is outside what the runner accepts"""
    if c.data is None or len(c.data) > (2500 if c.tag == "repeated" else TIE_MAX_LEN) or c.count > TIE_MAX_COUNT or c.count < -TIE_MAX_COUNT:
        return None
    op = c.op
    if (op in NULL_FLAGS and c.p != 0) or (op == "rle_levels_pref" and c.cap == 0):
        return None                     # NULL-argument variants exist only in the C API
    if op in ("rle_levels", "rle_levels_pref", "rle_all"):
        return "dec", c.line()
    if op.startswith("plain_"):
        t = op[6:]
        if t == "disp" or c.count < 0:
            return None
        if t == "flba":
            if not (0 < c.p < 100000):
                return None
            t = "flba%d" % c.p
        return "enc2", f"plain_dec {t} {c.count} {_hx(c.data)}"
    if op == "delta_i32":
        return "enc2", f"d32_dec {c.count} {_hx(c.data)}"
    if op == "delta_i64":
        return "enc2", f"d64_dec {c.count} {_hx(c.data)}"
    if op == "delta_len":
        return "enc2", f"dl_dec {c.count} {_hx(c.data)}"
    if op == "delta_str":
        return "enc2", f"ds_dec {c.count} {c.cap} {_hx(c.data)}"
    if op in ("bss_f32", "bss_f64"):
        return ("enc2", f"bss_dec {op[4:]} {c.count} {_hx(c.data)}") if c.count >= 0 else None
    if op == "bss_flba":
        return ("enc2", f"bss_dec {c.p} {c.count} {_hx(c.data)}") if (c.count >= 0 and 0 < c.p < 100000) else None
    if op.startswith("dict_"):
        # Enc/DictModel.v (enc2) instantiated with the guarded index codec of Dec/DecSafety.v: the instance
        # Properties_C08.v speaks about (the enc2 runner's own instance predates the width guard of cf4f4e1)
        if c.data2 is None or not (-I31 <= c.p < I31):
            return None
        return "dec", c.line()
    if op == "snappy":
        return "comp", f"sdec {c.cap} {_hx(c.data)}"
    if op == "lz4":
        return "comp", f"ldec {c.cap} {_hx(c.data)}"
    if op == "snappy_len":
        return "comp", f"slen {_hx(c.data)}"
    if op == "thrift_ph":
        return "thrift", f"pph {_hx(c.data)}"
    if op == "thrift_fm":
        return "thrift", f"pfm {_hx(c.data)}"
    return None


TIE = {op: True for op in ALL_OPS if op not in ("rle_stream", "plain_disp", "gzip", "zstd", "bitreader", "bitunpack", "thrift_prim")}


def tie_ok(c):
    return _tie_line(c) is not None


def _model_view(c, ans):
    """(class, size or None, values or None) of a runner answer"""
    t = ans.split()
    if not t:
        return "RUNNER", None, None
    if t[0] == "SKIP":
        return "SKIP", None, None
    if t[0] in ("ERR", "FAULT"):
        return t[0], None, None
    if t[0] != "OK":
        return "RUNNER", None, None
    op = c.op
    vals = None
    for x in t[1:]:
        if x.startswith("v="):
            vals = x[2:]
    if op in ("rle_levels", "rle_all"):
        return "OK", int(t[1]), vals
    if op == "rle_levels_pref":
        return "OK", (int(t[1]), int(t[2])), vals
    if op.startswith("plain_") or op.startswith("delta_") or op == "thrift_ph" or op == "snappy_len":
        return "OK", int(t[1]), None
    if op in ("snappy", "lz4"):
        h = t[1] if len(t) > 1 else "-"
        return "OK", (0 if h == "-" else len(h) // 2), None
    if op.startswith("bss_") or op.startswith("dict_"):
        return "OK", max(c.count, 0), None
    return "OK", None, None


def _impl_view(c, k, d, line_out):
    if k != "OK":
        return k, None, None
    t = line_out.split()
    vals = None
    for x in t[1:]:
        if x.startswith("v="):
            vals = x[2:]
    if c.op == "rle_levels_pref":
        return "OK", (int(t[1]), int(t[2])), vals
    if c.op == "delta_str":
        return "OK", int(t[1]), None
    if c.op == "thrift_fm":
        return "OK", None, None
    return "OK", int(t[1]), vals


def model_tie(rep, pool, tier):
    """pool: list of (case, line, class, detail, raw driver output)"""
    per_op = 3000 if tier == "quick" else 8000
    byop = {}
    for item in pool:
        byop.setdefault(item[0].op, []).append(item)
    chosen = []
    pick = random.Random(vlib.SEED * 31 + 5)
    for op, items in sorted(byop.items()):
        pick.shuffle(items)
        must = [it for it in items if it[0].tag in ("nesting", "repeated")]   # the deterministic suites are always compared
        rest = [it for it in items if it[0].tag not in ("nesting", "repeated")]
        chosen += must + rest[:per_op]
    jobs = {}
    for item in chosen:
        tl = _tie_line(item[0])
        if tl:
            jobs.setdefault(tl[0], []).append((item, tl[1]))
    summary = {}
    t0 = time.time()
    for eng, lst in sorted(jobs.items()):
        try:
            runner = build_runner(eng)
        except vlib.BuildError as e:
            rep.tie_broken(f"model runner of engine {eng} does not build: " + str(e)[:300])
            continue
        outs, probs = run_sharded(runner, [ln for _, ln in lst], timeout=1800)
        for pr in probs:
            rep.tie_broken(f"model runner {eng} died (rc={pr[1]}): {pr[2][-300:]}", pr[3])
        for ((c, li, k, d, raw), ml), ans in zip(lst, outs):
            st = summary.setdefault(c.op, {"compared": 0, "agree": 0, "skipped": 0, "engine": eng})
            try:
                mv = _model_view(c, ans)
            except Exception:                   # noqa: BLE001
                mv = ("RUNNER", None, None)
            if mv[0] in ("SKIP",) or ans.startswith("FAULT died"):
                st["skipped"] += 1
                continue
            if mv[0] == "RUNNER":
                rep.tie_broken(f"runner {eng} could not answer: {ans[:120]}", ml[:300])
                continue
            if k not in ("OK", "ERR"):
                continue                      # already a violation (or UB) on the implementation side
            try:
                iv = _impl_view(c, k, d, raw)
            except Exception:                   # noqa: BLE001
                rep.violation(f"{c.op}: driver output cannot be interpreted: {raw[:200]!r}", {"case": li, "entry_point": c.op})
                continue
            st["compared"] += 1
            same = (iv[0] == mv[0]) and (iv[1] is None or mv[1] is None or iv[1] == mv[1]) and \
                   (iv[2] is None or mv[2] is None or iv[2] == mv[2])
            if same:
                st["agree"] += 1
            else:
                rep.tie_broken(f"{c.op}: implementation says {raw[:100]!r}, model ({eng} runner) says {ans[:100]!r}",
                               {"case": li[:400], "model_line": ml[:400]}, key=f"tie:{c.op}")
    rep.cov["model_tie"] = summary
    rep.cov["model_tie_wall_s"] = round(time.time() - t0, 1)
    rep.cov["model_tie_not_tied"] = ("rle_stream (dynamic op sequence; the stream decoder is tied by C11), plain_disp (a switch), "
                                      "gzip / zstd (external libraries: Section variables, nothing executable), bitreader (no model)")


def replay(path):
    j = json.loads(Path(path).read_text())
    case = j.get("replay", {}).get("case")
    if not case:
        print(json.dumps(j, indent=1))
        return 1
    drv = build_driver("h_dec", extra=WRAP)
    out, rc, err = vlib.run_lines(drv, [case])
    c = parse_line(case)
    print("case:", case[:400])
    print("implementation (ASan+UBSan):", out, "rc", rc)
    k, d = judge(c, out[0] if out else "")
    bad = k in ("FAULT", "TIMEOUT", "VIOL") or rc != 0
    if k == "UB":
        drv2 = build_asan_only()
        out2, rc2, err2 = vlib.run_lines(drv2, [case])
        print("implementation (ASan only):", out2, "rc", rc2)
        k2, d2 = judge(c, out2[0] if out2 else "")
        bad = k2 in ("FAULT", "TIMEOUT", "VIOL", "UB") or rc2 != 0
    print("verdict:", "property violated" if bad else "holds on this case")
    return 1 if bad else 0
