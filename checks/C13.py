"""C13 - Thrift metadata round-trips and is genuine compact protocol.

Proof: coq/theories/Props/Properties_C13.v (specification Thrift/ThriftSpec.v; model Thrift/ThriftModel.v of
       thrift_encode.c / thrift_decode.c; descriptor tables Thrift/ParquetMetaDesc.v and the generic
       writer/parser Thrift/ParquetMetaModel.v for parquet_types.c).
Tie:   (a) THRIFT_MAX_NESTING, the CARQUET_MAX_* limits, thrift_type_t, status codes, logical-type and
           page-type enumerators regenerated from the sources;
       (b) on generated FileMetaData / PageHeader structures and on primitive cases:
           property oracle on the implementation (independent of the model):
             write -> parse gives norm(m) field by field, consumed == produced;
             an independent Python decoder (checks/thrift_ref.py) reads exactly the expected field ids /
             wire types / values from carquet's bytes;
             carquet parses what the independent encoder produces for the same structure (long-form
             headers, padded varints, long list headers, shuffled fields, unknown fields of every wire type
             at every struct, nesting up to and beyond the limit);
           model tie: extracted model writer bytes == carquet bytes; extracted model parser == carquet
             parser (class, status code, consumed, fields) on valid, mutated, truncated and random bytes;
             extracted Coq spec_decode == the independent Python decoder.
"""
import random, json, sys, os, time, re
sys.setrecursionlimit(20000)
from pathlib import Path
sys.path.insert(0, str(Path(__file__).resolve().parent))
import vlib
from vlib import Report, prelude, build_driver, build_runner, run_sharded, log
import thrift_ref as tr

PID = "C13"
DRV_EXTRA = ["-Wl,--wrap=thrift_read_struct_end"]
I32MIN, I32MAX, I64MIN, I64MAX = -(1 << 31), (1 << 31) - 1, -(1 << 63), (1 << 63) - 1
MAXNEST = 32


# =============================================================================== generic trees (text)
class R(list):
    pass


class A(list):
    pass


def shex(z):
    return ("-%x" % -z) if z < 0 else ("%x" % z)


def mtext(m):
    if isinstance(m, R):
        return "r(" + ",".join(mtext(x) for x in m) + ")"
    if isinstance(m, A):
        return "a(" + ",".join(mtext(x) for x in m) + ")"
    if m is None:
        return "n"
    if isinstance(m, (bytes, bytearray)):
        return "b" + (bytes(m).hex() if len(m) else "-")
    if m == "x":
        return "x"
    return "i" + shex(int(m))


def mparse(s):
    pos = [0]

    def go():
        c = s[pos[0]]
        pos[0] += 1
        if c == 'i':
            st = pos[0]
            if s[pos[0]] == '-':
                pos[0] += 1
            while pos[0] < len(s) and s[pos[0]] in "0123456789abcdef":
                pos[0] += 1
            t = s[st:pos[0]]
            return -int(t[1:], 16) if t[0] == '-' else int(t, 16)
        if c == 'n':
            return None
        if c == 'x':
            return "x"
        if c == 'b':
            if s[pos[0]] == '-':
                pos[0] += 1
                return b""
            st = pos[0]
            while pos[0] < len(s) and s[pos[0]] in "0123456789abcdef":
                pos[0] += 1
            return bytes.fromhex(s[st:pos[0]])
        if c in 'ra':
            assert s[pos[0]] == '('
            pos[0] += 1
            items = []
            while s[pos[0]] != ')':
                items.append(go())
                if s[pos[0]] == ',':
                    pos[0] += 1
            pos[0] += 1
            return R(items) if c == 'r' else A(items)
        raise ValueError("mparse " + c)
    return go()


# =============================================================================== the structures
# Slot layouts: coq/theories/Thrift/ParquetMetaDesc.v == harness/h_thrift.c.
# What follows is written from parquet.thrift and from the presence rules of the writers in
# parquet_types.c; it is the property's oracle and shares nothing with the Coq tables.
LT_STRING, LT_MAP, LT_LIST, LT_ENUM, LT_DECIMAL, LT_DATE, LT_TIME, LT_TIMESTAMP, LT_INTEGER, LT_NULL, LT_JSON, \
    LT_BSON, LT_UUID, LT_FLOAT16 = range(1, 15)
# carquet id -> parquet.thrift LogicalType union field id
LT_FIELD = {LT_STRING: 1, LT_MAP: 2, LT_LIST: 3, LT_ENUM: 4, LT_DECIMAL: 5, LT_DATE: 6, LT_TIME: 7, LT_TIMESTAMP: 8,
            LT_INTEGER: 10, LT_NULL: 11, LT_JSON: 12, LT_BSON: 13, LT_UUID: 14, LT_FLOAT16: 15}
PAGE_DATA, PAGE_INDEX, PAGE_DICT, PAGE_V2 = 0, 1, 2, 3

ZSTATS = lambda: R([None, None, 0, 0, 0, 0, None, None, 0, 0, 0, 0])
ZLT = lambda: R([0] * 7)


def S(fields):
    return ('struct', fields)


# FULL[0]: also emit / expect the fields of parquet.thrift that carquet's parser stores but its writer never emits
# (Statistics 7, 8; ColumnMetaData 8, 13; DataPageHeaderV2 8) - only an independent encoder produces them
FULL = [False]


def tv_stats(r):
    f = []
    if r[0]:
        f.append((1, ('binary', r[0])))
    if r[1]:
        f.append((2, ('binary', r[1])))
    if r[2]:
        f.append((3, ('i64', r[3])))
    if r[4]:
        f.append((4, ('i64', r[5])))
    if r[6]:
        f.append((5, ('binary', r[6])))
    if r[7]:
        f.append((6, ('binary', r[7])))
    if FULL[0] and r[8]:
        f.append((7, ('bool', bool(r[9]))))
    if FULL[0] and r[10]:
        f.append((8, ('bool', bool(r[11]))))
    return S(f)


def norm_stats(r):
    ex = [int(bool(r[8])), int(bool(r[9])) if r[8] else 0, int(bool(r[10])), int(bool(r[11])) if r[10] else 0] if FULL[0] else [0, 0, 0, 0]
    return R([r[0] or None, r[1] or None, int(bool(r[2])), r[3] if r[2] else 0, int(bool(r[4])), r[5] if r[4] else 0,
              r[6] or None, r[7] or None] + ex)


def tv_lt(r):
    i = r[0]
    if i in (LT_DECIMAL,):
        inner = S([(1, ('i32', r[1])), (2, ('i32', r[2]))])
    elif i in (LT_TIME, LT_TIMESTAMP):
        unit = 1 if r[5] == 0 else 2 if r[5] == 1 else 3
        inner = S([(1, ('bool', bool(r[6]))), (2, S([(unit, S([]))]))])
    elif i == LT_INTEGER:
        inner = S([(1, ('byte', r[3])), (2, ('bool', bool(r[4])))])
    elif i in LT_FIELD:
        inner = S([])
    else:
        return S([])
    return S([(LT_FIELD[i], inner)])


def norm_lt(r):
    i = r[0]
    if i == LT_DECIMAL:
        return R([i, r[1], r[2], 0, 0, 0, 0])
    if i in (LT_TIME, LT_TIMESTAMP):
        return R([i, 0, 0, 0, 0, r[5] if r[5] in (0, 1) else 2, int(bool(r[6]))])
    if i == LT_INTEGER:
        return R([i, 0, 0, r[3], int(bool(r[4])), 0, 0])
    if i in LT_FIELD:
        return R([i, 0, 0, 0, 0, 0, 0])
    return ZLT()


def tv_se(r):
    f = []
    if r[0]:
        f.append((1, ('i32', r[1])))
    if r[2] > 0:
        f.append((2, ('i32', r[2])))
    if r[3]:
        f.append((3, ('i32', r[4])))
    if r[5] is not None:
        f.append((4, ('binary', r[5])))
    if r[6] > 0:
        f.append((5, ('i32', r[6])))
    if r[7]:
        f.append((6, ('i32', r[8])))
    if r[9] != 0:
        f.append((7, ('i32', r[9])))
    if r[10] != 0:
        f.append((8, ('i32', r[10])))
    if r[11]:
        f.append((9, ('i32', r[12])))
    if r[13] and r[14][0] != 0:
        f.append((10, tv_lt(r[14])))
    return S(f)


def norm_se(r):
    haslt = bool(r[13] and r[14][0] != 0)
    return R([int(bool(r[0])), r[1] if r[0] else 0, r[2] if r[2] > 0 else 0, int(bool(r[3])), r[4] if r[3] else 0, r[5],
              r[6] if r[6] > 0 else 0, int(bool(r[7])), r[8] if r[7] else 0, r[9], r[10], int(bool(r[11])),
              r[12] if r[11] else 0, int(haslt), norm_lt(r[14]) if haslt else ZLT()])


def tv_kv(r):
    f = [(1, ('binary', r[0] if r[0] is not None else b""))]
    if r[1] is not None:
        f.append((2, ('binary', r[1])))
    return S(f)


def norm_kv(r):
    return R([r[0] if r[0] is not None else b"", r[1]])


def tv_cm(r):
    f = [(1, ('i32', r[0])), (2, ('list', 5, [('i32', x) for x in r[1]])),
         (3, ('list', 8, [('binary', x if x is not None else b"") for x in r[2]])),
         (4, ('i32', r[3])), (5, ('i64', r[4])), (6, ('i64', r[5])), (7, ('i64', r[6])), (9, ('i64', r[8]))]
    if r[9]:
        f.append((10, ('i64', r[10])))
    if r[11]:
        f.append((11, ('i64', r[12])))
    if r[13]:
        f.append((12, tv_stats(r[14])))
    if r[16]:
        f.append((14, ('i64', r[17])))
    if r[18]:
        f.append((15, ('i32', r[19])))
    if FULL[0]:
        if len(r[7]):
            f.append((8, ('list', 12, [tv_kv(k) for k in r[7]])))
        if len(r[15]):
            f.append((13, ('list', 12, [S([(1, ('i32', e[0])), (2, ('i32', e[1])), (3, ('i32', e[2]))]) for e in r[15]])))
        f.sort(key=lambda x: x[0])
    return S(f)


def norm_cm(r):
    return R([r[0], A(list(r[1])), A([x if x is not None else b"" for x in r[2]]), r[3], r[4], r[5], r[6],
              A([norm_kv(k) for k in r[7]]) if FULL[0] else A([]), r[8],
              int(bool(r[9])), r[10] if r[9] else 0, int(bool(r[11])), r[12] if r[11] else 0,
              int(bool(r[13])), norm_stats(r[14]) if r[13] else ZSTATS(), A([R(list(e)) for e in r[15]]) if FULL[0] else A([]),
              int(bool(r[16])), r[17] if r[16] else 0, int(bool(r[18])), r[19] if r[18] else 0])


ZCM = lambda: R([0, A([]), A([]), 0, 0, 0, 0, A([]), 0, 0, 0, 0, 0, 0, ZSTATS(), A([]), 0, 0, 0, 0])


def tv_cc(r):
    f = []
    if r[0] is not None:
        f.append((1, ('binary', r[0])))
    f.append((2, ('i64', r[1])))
    if r[2]:
        f.append((3, tv_cm(r[3])))
    if r[4]:
        f.append((4, ('i64', r[5])))
    if r[6]:
        f.append((5, ('i32', r[7])))
    if r[8]:
        f.append((6, ('i64', r[9])))
    if r[10]:
        f.append((7, ('i32', r[11])))
    return S(f)


def norm_cc(r):
    return R([r[0], r[1], int(bool(r[2])), norm_cm(r[3]) if r[2] else ZCM(), int(bool(r[4])), r[5] if r[4] else 0,
              int(bool(r[6])), r[7] if r[6] else 0, int(bool(r[8])), r[9] if r[8] else 0, int(bool(r[10])),
              r[11] if r[10] else 0])


def tv_rg(r):
    f = [(1, ('list', 12, [tv_cc(c) for c in r[0]])), (2, ('i64', r[1])), (3, ('i64', r[2]))]
    if r[3]:
        f.append((5, ('i64', r[4])))
    if r[5]:
        f.append((6, ('i64', r[6])))
    if r[7]:
        f.append((7, ('i16', r[8])))
    return S(f)


def norm_rg(r):
    return R([A([norm_cc(c) for c in r[0]]), r[1], r[2], int(bool(r[3])), r[4] if r[3] else 0, int(bool(r[5])),
              r[6] if r[5] else 0, int(bool(r[7])), r[8] if r[7] else 0])


def tv_fm(r):
    f = [(1, ('i32', r[0])), (2, ('list', 12, [tv_se(e) for e in r[1]])), (3, ('i64', r[2])),
         (4, ('list', 12, [tv_rg(g) for g in r[3]]))]
    if len(r[4]) > 0:
        f.append((5, ('list', 12, [tv_kv(k) for k in r[4]])))
    if r[5] is not None:
        f.append((6, ('binary', r[5])))
    return S(f)


def norm_fm(r):
    return R([r[0], A([norm_se(e) for e in r[1]]), r[2], A([norm_rg(g) for g in r[3]]), A([norm_kv(k) for k in r[4]]), r[5]])


def tv_ph(r):
    f = [(1, ('i32', r[0])), (2, ('i32', r[1])), (3, ('i32', r[2]))]
    if r[3]:
        f.append((4, ('i32', r[4])))
    if r[0] == PAGE_DATA:
        g = [(1, ('i32', r[5])), (2, ('i32', r[6])), (3, ('i32', r[7])), (4, ('i32', r[8]))]
        if r[9]:
            g.append((5, tv_stats(r[10])))
        f.append((5, S(g)))
    elif r[0] == PAGE_DICT:
        f.append((7, S([(1, ('i32', r[11])), (2, ('i32', r[12])), (3, ('bool', bool(r[13])))])))
    elif r[0] == PAGE_V2:
        f.append((8, S([(1, ('i32', r[14])), (2, ('i32', r[15])), (3, ('i32', r[16])), (4, ('i32', r[17])),
                        (5, ('i32', r[18])), (6, ('i32', r[19])), (7, ('bool', bool(r[20])))] +
                       ([(8, tv_stats(ZSTATS()))] if FULL[0] and r[21] else []))))
    return S(f)


def norm_ph(r):
    o = R([r[0], r[1], r[2], int(bool(r[3])), r[4] if r[3] else 0] + [0] * 5 + [ZSTATS()] + [0] * 11)
    if r[0] == PAGE_DATA:
        o[5:9] = r[5:9]
        o[9] = int(bool(r[9]))
        o[10] = norm_stats(r[10]) if r[9] else ZSTATS()
    elif r[0] == PAGE_DICT:
        o[11:13] = r[11:13]
        o[13] = int(bool(r[13]))
    elif r[0] == PAGE_V2:
        o[14:20] = r[14:20]
        o[20] = int(bool(r[20]))
        o[21] = int(bool(r[21])) if FULL[0] else 0
    return o


TV = {"fm": tv_fm, "ph": tv_ph}
NORM = {"fm": norm_fm, "ph": norm_ph}


# ---- what a consumer of the C struct sees: unions are read through the member selected by the tag
def view_lt(r):
    return norm_lt(r) if r[0] in LT_FIELD else R([r[0], 0, 0, 0, 0, 0, 0])


def view_lt_exact(r):
    i = r[0]
    if i == LT_DECIMAL:
        return R([i, r[1], r[2], 0, 0, 0, 0])
    if i in (LT_TIME, LT_TIMESTAMP):
        return R([i, 0, 0, 0, 0, r[5], r[6]])
    if i == LT_INTEGER:
        return R([i, 0, 0, r[3], r[4], 0, 0])
    return R([i, 0, 0, 0, 0, 0, 0])


def view_fm(r, mask_lt=False):
    o = R(r)
    o[1] = A([R(list(e[:14]) + [R([e[14][0]] + [0] * 6) if mask_lt else view_lt_exact(e[14])]) for e in r[1]])
    return o


def view_ph(r, members=True):
    o = R(list(r[:5]) + [0] * 5 + [ZSTATS()] + [0] * 11)
    if not members:
        return o
    if r[0] == PAGE_DATA:
        o[5:11] = r[5:11]
    elif r[0] == PAGE_DICT:
        o[11:14] = r[11:14]
    elif r[0] == PAGE_V2:
        o[14:22] = r[14:22]
    return o


# =============================================================================== generators
EDGE32 = [0, 1, -1, 63, 64, -64, -65, 127, 128, 8191, 8192, 16383, 16384, I32MAX, I32MIN, I32MAX - 1, I32MIN + 1,
          (1 << 28) - 1, 1 << 28]
EDGE64 = EDGE32 + [I64MAX, I64MIN, I64MAX - 1, I64MIN + 1, 1 << 32, -(1 << 32), (1 << 56) - 1, 1 << 56, (1 << 62), -(1 << 62)]


def g32(rng):
    return rng.choice(EDGE32) if rng.random() < 0.5 else rng.randrange(I32MIN, I32MAX + 1)


def g64(rng):
    return rng.choice(EDGE64) if rng.random() < 0.5 else rng.randrange(I64MIN, I64MAX + 1)


def gname(rng, allow_null=True):
    """C string content: no NUL byte; empty / ASCII / arbitrary non-ASCII bytes / long"""
    c = rng.random()
    if allow_null and c < 0.08:
        return None
    if c < 0.2:
        return b""
    if c < 0.55:
        return bytes(rng.choice(b"abcdefghijklmnopqrstuvwxyz_0123456789") for _ in range(rng.randrange(1, 20)))
    if c < 0.9:
        return bytes(rng.randrange(1, 256) for _ in range(rng.randrange(1, 40)))
    n = rng.choice([127, 128, 129, 300, 1000, 16383, 16384]) if rng.random() < 0.6 else rng.randrange(100, 3000)
    return bytes(rng.randrange(1, 256) for _ in range(n))


def gbin(rng):
    """arbitrary binary min/max (NUL bytes allowed); None = NULL pointer; b'' = pointer with length 0"""
    c = rng.random()
    if c < 0.2:
        return None
    if c < 0.27:
        return b""
    if c < 0.9:
        return bytes(rng.getrandbits(8) for _ in range(rng.randrange(1, 24)))
    return bytes(rng.getrandbits(8) for _ in range(rng.choice([127, 128, 129, 500, 2000])))


def gflag(rng, p=0.5):
    return 1 if rng.random() < p else 0


def gen_stats(rng):
    return R([gbin(rng), gbin(rng), gflag(rng), g64(rng), gflag(rng), g64(rng), gbin(rng), gbin(rng),
              gflag(rng, 0.3), gflag(rng), gflag(rng, 0.3), gflag(rng)])      # 8..11: parsed, never written


def gen_lt(rng, i=None):
    if i is None:
        i = rng.choice(list(LT_FIELD) + [0])
    r = ZLT()
    r[0] = i
    if i == LT_DECIMAL:
        r[1], r[2] = g32(rng), g32(rng)
    elif i in (LT_TIME, LT_TIMESTAMP):
        r[5], r[6] = rng.choice([0, 1, 2]), gflag(rng)
    elif i == LT_INTEGER:
        r[3], r[4] = rng.choice([8, 16, 32, 64, -128, 127, 0, -1]), gflag(rng)
    return r


def gen_se(rng, lt_id=None):
    r = R([gflag(rng), rng.choice([0, 1, 2, 3, 4, 5, 6, 7, g32(rng)]),
           rng.choice([0, 0, 1, 12, 16, -1, I32MAX, g32(rng)]),
           gflag(rng), rng.choice([0, 1, 2, g32(rng)]), gname(rng),
           rng.choice([0, 0, 1, 2, 300, -1, I32MAX, g32(rng)]),
           gflag(rng), rng.choice([-1, 0, 5, 21, g32(rng)]),
           rng.choice([0, 0, 1, -1, 38, g32(rng)]), rng.choice([0, 0, 1, -1, 38, g32(rng)]),
           gflag(rng), g32(rng), gflag(rng, 0.6), gen_lt(rng, lt_id)])
    return r


def gen_kv(rng):
    return R([gname(rng, allow_null=rng.random() < 0.3), gname(rng)])


def glist_len(rng, cap):
    c = rng.random()
    if c < 0.45:
        return rng.choice([0, 1, 2, 13, 14, 15, 16, 17])
    return rng.randrange(0, cap + 1)


def gen_cm(rng):
    return R([g32(rng), A([rng.choice([0, 2, 3, 4, 5, 6, 7, 8, 9, g32(rng)]) for _ in range(min(100, glist_len(rng, 20)))]),
              A([gname(rng, allow_null=rng.random() < 0.1) for _ in range(min(100, glist_len(rng, 18)))]),
              rng.choice([0, 1, 2, 5, 6, 7, g32(rng)]), g64(rng), g64(rng), g64(rng),
              A([gen_kv(rng) for _ in range(rng.choice([0, 0, 2, 15]))]),      # never written
              g64(rng), gflag(rng), g64(rng), gflag(rng), g64(rng), gflag(rng), gen_stats(rng),
              A([R([g32(rng), g32(rng), g32(rng)]) for _ in range(rng.choice([0, 0, 3, 16]))]),   # never written
              gflag(rng), g64(rng), gflag(rng), g32(rng)])


def gen_cc(rng):
    return R([gname(rng) if rng.random() < 0.3 else None, g64(rng), gflag(rng, 0.8), gen_cm(rng), gflag(rng), g64(rng),
              gflag(rng), g32(rng), gflag(rng), g64(rng), gflag(rng), g32(rng)])


def gen_rg(rng, ncols):
    return R([A([gen_cc(rng) for _ in range(ncols)]), g64(rng), g64(rng), gflag(rng), g64(rng), gflag(rng), g64(rng),
              gflag(rng), rng.choice([0, 1, -1, 32767, -32768, rng.randrange(-32768, 32768)])])


def gen_fm(rng, nschema, nrg, ncols, nkv):
    lts = list(LT_FIELD)
    schema = A([gen_se(rng, lts[i % len(lts)] if rng.random() < 0.5 else None) for i in range(nschema)])
    return R([g32(rng), schema, g64(rng), A([gen_rg(rng, ncols) for _ in range(nrg)]),
              A([gen_kv(rng) for _ in range(nkv)]), gname(rng)])


def gen_ph(rng, ptype=None):
    if ptype is None:
        ptype = rng.choice([PAGE_DATA, PAGE_DATA, PAGE_DICT, PAGE_V2, PAGE_INDEX, 4, -1, g32(rng)])
    r = R([ptype, g32(rng), g32(rng), gflag(rng), g32(rng)] + [0] * 5 + [ZSTATS()] + [0] * 11)
    if ptype == PAGE_DATA:
        r[5:9] = [g32(rng), rng.choice([0, 2, 3, 8, g32(rng)]), rng.choice([3, g32(rng)]), rng.choice([3, g32(rng)])]
        r[9] = gflag(rng, 0.6)
        r[10] = gen_stats(rng)
    elif ptype == PAGE_DICT:
        r[11:14] = [g32(rng), rng.choice([0, 2, g32(rng)]), gflag(rng)]
    elif ptype == PAGE_V2:
        r[14:20] = [g32(rng) for _ in range(6)]
        r[20] = gflag(rng)
        r[21] = gflag(rng)       # never written
    return r


# ---- unknown field payloads of every wire type
def gen_unknown(rng, depth_budget):
    """a value of an arbitrary wire type, nesting at most depth_budget (>= 1) levels"""
    kinds = ['bool', 'byte', 'i16', 'i32', 'i64', 'double', 'binary', 'uuid']
    if depth_budget > 1:
        kinds += ['list', 'set', 'map', 'struct'] * 2
    k = rng.choice(kinds)
    if k == 'bool':
        return ('bool', rng.random() < 0.5)
    if k == 'byte':
        return ('byte', rng.randrange(-128, 128))
    if k == 'i16':
        return ('i16', rng.choice([0, -1, 32767, -32768, rng.randrange(-32768, 32768)]))
    if k == 'i32':
        return ('i32', g32(rng))
    if k == 'i64':
        return ('i64', g64(rng))
    if k == 'double':
        return ('double', rng.getrandbits(64))
    if k == 'binary':
        return ('binary', bytes(rng.getrandbits(8) for _ in range(rng.choice([0, 1, 5, 130]))))
    if k == 'uuid':
        return ('uuid', bytes(rng.getrandbits(8) for _ in range(16)))
    if k in ('list', 'set'):
        n = rng.choice([0, 1, 2, 3, 14, 15, 16])
        proto = gen_unknown(rng, depth_budget - 1)
        items = [proto] + [same_type(rng, proto, depth_budget - 1) for _ in range(n - 1)] if n else []
        return (k, tr.CODE[proto[0]], items)
    if k == 'map':
        n = rng.choice([0, 1, 2, 5])
        kp, vp = gen_unknown(rng, 1), gen_unknown(rng, depth_budget - 1)
        return ('map', [(same_type(rng, kp, 1), same_type(rng, vp, depth_budget - 1)) for _ in range(n)])
    # struct
    n = rng.choice([0, 1, 2, 4])
    fields, fid = [], 0
    for _ in range(n):
        fid = rng.choice([fid + 1, fid + 15, fid + 16, fid + 200, rng.randrange(-32768, 32768)])
        fid = max(-32768, min(32767, fid))
        fields.append((fid, gen_unknown(rng, depth_budget - 1)))
    return ('struct', fields)


def same_type(rng, proto, budget):
    """another value with the same wire type (and, for containers, any contents)"""
    k = proto[0]
    if k in ('list', 'set'):
        et = proto[1]
        n = rng.choice([0, 1, 2])
        if proto[2]:
            return (k, et, [same_type(rng, proto[2][0], budget - 1) for _ in range(n)])
        return (k, et, [])
    if k == 'map':
        if proto[1]:
            return ('map', [(same_type(rng, proto[1][0][0], 1), same_type(rng, proto[1][0][1], budget - 1))
                            for _ in range(rng.choice([0, 1, 2]))])
        return ('map', [])
    if k == 'struct':
        return ('struct', [(f, same_type(rng, v, budget - 1)) for f, v in proto[1]][:rng.choice([0, 1, 9])])
    for _ in range(50):
        v = gen_unknown(rng, 1)
        if v[0] == k:
            return v
    return proto


def nested_lists(d, leaf=('byte', 7)):
    """a value of nesting depth d made of one-element lists"""
    v = leaf
    for _ in range(d - 1):
        v = ('list', tr.CODE[v[0]], [v])
    return v


def nested_structs(d):
    v = ('struct', [])
    for _ in range(d - 1):
        v = ('struct', [(1, v)])
    return v


def skip_ok(v, dp, level):
    """does carquet's (repaired) skip accept v at skip depth dp with `level` structs open?"""
    if dp >= MAXNEST:
        return False
    k = v[0]
    if k in ('list', 'set'):
        return all(skip_ok(x, dp + 1, level) for x in v[2])
    if k == 'map':
        return all(skip_ok(a, dp + 1, level) and skip_ok(b, dp + 1, level) for a, b in v[1])
    if k == 'struct':
        if level >= MAXNEST:
            return False
        return all(skip_ok(x, dp + 1, level + 1) for _, x in v[1])
    return True


def inject(rng, tv, level, p, budget, log_):
    """insert unknown fields (ids carquet does not know in any struct: >= 16 or <= 0) into struct nodes of tv,
    recursively; optionally shuffle the field order (any order is legal Thrift)"""
    k = tv[0]
    if k == 'struct':
        fields = [(fid, inject(rng, x, level + 1, p, budget, log_)) for fid, x in tv[1]]
        if rng.random() < 0.25 and len(fields) > 1:
            rng.shuffle(fields)
        out = []
        for i in range(len(fields) + 1):
            while rng.random() < p:
                fid = rng.choice([16, 17, 31, 32, 100, 1000, 32767, 0, -1, -32768, rng.randrange(16, 32768)])
                v = gen_unknown(rng, rng.randrange(1, budget + 1))
                log_.append((level + 1, v))
                out.append((fid, v))
            if i < len(fields):
                out.append(fields[i])
        return ('struct', out)
    if k in ('list', 'set'):
        return (k, tv[1], [inject(rng, x, level, p, budget, log_) for x in tv[2]])
    return tv


def add_unmodelled(rng, st, tv):
    """fields of parquet.thrift that carquet names but does not keep (skipped on parse): FileMetaData 7 column_orders,
    8 encryption_algorithm, 9 footer_signing_key_metadata; RowGroup 4 sorting_columns; PageHeader 6 index_page_header"""
    f = list(tv[1])
    if st == "ph":
        f.insert(rng.randrange(len(f) + 1), (6, ('struct', [])))
        return ('struct', f)
    out = []
    for fid, x in f:
        if fid == 4 and x[0] == 'list':
            rgs = []
            for g in x[2]:
                gf = list(g[1])
                sc = ('list', 12, [('struct', [(1, ('i32', rng.randrange(0, 9))), (2, ('bool', rng.random() < 0.5)), (3, ('bool', rng.random() < 0.5))])
                                   for _ in range(rng.choice([0, 1, 3, 15]))])
                gf.insert(rng.randrange(len(gf) + 1), (4, sc))
                rgs.append(('struct', gf))
            x = ('list', 12, rgs)
        out.append((fid, x))
    out.append((7, ('list', 12, [('struct', [(1, ('struct', []))]) for _ in range(rng.choice([0, 2, 16]))])))
    out.append((8, ('struct', [(1, ('struct', [(1, ('binary', b"aad")), (3, ('bool', True))]))])))
    out.append((9, ('binary', bytes(rng.getrandbits(8) for _ in range(rng.choice([0, 7, 200]))))))
    return ('struct', out)


# =============================================================================== cases
LIMITS = {}     # filled from the regenerated constants (Gen/Consts_gen.v) by run()


def limit_cases(tier, rng):
    """lists exactly at the parser's CARQUET_MAX_* limits (must round-trip) and one above (the writer accepts them, the
    parser must refuse them with an error): -> (at_limit [(st, m)], above [(st, m)])"""
    zse = lambda: R([0, 0, 0, 0, 0, None, 0, 0, 0, 0, 0, 0, 0, 0, ZLT()])
    zcc = lambda: R([None, 0, 0, ZCM(), 0, 0, 0, 0, 0, 0, 0, 0])
    zrg = lambda cols: R([A(cols), 0, 0, 0, 0, 0, 0, 0, 0])
    fm = lambda schema=(), rgs=(), kv=(): R([1, A(list(schema)), 0, A(list(rgs)), A(list(kv)), None])

    def cm_with(slot, items):
        c = ZCM()
        c[slot] = A(items)
        cc = zcc()
        cc[2], cc[3] = 1, c
        return fm(rgs=[zrg([cc])])
    at, above = [], []
    for d in (0, 1):
        dst = above if d else at
        dst.append(("fm", cm_with(1, [rng.choice([0, 3, 8]) for _ in range(LIMITS["ENCODINGS"] + d)])))
        dst.append(("fm", cm_with(2, [b"p"] * (LIMITS["PATH_ELEMENTS"] + d))))
        dst.append(("fm", fm(kv=[R([b"k", None])] * (LIMITS["KEY_VALUE_PAIRS"] + d))))
        dst.append(("fm", fm(schema=[zse() for _ in range(LIMITS["SCHEMA_ELEMENTS"] + d)])))
        dst.append(("fm", fm(rgs=[zrg([zcc() for _ in range(LIMITS["COLUMNS_PER_RG"] + d)])])))
        if tier == "thorough":
            dst.append(("fm", fm(rgs=[zrg([]) for _ in range(LIMITS["ROW_GROUPS"] + d)])))
    return at, above


def gen_struct_cases(tier, rng):
    """[(st, m)]"""
    out = []
    thorough = tier == "thorough"
    # page headers
    nph = 3000 if thorough else 500
    for i in range(nph):
        out.append(("ph", gen_ph(rng, [PAGE_DATA, PAGE_DICT, PAGE_V2, PAGE_INDEX, None][i % 5])))
    # file metadata: schema sizes 0..300
    sizes = list(range(0, 301)) if thorough else sorted(set([0, 1, 2, 13, 14, 15, 16, 17, 31, 64, 127, 128, 129, 255, 300] +
                                                            [rng.randrange(0, 301) for _ in range(12)]))
    for n in sizes:
        nrg = rng.choice([0, 1, 2]) if n > 60 else rng.choice([0, 1, 2, 3])
        ncols = rng.choice([0, 1, 3]) if n > 60 else rng.choice([0, 1, 2, 14, 15, 16])
        nkv = rng.choice([0, 1, 2, 14, 15, 16, 40])
        out.append(("fm", gen_fm(rng, n, nrg, ncols, nkv)))
    for _ in range(200 if thorough else 24):      # small footers with every column-level structure present
        out.append(("fm", gen_fm(rng, rng.choice([1, 2, 3]), 1, rng.choice([1, 2]), rng.choice([0, 1]))))
    nfm = 1500 if thorough else 160
    for _ in range(nfm):
        out.append(("fm", gen_fm(rng, glist_len(rng, 24), rng.choice([0, 1, 1, 2, 15]) if rng.random() < 0.9 else 16,
                                 rng.choice([0, 1, 2, 3, 15]), rng.choice([0, 0, 1, 3, 15, 16]))))
    return out


PRIM_EXPECT = {}     # line -> what carquet must answer (headers written by the independent encoder)


def ref_field_header(data, last):
    """independent reading of one field header: (type, id, consumed)"""
    r = tr.Reader(data)
    h = r.byte()
    ty, delta = h & 15, h >> 4
    fid = r.integer(16) if delta == 0 else last + delta
    if not -32768 <= fid <= 32767:
        raise tr.DecodeError("field id out of range")
    return ty, fid, r.p


def ref_list_header(data):
    r = tr.Reader(data)
    h = r.byte()
    n = h >> 4
    if n == 15:
        n = r.varint()
    return h & 15, n, r.p


def prim_cases(tier, rng):
    L = []
    n = 4000 if tier == "thorough" else 500
    u64s = [0, 1, 127, 128, 16383, 16384, (1 << 21) - 1, 1 << 21, (1 << 28) - 1, 1 << 28, (1 << 35) - 1, 1 << 35,
            (1 << 42) - 1, 1 << 42, (1 << 49) - 1, 1 << 49, (1 << 56) - 1, 1 << 56, (1 << 63) - 1, 1 << 63, (1 << 64) - 1]
    for v in u64s + [rng.getrandbits(rng.randrange(1, 65)) for _ in range(n // 4)]:
        L.append("wvarint %x" % v)
        L.append("rvarint 0 0 %s" % tr.uleb(v).hex())
        pad = rng.randrange(0, 4)
        if len(tr.uleb(v)) + pad <= 10:
            L.append("rvarint 0 0 %s" % tr.uleb(v, pad).hex())
    for v in EDGE64 + [g64(rng) for _ in range(n // 4)]:
        L.append("wzigzag %s" % shex(v))
        L.append("wi64 %s" % shex(v))
        L.append("wi32 %s" % shex(v))
        L.append("wi16 %s" % shex(v))
        L.append("wbyte %s" % shex(v))
        b = tr.uleb(tr.zigzag(v)).hex()
        for op in ("rzigzag", "ri64", "ri32", "ri16"):
            L.append("%s 0 0 %s" % (op, b))
    # varint decoding of arbitrary / overlong / truncated byte strings
    for _ in range(n // 2):
        k = rng.randrange(0, 13)
        bs = bytes((rng.getrandbits(7) | (0x80 if i < k - 1 or rng.random() < 0.1 else 0)) for i in range(k))
        L.append("rvarint 0 0 %s" % (bs.hex() or "-"))
        L.append("rzigzag 0 0 %s" % (bs.hex() or "-"))
    # field headers: every gap around the short/long boundary, negative deltas, id extremes, nesting levels
    ids = [-32768, -32767, -1, 0, 1, 2, 14, 15, 16, 17, 30, 31, 32, 100, 127, 128, 16383, 16384, 32766, 32767]
    for last in ids:
        for gap in list(range(-2, 19)) + [100, -100, 32767, -32768, 65535, -65535, 65521, -65521, -65520]:
            fid = last + gap
            if -32768 <= fid <= 32767:
                ty = rng.choice([1, 2, 3, 4, 5, 6, 7, 8, 9, 10, 11, 12, 13])
                lv = rng.choice([1, 1, 1, 2, 31, 32])
                lvr = "%d%s" % (lv, rng.choice(["", "", "r"]))
                L.append("wfield %d %s %d %s" % (lv, shex(last), ty, shex(fid)))
                # the same header as the independent encoder writes it, short and long form
                delta = fid - last
                bp, bv = (1, 1) if ty == 1 else (1, 0) if ty == 2 else (0, 0)
                if 1 <= delta <= 15:
                    li = "rfield %s %s %02x" % (lvr, shex(last), (delta << 4) | ty)
                    L.append(li)
                    PRIM_EXPECT[li] = "OK 1 %d %d %d %d %d 1" % (ty, fid, fid, bp, bv)
                hx = tr.uleb(tr.zigzag(fid), rng.randrange(0, 3)).hex()
                li = "rfield %s %s %02x%s" % (lvr, shex(last), ty, hx)
                L.append(li)
                PRIM_EXPECT[li] = "OK 1 %d %d %d %d %d %d" % (ty, fid, fid, bp, bv, 1 + len(hx) // 2)
    for _ in range(n):
        last, fid = rng.randrange(-32768, 32768), rng.randrange(-32768, 32768)
        L.append("wfield %d %s %d %s" % (rng.choice([0, 1, 5]), shex(last), rng.randrange(0, 16), shex(fid)))
        k = rng.randrange(0, 5)
        L.append("rfield %d %s %s" % (rng.choice([0, 1, 5]), shex(last), bytes(rng.getrandbits(8) for _ in range(k)).hex() or "-"))
    # list / map headers
    for c in list(range(0, 20)) + [127, 128, 16383, 16384, I32MAX, -1, I32MIN] + [g32(rng) for _ in range(40)]:
        ty = rng.randrange(0, 16)
        L.append("wlist %d %s" % (ty, shex(c)))
        L.append("wmap %d %d %s" % (ty, rng.randrange(0, 16), shex(c)))
        if c >= 0:
            room = rng.choice([0, c, c, c + 1, max(0, c - 1)]) if c < 300 else 0
            hdr = (bytes([(c << 4) | ty]) if c < 15 else bytes([0xF0 | ty]) + tr.uleb(c))
            li = "rlist 0 0 %s" % (hdr + bytes(min(room, 300))).hex()
            L.append(li)
            if c < 300 and room >= c:
                PRIM_EXPECT[li] = "OK %d %d %d" % (ty, c, len(hdr))
            hdr2 = bytes([0xF0 | ty]) + tr.uleb(c, 1 if c < (1 << 60) else 0)
            li = "rlist 0 0 %s" % (hdr2 + bytes(min(room, 300))).hex()
            L.append(li)
            if c < 300 and room >= c:
                PRIM_EXPECT[li] = "OK %d %d %d" % (ty, c, len(hdr2))
            L.append("rmap 0 0 %s" % (tr.uleb(c) + bytes([rng.getrandbits(8)]) + bytes(min(room, 300))).hex())
    for _ in range(n // 2):
        k = rng.randrange(0, 8)
        bs = bytes(rng.getrandbits(8) for _ in range(k)).hex() or "-"
        L += ["rlist 0 0 " + bs, "rmap 0 0 " + bs, "rbin 0 0 " + bs, "rdouble 0 0 " + bs, "rbool 0 0 " + bs, "rbyte 0 0 " + bs]
    # binary / string / double
    for ln in [0, 1, 2, 127, 128, 129, 300, 16383, 16384]:
        data = bytes(rng.getrandbits(8) for _ in range(ln))
        L.append("wbin %s" % (data.hex() or "-"))
        L.append("wstr %s" % (data.hex() or "-"))
        L.append("rbin 0 0 %s" % (tr.uleb(ln) + data).hex())
        if ln:
            L.append("rbin 0 0 %s" % (tr.uleb(ln) + data[:-1]).hex())
    L.append("wstr n")
    for _ in range(60):
        L.append("wdouble %x" % rng.getrandbits(64))
        L.append("rdouble 0 0 %s" % rng.getrandbits(64).to_bytes(8, 'little').hex())
    for k in (0, 1, 2, 31, 32, 33, 40):
        L.append("wnest %d" % k)
    # entry points parquet_types.c does not use: bool elements, uuid, set headers, string_alloc, skip_field,
    # decoder set up through thrift_decoder_init_reader (level token with an "r"), type names, limits, NULL arguments
    # negative sizes (int32 cast of the varint), sizes just above what is left, fixed-width values cut short in skip
    L += ["rlist 0 0 f5ffffffff0f", "rlist 0 0 f5808080800800", "rset 0 0 f5ffffffff0f", "rmap 0 0 ffffffff0f55", "rmap 0 0 808080800855",
          "rbin 0 0 ffffffff0f", "rbin 0 0 8080808008"]
    for ty, w in ((3, 1), (7, 8), (13, 16)):
        for k in range(0, w + 2):
            L.append("rskip %s 0 %s %d" % (rng.choice(["0", "1", "1r"]), bytes(k).hex() or "-", ty))
            L.append("rskip 1 0 %s 9" % (bytes([0x20 | ty]) + bytes(k)).hex())      # list of 2 such values, k bytes present
    for k in (0, 1, 7, 8, 9, 15, 16, 17):
        L.append("rdouble 0 0 %s" % (bytes(range(1, k + 1)).hex() or "-"))
        L.append("ruuid 0 0 %s" % (bytes(range(1, k + 1)).hex() or "-"))
    L += ["wbool 0", "wbool 1", "limits", "nullargs"] + ["tname %d" % k for k in range(-1, 18)]
    for b in (0, 1, 2, 3, 255):
        for lvl in ("0", "0r"):
            li = "rbool %s 0 %02x" % (lvl, b)
            L.append(li)
            if b in (0, 1, 2):          # the three legal boolean element bytes
                PRIM_EXPECT[li] = "OK %d 1" % (1 if b == 1 else 0)
    # struct begin/end bookkeeping: ends without a begin must leave the level at 0, the limit is 32
    for k, j in ((0, 0), (0, 1), (0, 3), (1, 1), (1, 2), (2, 1), (3, 5), (31, 31), (32, 32), (32, 33)):
        li = "rlevel %d 0 - %d" % (k, j)
        L.append(li)
        PRIM_EXPECT[li] = "OK %d 0" % max(0, k - j)
        li = "wlevel %d %d" % (k, j)
        L.append(li)
        PRIM_EXPECT[li] = "OK %s %d" % ("00" * j or "-", max(0, k - j))
    for _ in range(12):
        u = bytes(rng.getrandbits(8) for _ in range(16))
        L.append("wuuid " + u.hex())
        li = "ruuid %s 0 %s" % (rng.choice(["0", "0r", "1"]), (u + bytes(rng.randrange(0, 3))).hex())
        L.append(li)
        PRIM_EXPECT[li] = "OK %s 16" % u.hex()
        L.append("ruuid 0 0 %s" % (u[:rng.randrange(0, 16)].hex() or "-"))
    for c in list(range(0, 18)) + [127, 128, 300, I32MAX, -1]:
        ty = rng.randrange(1, 14)
        L.append("wset %d %s" % (ty, shex(c)))
        if 0 <= c <= 300:
            hdr = bytes([(c << 4) | ty]) if c < 15 else bytes([0xF0 | ty]) + tr.uleb(c)
            li = "rset 0r 0 %s" % (hdr + bytes(c)).hex()
            L.append(li)
            PRIM_EXPECT[li] = "OK %d %d %d" % (ty, c, len(hdr))
            L.append("rset 0 0 %s" % (hdr + bytes(max(0, c - 1))).hex())
    for ln in [0, 1, 2, 5, 127, 128, 300]:
        for nul in (False, True):
            data = bytearray(rng.randrange(1, 256) for _ in range(ln))
            if nul and ln:
                data[rng.randrange(ln)] = 0
            enc = tr.uleb(ln, rng.randrange(0, 2)) + bytes(data)
            li = "rstr %s 0 %s" % (rng.choice(["0", "1r"]), (enc + bytes(rng.randrange(0, 2))).hex())
            L.append(li)
            c = bytes(data).split(b"\0")[0]
            PRIM_EXPECT[li] = "OK %s %d" % (c.hex() or "-", len(enc))
            if ln:
                L.append("rstr 0 0 %s" % enc[:-1].hex())
    for _ in range(40):
        v = gen_unknown(rng, rng.randrange(1, 5))
        ty = (1 if v[1] else 2) if v[0] == 'bool' else tr.CODE[v[0]]
        body = b"" if v[0] == 'bool' else tr.enc_value(v, tr.Style(rng, 0.3, 0.2, 0.2, 0.5))
        li = "rskipf %s 0 %s %d" % (rng.choice(["1", "1r", "2"]), (body + b"\x00").hex(), ty)
        L.append(li)
        PRIM_EXPECT[li] = "OK %s %d" % (li.split()[1].rstrip("r"), len(body))
    # skip: every wire type, valid encodings at several nesting levels, then damaged ones
    for _ in range(n):
        v = gen_unknown(rng, rng.randrange(1, 6))
        ty = (1 if v[1] else 2) if v[0] == 'bool' else tr.CODE[v[0]]
        body = b"" if v[0] == 'bool' else tr.enc_value(v, tr.Style(rng, 0.3, 0.2, 0.2, 0.5))
        lv = rng.choice([0, 1, 2, 30, 31, 32])
        L.append("rskip %d 0 %s %d" % (lv, (body + bytes(rng.randrange(0, 3))).hex() or "-", ty))
        if body and rng.random() < 0.5:
            mb = bytearray(body)
            mb[rng.randrange(len(mb))] = rng.getrandbits(8)
            L.append("rskip %d 0 %s %d" % (lv, bytes(mb[:rng.randrange(0, len(mb) + 1)]).hex() or "-", ty))
    for d in list(range(1, 40)) + [64, 100]:
        L.append("rskip 0 0 %s 9" % tr.enc_value(nested_lists(d)).hex()) if d > 1 else None
        L.append("rskip 1 0 %s 12" % tr.enc_value(nested_structs(d)).hex())
        L.append("rskip 0 0 %s 9" % (b"\x19" * d).hex())
    for _ in range(n // 2):
        k = rng.randrange(0, 24)
        L.append("rskip %d 0 %s %d" % (rng.choice([0, 1]), bytes(rng.choice([0x19, 0x1c, 0x1b, 0x11, rng.getrandbits(8)])
                                                               for _ in range(k)).hex() or "-", rng.randrange(0, 16)))
    return [x for x in L if x]


# =============================================================================== the check
def canon_model_parse(st, text, mask_lt=False, members=True):
    """canonical view of a parsed structure; driver output that is not a structure of the expected shape can never
    compare equal to an expectation (so it is reported with its case, not raised)"""
    try:
        m = mparse(text)
        return mtext(view_fm(m, mask_lt) if st == "fm" else view_ph(m, members))
    except Exception as ex:
        return "UNPARSABLE(%s): %s" % (type(ex).__name__, text[:200])


def canon_impl_parse(st, text, mask_lt=False, members=True):
    return canon_model_parse(st, text, mask_lt, members)


def num(tok):
    """a decimal token of a result line, or -1"""
    return int(tok) if tok.isdigit() else -1


def union_hints(st, data):
    """(mask_lt, members): may the union-typed parts of the parse result be compared?  Decided with the
    independent decoder: the C unions alias their members, the model keeps them side by side, so a message
    that sets two members (or a page type that disagrees with the member present) is compared on the rest."""
    try:
        v, n = tr.decode_struct(data)
    except (tr.DecodeError, RecursionError):
        return True, False
    if st == "ph":
        ptype, members = 0, set()
        for fid, x in v[1]:
            if fid == 1:
                if x[0] != 'i32':
                    return True, False
                ptype = x[1]
            if fid in (5, 7, 8):
                if x[0] != 'struct':
                    return True, False
                members.add(fid)
        want = {PAGE_DATA: 5, PAGE_DICT: 7, PAGE_V2: 8}.get(ptype)
        return True, members <= ({want} if want else set())
    mask = False
    for fid, x in v[1]:
        if fid == 2 and x[0] == 'list':
            for e in x[2]:
                if e[0] != 'struct':
                    continue
                for f2, y in e[1]:
                    if f2 == 10:
                        if y[0] != 'struct':
                            mask = True
                            continue
                        layouts = set()
                        for f3, z in y[1]:
                            if f3 in (5, 7, 8, 10):
                                layouts.add({5: 'd', 7: 't', 8: 't', 10: 'i'}[f3])
                                if z[0] != 'struct':
                                    mask = True
                        if len(layouts) > 1:
                            mask = True
    return mask, True


def mutate(rng, b):
    b = bytearray(b)
    c = rng.random()
    if not b:
        return bytes([rng.getrandbits(8)])
    i = rng.randrange(len(b))
    if c < 0.35:
        b[i] = rng.getrandbits(8)
    elif c < 0.5:
        b[i] ^= 1 << rng.randrange(8)
    elif c < 0.6:
        b[i] = (b[i] & 0x0F) | (rng.randrange(16) << 4)       # field delta / list size nibble
    elif c < 0.7:
        b[i] = (b[i] & 0xF0) | rng.randrange(16)              # type nibble
    elif c < 0.8:
        del b[i]
    elif c < 0.9:
        b.insert(i, rng.getrandbits(8))
    else:
        j = rng.randrange(len(b))
        b[i], b[j] = b[j], b[i]
    return bytes(b)


def run(tier):
    rep = Report(PID, tier)
    rng = random.Random(vlib.SEED * 7919 + 13)
    t00 = time.time()
    prelude(rep, PID)
    log("  [C13] prelude %.1fs" % (time.time() - t00))
    rep.cov["trusted_base"] = vlib.TRUSTED_BASE_COMMON + [
        "checks/thrift_ref.py: independent Thrift compact encoder/decoder written from the protocol specification (conformance oracle; also cross-checked against the extracted Coq spec_decode)",
        "ThriftSpec.v is a transcription of the compact-protocol specification; the field ids / wire types expected from parquet.thrift are transcribed in checks/C13.py (tv_*) and in ParquetMetaDesc.v",
        "modelled, not verified: thrift_encode.c, thrift_decode.c, parquet_types.c (through descriptor tables); buffer growth / arena allocation failure are outside the model (C19)",
        "harness reads the consumed byte count of parquet_parse_file_metadata through -Wl,--wrap=thrift_read_struct_end",
    ]
    rep.cov["rule"] = ("primitives: varint/zig-zag at every 7-bit boundary and 64-bit extremes, padded/overlong/truncated varints, "
                       "field headers for every id gap -2..18 around the 15/16 boundary at id extremes and nesting levels, list/map headers "
                       "0..19 and int32 extremes, binary/string/double, skip of generated values of every wire type (valid, damaged, nested to 100); "
                       "structures: PageHeader of every page type and FileMetaData with schema sizes 0..300 (quick: boundary sizes + random), "
                       "names empty/long/non-ASCII, all logical types, extreme integers, optional fields on/off, lists of 14/15/16, key/value, "
                       "binary statistics; each written+parsed by carquet, decoded by the independent decoder, re-encoded by the independent "
                       "encoder with legal variations + unknown fields of every wire type at every struct + nesting beyond the limit; model tie on "
                       "the same cases plus mutations, truncation at every position (messages <= 400 bytes) and random bytes; non-trivial = distinct case text")
    try:
        drv = build_driver("h_thrift", extra=DRV_EXTRA)
        run_ = build_runner("thrift")
    except vlib.BuildError as e:
        rep.tie_broken("harness does not build against the current tree: " + str(e)[:600])
        return rep.finish()

    dist = {}
    t0 = [time.time()]

    def lap(what):
        log("  [C13] %-28s %.1fs" % (what, time.time() - t0[0]))
        t0[0] = time.time()

    def bump(k, n=1):
        dist[k] = dist.get(k, 0) + n

    # ------------------------------------------------------------------ corpus first
    corpus = []
    cdir = vlib.VERIF / "corpus" / PID
    if cdir.exists():
        for f in sorted(cdir.glob("*.txt")):
            corpus += [l for l in f.read_text().splitlines() if l.strip() and not l.startswith("#")]

    # ------------------------------------------------------------------ 1. primitives (model tie + laws on the implementation)
    plines = corpus + prim_cases(tier, rng)
    lap("gen primitives (%d)" % len(plines))
    impl, p1 = run_sharded(drv, plines)
    lap("impl primitives")
    model, p2 = run_sharded(run_, plines)
    lap("model primitives")
    for pr in p1:
        rep.violation(f"implementation died on a primitive case (rc={pr[1]}): {pr[2][-800:]}",
                      {"kind": "line", "case": pr[3], "expect": "no crash"})
    for pr in p2:
        rep.tie_broken(f"model runner died (rc={pr[1]}): {pr[2][-300:]}", pr[3])
    for li, a, b in zip(plines, impl, model):
        rep.count(li)
        bump("prim:" + li.split()[0])
        t = li.split()
        # laws checked on the implementation alone (independent encoder/decoder as the oracle)
        if t[0] == "wvarint":
            want = "OK " + tr.uleb(int(t[1], 16)).hex()
            if a != want:
                rep.violation(f"thrift_write_varint({t[1]}) is not the ULEB128 encoding: {a} want {want}", {"kind": "line", "case": li, "expect": want})
        elif t[0] in ("wzigzag", "wi64"):
            v = -int(t[1][1:], 16) if t[1][0] == '-' else int(t[1], 16)
            want = "OK " + tr.uleb(tr.zigzag(v)).hex()
            if a != want:
                rep.violation(f"{t[0]}({t[1]}) is not zig-zag + ULEB128: {a} want {want}", {"kind": "line", "case": li, "expect": want})
        elif t[0] == "rvarint" and a.startswith("OK"):
            try:
                r = tr.Reader(bytes.fromhex(t[3]) if t[3] != "-" else b"")
                v = r.varint()
                want = "OK %x %d" % (v, r.p)
                if a != want:
                    rep.violation(f"thrift_read_varint reads a legal varint wrongly: {a} want {want}", {"kind": "line", "case": li, "expect": want})
            except tr.DecodeError:
                pass    # carquet is more lenient than the specification here (10th byte), not a violation of C13
        elif t[0] == "rvarint":
            try:
                r = tr.Reader(bytes.fromhex(t[3]) if t[3] != "-" else b"")
                v = r.varint()
                rep.violation(f"thrift_read_varint rejects a legal varint: {a}", {"kind": "line", "case": li, "expect": "OK %x %d" % (v, r.p)})
            except tr.DecodeError:
                pass
        elif t[0] == "wfield" and int(t[1]) >= 1 and 1 <= int(t[3]) <= 13 and a.startswith("OK"):
            last, fid = (-int(x[1:], 16) if x[0] == '-' else int(x, 16) for x in (t[2], t[4]))
            # int16 wrap of `field_id - last_id` in thrift_write_field_header (fid - last <= -65521): the writer then emits a
            # short form an independent decoder reads as last+delta > 32767.  Needs last > 32753 and id < -32753; no Parquet
            # struct has such ids (ParquetMetaRoundtrip: ids_ok), so it is outside C13 (recorded in design.d/C13.md).
            if fid - last > -65521:
                try:
                    ty, gid, n = ref_field_header(bytes.fromhex(a.split()[1]), last)
                    if (ty, gid, n) != (int(t[3]), fid, len(a.split()[1]) // 2):
                        rep.violation(f"thrift_write_field_header(type {t[3]}, id {fid}) after id {last}: an independent decoder reads "
                                      f"type {ty} id {gid} from {a.split()[1]}", {"kind": "line", "case": li, "expect": "a header an independent decoder reads back"})
                except tr.DecodeError as e:
                    rep.violation(f"thrift_write_field_header output {a.split()[1]} is not a legal field header: {e}",
                                  {"kind": "line", "case": li, "expect": "a legal field header"})
        elif t[0] in ("ruuid", "rdouble") and len(t) == 4:
            raw = bytes.fromhex(t[3]) if t[3] != "-" else b""
            w = 16 if t[0] == "ruuid" else 8
            want = ("OK %s %d" % (raw[:16].hex(), 16) if w == 16 else "OK %x 8" % int.from_bytes(raw[:8], 'little')) if len(raw) >= w else "ERR"
            if (a != want) if want != "ERR" else not a.startswith("ERR"):
                rep.violation(f"{t[0]} on {len(raw)} bytes: {a}, an independent reader says {want}", {"kind": "line", "case": li, "expect": want})
        elif t[0] == "wbool":
            if a != ("OK 01" if t[1] != "0" else "OK 00"):
                rep.violation(f"thrift_write_bool({t[1]}) is not the one-byte boolean element: {a}", {"kind": "line", "case": li, "expect": "OK 01" if t[1] != "0" else "OK 00"})
        elif t[0] == "wuuid":
            if a != "OK " + t[1]:
                rep.violation(f"thrift_write_uuid does not write the 16 bytes: {a}", {"kind": "line", "case": li, "expect": "OK " + t[1]})
        elif t[0] == "tname":
            names = ["STOP", "TRUE", "FALSE", "BYTE", "I16", "I32", "I64", "DOUBLE", "BINARY", "LIST", "SET", "MAP", "STRUCT", "UUID"]
            k = int(t[1])
            want = "OK " + (names[k] if 0 <= k < len(names) else "UNKNOWN")
            if a != want:
                rep.violation(f"thrift_type_name({k}): {a} want {want}", {"kind": "line", "case": li, "expect": want})
        elif t[0] == "limits":
            ctext = (vlib.COQ / "theories" / "Gen" / "Consts_gen.v").read_text()
            lim = [re.search(r"Pq_%s : N := (\d+)" % k, ctext).group(1) for k in
                   ("CARQUET_MAX_SCHEMA_ELEMENTS", "CARQUET_MAX_ROW_GROUPS", "CARQUET_MAX_COLUMNS_PER_RG")]
            if a != "OK " + " ".join(lim):
                rep.violation(f"parquet_max_* accessors disagree with the CARQUET_MAX_* limits of parquet_types.c: {a} want {lim}",
                              {"kind": "line", "case": li, "expect": "OK " + " ".join(lim)})
        elif t[0] == "nullargs":
            if a != "OK " + "1 " * 10 + "0":
                rep.violation(f"a NULL argument is not refused with INVALID_ARGUMENT (or bytes were written): {a}",
                              {"kind": "line", "case": li, "expect": "OK " + "1 " * 10 + "0"})
        elif t[0] in ("wlist", "wset") and 1 <= int(t[1]) <= 13 and t[2][0] != '-' and int(t[2], 16) < (1 << 31) and a.startswith("OK"):
            try:
                ty, cnt, n = ref_list_header(bytes.fromhex(a.split()[1]))
                if (ty, cnt, n) != (int(t[1]), int(t[2], 16), len(a.split()[1]) // 2):
                    rep.violation(f"thrift_write_list_begin(type {t[1]}, count {int(t[2], 16)}): an independent decoder reads type {ty} "
                                  f"count {cnt} from {a.split()[1]}", {"kind": "line", "case": li, "expect": "a header an independent decoder reads back"})
            except tr.DecodeError as e:
                rep.violation(f"thrift_write_list_begin output {a.split()[1]} is not a legal list header: {e}",
                              {"kind": "line", "case": li, "expect": "a legal list header"})
        if li in PRIM_EXPECT and a != PRIM_EXPECT[li]:
            rep.violation(f"carquet misreads a legal header written by an independent encoder: {a} want {PRIM_EXPECT[li]}",
                          {"kind": "line", "case": li, "expect": PRIM_EXPECT[li]})
        if a != b and t[0] not in ("tname", "limits", "nullargs"):      # those three have no model counterpart
            rep.tie_broken(f"model and implementation differ on a primitive: impl {a[:200]} / model {b[:200]}", li)

    # ------------------------------------------------------------------ 2. structures
    ctext = (vlib.COQ / "theories" / "Gen" / "Consts_gen.v").read_text()
    for k in ("SCHEMA_ELEMENTS", "ROW_GROUPS", "COLUMNS_PER_RG", "KEY_VALUE_PAIRS", "ENCODINGS", "PATH_ELEMENTS", "ENCODING_STATS"):
        LIMITS[k] = int(re.search(r"Pq_CARQUET_MAX_%s : N := (\d+)" % k, ctext).group(1))
    at_limit, above_limit = limit_cases(tier, rng)
    cases = gen_struct_cases(tier, rng) + at_limit
    # one element more than the parser's limit: written, then refused by the parser with an error (never a crash,
    # never a truncated structure); model and implementation agree on the status
    over_lines = ["rt%s %s" % (st, mtext(m)) for st, m in above_limit]
    oi, po1 = run_sharded(drv, over_lines)
    om, po2 = run_sharded(run_, over_lines)
    for pr in po1:
        rep.violation(f"implementation died on a list one above a CARQUET_MAX_* limit (rc={pr[1]}): {pr[2][-600:]}", {"kind": "line", "case": (pr[3] or "")[:200000], "expect": "no crash"})
    for li, a, b in zip(over_lines, oi, om):
        rep.count(li[:300])
        bump("limit:above")
        at_ = a.split()
        if len(at_) != 4 or at_[0] != "OK" or at_[2] != "ERR":
            rep.violation(f"a list one above the parser's limit is not refused: {a[:60]} ... {a[-60:]}", {"kind": "line", "case": li[:200000], "expect": "ERR"})
        if a != b:
            rep.tie_broken(f"model and implementation differ above a limit: impl ...{a[-40:]} / model ...{b[-40:]}", li[:300])
    rt_lines = ["rt%s %s" % (st, mtext(m)) for st, m in cases]
    lap("gen structures (%d)" % len(rt_lines))
    impl, p1 = run_sharded(drv, rt_lines)
    lap("impl structures")
    model, p2 = run_sharded(run_, rt_lines)
    lap("model structures")
    for pr in p1:
        rep.violation(f"implementation died while writing/parsing a structure (rc={pr[1]}): {pr[2][-800:]}",
                      {"kind": "line", "case": pr[3], "expect": "no crash"})
    for pr in p2:
        rep.tie_broken(f"model runner died (rc={pr[1]}): {pr[2][-300:]}", pr[3])
    good = []          # (st, m, bytes) for the following stages
    for (st, m), li, a, b in zip(cases, rt_lines, impl, model):
        rep.count(li)
        bump("rt:" + st)
        at = a.split()
        want = mtext(NORM[st](m))
        rp = {"kind": "rt", "st": st, "m": mtext(m)}
        if len(at) != 5 or at[0] != "OK" or at[2] != "OK":
            rep.violation(f"write+parse of a generated {st} structure failed: {a[:300]}", rp)
            continue
        try:
            data = bytes.fromhex(at[1]) if at[1] != "-" else b""
        except ValueError:
            rep.violation(f"{st}: the bytes reported by the driver are not hexadecimal: {at[1][:80]}", rp)
            continue
        if num(at[3]) != len(data):
            rep.violation(f"{st}: bytes consumed by the parser ({at[3]}) != bytes produced by the writer ({len(data)})", rp)
        got = canon_impl_parse(st, at[4])
        if got != want:
            rep.violation(f"{st}: parse(write(m)) differs from m in a serialised field: {first_diff(got, want)}", rp)
        # independent decoder on carquet's bytes
        try:
            v, n = tr.decode_struct(data)
            if n != len(data) or tr.to_text(v) != tr.to_text(TV[st](m)):
                rep.violation(f"{st}: an independent compact-protocol decoder reads different field ids/types/values from carquet's bytes: "
                              f"{first_diff(tr.to_text(v), tr.to_text(TV[st](m)))}", rp)
        except tr.DecodeError as e:
            rep.violation(f"{st}: carquet's bytes are not decodable as Thrift compact protocol: {e}", rp)
        # model tie
        bt = b.split()
        if len(bt) != 5 or bt[:1] != ["OK"]:
            rep.tie_broken(f"model fails on a structure the implementation handles: {b[:200]}", li)
        else:
            if bt[1] != at[1]:
                rep.tie_broken(f"model writer bytes differ from carquet's: {first_diff(bt[1], at[1])}", li)
            if bt[2:4] != at[2:4] or canon_model_parse(st, bt[4]) != got:
                rep.tie_broken(f"model parser differs from carquet's on written bytes: {first_diff(canon_model_parse(st, bt[4]), got)}", li)
        good.append((st, m, data))
    # the definitions the theorems are stated with (wf, norm, to_tval in ParquetMetaSem.v) against the
    # independent ones of this file, on every generated structure
    sem_lines = ["sem %s %s" % (st, mtext(m)) for st, m in cases]
    sem_out, p4 = run_sharded(run_, sem_lines)
    lap("model semantics")
    for pr in p4:
        rep.tie_broken(f"model runner died on sem (rc={pr[1]}): {pr[2][-300:]}", pr[3])
    nwf = 0
    for (st, m), li, a in zip(cases, sem_lines, sem_out):
        rep.count(li)
        t = a.split()
        if len(t) != 4 or t[0] != "OK":
            rep.tie_broken(f"sem failed: {a[:200]}", li)
            continue
        nwf += t[1] == "1"
        if t[1] != "1":
            rep.tie_broken("a generated structure is outside the Coq domain wf (the round-trip theorems would not apply to it)", li)
        if canon_model_parse(st, t[2]) != mtext(NORM[st](m)):
            rep.tie_broken(f"Coq norm differs from the oracle's norm: {first_diff(canon_model_parse(st, t[2]), mtext(NORM[st](m)))}", li)
        if t[3] != tr.to_text(TV[st](m)):
            rep.tie_broken(f"Coq to_tval differs from the oracle's expected Thrift value: {first_diff(t[3], tr.to_text(TV[st](m)))}", li)
    dist["sem:in_wf"] = nwf
    if good:
        rep.sample({"op": "rtph", "m": mtext([g for g in good if g[0] == "ph"][0][1])[:400]})
        rep.sample({"op": "rtfm", "m": mtext([g for g in good if g[0] == "fm"][-1][1])[:400]})

    # ------------------------------------------------------------------ 3. independent encoder -> carquet
    ind = []           # (st, line, expect_ok, want_text, nbytes, m)
    for st, m, data in good:
        tv = TV[st](m)
        reps = 2 if tier == "quick" else 3
        if st == "fm" and len(data) > 4000:
            reps = 1
        for k in range(reps):
            style = tr.Style(rng, p_long_field=rng.choice([0, 0.3, 1.0]), p_pad=rng.choice([0, 0.2]),
                             p_long_list=rng.choice([0, 0.5]), p_alt_bool=0.5)
            inj = []
            tv2 = inject(rng, tv, 0, rng.choice([0.0, 0.15, 0.4]) if len(data) < 3000 else 0.02, 6, inj) if k else tv
            if k == 1:
                tv2 = add_unmodelled(rng, st, tv2)
            ok = all(skip_ok(v, 0, lv) for lv, v in inj)
            b2 = tr.enc_struct(tv2, style)
            ind.append((st, "p%s %s" % (st, b2.hex()), ok, mtext(NORM[st](m)), len(b2), m))
        if len(data) < 3000:
            # the same structure as a writer that emits ALL the fields carquet's parser stores would encode it
            FULL[0] = True
            try:
                inj3 = []
                tv3 = inject(rng, TV[st](m), 0, rng.choice([0.0, 0.3]), 4, inj3)
                b3 = tr.enc_struct(tv3, tr.Style(rng, p_long_field=rng.choice([0, 0.3]), p_pad=0.1, p_long_list=0.2, p_alt_bool=0.5))
                ind.append((st, "p%s %s" % (st, b3.hex()), all(skip_ok(v, 0, lv) for lv, v in inj3), mtext(NORM[st](m)), len(b3), m))
            finally:
                FULL[0] = False
    # nesting up to and beyond the limit, as unknown fields at several struct levels
    base_ph = gen_ph(rng, PAGE_DATA)
    base_fm = gen_fm(rng, 2, 1, 1, 1)
    for d in list(range(1, 36)) + [40, 64, 100, 1000]:
        for mk in (nested_lists, nested_structs):
            v = mk(d)
            for st, m in (("ph", base_ph), ("fm", base_fm)):
                tv = TV[st](m)
                # at top level (1 struct open) and inside the deepest known struct
                tv2 = ('struct', tv[1] + [(100, v)])
                ind.append((st, "p%s %s" % (st, tr.enc_struct(tv2).hex()), skip_ok(v, 0, 1), mtext(NORM[st](m)), None, m))
    # parse-only lists at and above their limits (only an independent encoder produces them)
    for slot, lim in ((15, LIMITS["ENCODING_STATS"]), (7, LIMITS["KEY_VALUE_PAIRS"])):
        for d in (0, 1):
            c = ZCM()
            c[slot] = A([R([1, 2, 3]) if slot == 15 else R([b"k", None]) for _ in range(lim + d)])
            cc = R([None, 0, 1, c, 0, 0, 0, 0, 0, 0, 0, 0])
            m = R([1, A([]), 0, A([R([A([cc]), 0, 0, 0, 0, 0, 0, 0, 0])]), A([]), None])
            FULL[0] = True
            try:
                ind.append(("fm", "pfm %s" % tr.enc_struct(tv_fm(m)).hex(), d == 0, mtext(norm_fm(m)), None, m))
            finally:
                FULL[0] = False
    # the F9 witness: 200 KB of 0x19 as an unknown field
    big = b"\x09\x28" + b"\x19" * 200000 + b"\x03\x00"
    ind.append(("ph", "pph " + big.hex(), False, "", None, None))
    ind.append(("fm", "pfm " + big.hex(), False, "", None, None))
    ilines = [x[1] for x in ind]
    lap("gen independent (%d)" % len(ilines))
    impl, p1 = run_sharded(drv, ilines)
    lap("impl independent")
    model, p2 = run_sharded(run_, ilines)
    lap("model independent")
    for pr in p1:
        rep.violation(f"implementation died on bytes produced by the independent encoder (rc={pr[1]}): {pr[2][-800:]}",
                      {"kind": "line", "case": pr[3][:2000000], "expect": "no crash"})
    for pr in p2:
        rep.tie_broken(f"model runner died (rc={pr[1]}): {pr[2][-300:]}", (pr[3] or "")[:300])
    valid_bytes = []
    for (st, li, ok, want, nb, m), a, b in zip(ind, impl, model):
        rep.count(li[:4000])
        bump("indep:" + st + (":ok" if ok else ":toodeep"))
        at = a.split()
        data_hex = li.split()[1]
        rp = {"kind": "indep", "st": st, "case": li, "expect": ("OK %d %s" % (len(data_hex) // 2, want)) if ok else "ERR"}
        if ok:
            if len(at) != 3 or at[0] != "OK":
                rep.violation(f"{st}: carquet rejects a legal encoding produced by an independent encoder "
                              f"(long-form headers / padded varints / unknown fields): {a[:200]}", rp)
            else:
                got = canon_impl_parse(st, at[2])
                if num(at[1]) != len(data_hex) // 2:
                    rep.violation(f"{st}: consumed {at[1]} of {len(data_hex) // 2} bytes of an independently encoded message", rp)
                if got != want:
                    rep.violation(f"{st}: carquet parses an independently encoded message to a different structure: {first_diff(got, want)}", rp)
                valid_bytes.append((st, bytes.fromhex(data_hex)))
        else:
            if at[:1] != ["ERR"]:
                rep.violation(f"{st}: nesting or a list size beyond the parser's limit must be refused with an error, got {a[:120]}", rp)
        if a.split()[:2] != b.split()[:2] or (at[:1] == ["OK"] and canon_model_parse(st, b.split()[2]) != canon_impl_parse(st, at[2])):
            rep.tie_broken(f"model parser differs from carquet's on independently encoded bytes: impl {a[:160]} / model {b[:160]}", li[:3000])

    # ------------------------------------------------------------------ 4. model tie on near-valid and random bytes; Coq spec vs Python decoder
    tie = []
    pool = [(st, d) for st, m, d in good] + valid_bytes
    rng.shuffle(pool)
    nmut = 6000 if tier == "thorough" else 1500
    small = [(st, d) for st, d in pool if len(d) <= 400]
    for i in range(nmut):
        st, d = small[i % len(small)] if small else pool[i % len(pool)]
        x = d
        for _ in range(rng.choice([1, 1, 1, 2, 3])):
            x = mutate(rng, x)
        tie.append((st, x))
    ntr = 40 if tier == "thorough" else 10
    for st, d in small[:ntr]:
        for k in range(len(d)):
            tie.append((st, d[:k]))
    for st, d in pool[:60]:
        if len(d) > 400:
            for k in [0, 1, len(d) // 2, len(d) - 2, len(d) - 1] + [rng.randrange(len(d)) for _ in range(6)]:
                tie.append((st, d[:k]))
            tie.append((st, d + bytes(rng.randrange(1, 9))))
    for _ in range(1500 if tier == "thorough" else 400):
        n = rng.randrange(0, 48)
        tie.append((rng.choice(["ph", "fm"]), bytes(rng.choice([0x15, 0x19, 0x1c, 0x16, 0x18, 0x00, 0x2c, 0x5c, rng.getrandbits(8)])
                                                      for _ in range(n))))
    tlines = ["p%s %s" % (st, d.hex() or "-") for st, d in tie]
    lap("gen tie (%d)" % len(tlines))
    impl, p1 = run_sharded(drv, tlines)
    lap("impl tie")
    model, p2 = run_sharded(run_, tlines)
    lap("model tie")
    for pr in p1:
        rep.violation(f"implementation died on damaged metadata bytes (rc={pr[1]}): {pr[2][-800:]}",
                      {"kind": "line", "case": pr[3], "expect": "no crash"})
    for pr in p2:
        rep.tie_broken(f"model runner died (rc={pr[1]}): {pr[2][-300:]}", pr[3])
    nok = 0
    for (st, d), li, a, b in zip(tie, tlines, impl, model):
        rep.count(li)
        bump("tie:" + st)
        at, bt = a.split(), b.split()
        if at[:2] != bt[:2]:
            rep.tie_broken(f"model parser and carquet disagree on class/status/consumed: impl {a[:120]} / model {b[:120]}", li)
        elif at[0] == "OK":
            nok += 1
            mask_lt, members = union_hints(st, d)
            if canon_model_parse(st, bt[2], mask_lt, members) != canon_impl_parse(st, at[2], mask_lt, members):
                rep.tie_broken(f"model parser and carquet disagree on a field: "
                               f"{first_diff(canon_model_parse(st, bt[2], mask_lt, members), canon_impl_parse(st, at[2], mask_lt, members))}", li)
    dist["tie:accepted"] = nok

    # Coq specification vs the independent decoder (both directions of the same spec)
    slines, sexp = [], []
    for st, d in pool[:400] + tie[:600]:
        slines.append("sdec " + (d.hex() or "-"))
        try:
            v, n = tr.decode_struct(d, max_depth=10 ** 6)
            sexp.append("OK " + tr.to_text(v) if n == len(d) else "NONE")
        except tr.DecodeError:
            sexp.append("NONE")
        except RecursionError:
            sexp.append(None)
    lap("gen spec (%d)" % len(slines))
    sout, p3 = run_sharded(run_, slines)
    lap("model spec")
    for pr in p3:
        rep.tie_broken(f"model runner died in spec_decode (rc={pr[1]}): {pr[2][-300:]}", pr[3])
    for li, a, w in zip(slines, sout, sexp):
        rep.count(li)
        bump("spec")
        if w is not None and a != w:
            rep.tie_broken(f"Coq spec_decode and the independent Python decoder disagree: coq {a[:150]} / python {w[:150]}", li)

    rep.cov["input_distribution"] = dist
    return rep.finish()


def first_diff(a, b):
    n = min(len(a), len(b))
    i = next((k for k in range(n) if a[k] != b[k]), n)
    return "at %d: got ...%s / want ...%s" % (i, a[max(0, i - 40):i + 60], b[max(0, i - 40):i + 60])


def replay(path):
    j = json.loads(Path(path).read_text())
    r = j.get("replay") or {}
    if not r:
        print(json.dumps(j, indent=1)[:4000])
        return 1
    drv = build_driver("h_thrift", extra=DRV_EXTRA)
    print("what:", j.get("what"))
    if r.get("kind") == "rt":
        st, m = r["st"], mparse(r["m"])
        line = "rt%s %s" % (st, r["m"])
        out, rc, err = vlib.run_lines(drv, [line])
        print("case:", line[:3000])
        print("implementation:", (out[0] if out else "")[:3000], "rc", rc)
        if err:
            print(err[-2000:])
        at = out[0].split() if out else []
        if rc != 0 or len(at) != 5 or at[0] != "OK" or at[2] != "OK":
            return 1
        data = bytes.fromhex(at[1]) if at[1] != "-" else b""
        want = mtext(NORM[st](m))
        got = canon_impl_parse(st, at[4])
        print("expected parse(write(m)):", want[:3000])
        bad = got != want or num(at[3]) != len(data)
        try:
            v, n = tr.decode_struct(data)
            print("independent decoder:", tr.to_text(v)[:3000])
            print("expected           :", tr.to_text(TV[st](m))[:3000])
            bad = bad or n != len(data) or tr.to_text(v) != tr.to_text(TV[st](m))
        except tr.DecodeError as e:
            print("independent decoder fails:", e)
            bad = True
        return 1 if bad else 0
    line = r.get("case")
    out, rc, err = vlib.run_lines(drv, [line])
    print("case:", line[:3000])
    print("implementation:", (out[0] if out else "")[:3000], "rc", rc)
    print("expected:", str(r.get("expect"))[:3000])
    if err:
        print(err[-2500:])
    if rc != 0 or not out:
        return 1
    exp = r.get("expect")
    if exp == "no crash":
        return 0
    if exp in ("a header an independent decoder reads back", "a legal field header", "a legal list header"):
        t = line.split()
        try:
            if t[0] == "wfield":
                last, fid = (-int(x[1:], 16) if x[0] == '-' else int(x, 16) for x in (t[2], t[4]))
                got = ref_field_header(bytes.fromhex(out[0].split()[1]), last)
                print("independent decoder reads (type, id, bytes):", got)
                return 0 if got == (int(t[3]), fid, len(out[0].split()[1]) // 2) else 1
            got = ref_list_header(bytes.fromhex(out[0].split()[1]))
            print("independent decoder reads (type, count, bytes):", got)
            return 0 if got == (int(t[1]), int(t[2], 16), len(out[0].split()[1]) // 2) else 1
        except tr.DecodeError as e:
            print("independent decoder fails:", e)
            return 1
    if exp == "ERR":
        return 0 if out[0].startswith("ERR") else 1
    if r.get("kind") == "indep":
        at, et = out[0].split(), exp.split()
        if at[:2] != et[:2]:
            return 1
        return 0 if canon_impl_parse(r["st"], at[2]) == et[2] else 1
    return 0 if out[0] == exp else 1
