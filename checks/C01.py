"""C01 - write-then-read round trip returns exactly the table that was written.

Proof:  coq/theories/Props/Properties_C01.v (models Writer/{PageWriter,ColumnWriter,FileWriter}Model.v,
        Reader/{PageDecode,ReadAll}Model.v; table semantics Writer/TableSpec.v).
Oracle: (independent of the model) every writer call OK => the file re-opens in stdio, mmap and buffer mode and
        the dump through the public reader API equals filecase.expected_table(case): schema, row count, non-empty
        row groups, null positions, bit-identical values, byte arrays stable until the next call (ASan + compare).
Tie:    the extracted writer model predicts the statuses of every call and the FILE BYTES exactly for
        UNCOMPRESSED / SNAPPY / LZ4, and the page structure after decompression for GZIP / ZSTD.
"""
import json, os, random, sys
from pathlib import Path
import vlib
from vlib import Report, prelude, log
import filecase as fc
import writer_common as wc

PID = "C01"


def check_cases(rep, cases, tier, rng, corpus_n=0):
    """Write + read back every case; returns [(case, statuses, data)] for the tie."""
    res = wc.write_all(cases)
    reqs, idx = [], []
    dist = {"writer_not_all_ok": 0, "ill_formed_history": 0, "files_read": 0, "small_batch_reads": 0}
    for i, (c, (st, data)) in enumerate(zip(cases, res)):
        rep.count(("c01", json.dumps(fc.case_to_json(c), sort_keys=True)), nontrivial=fc.expected_table(c) not in (None, []))
        if st.fault:
            rep.violation(f"the writer died on a write history (sanitizer report or signal): {st.fault.get('summary')}",
                          {"case": fc.case_to_json(c), "kind": "writer-fault"})
            continue
        if fc.expected_table(c) is None:
            dist["ill_formed_history"] += 1
            continue
        if not st.all_ok():
            dist["writer_not_all_ok"] += 1      # the property is conditional on all calls returning OK (the tie compares statuses)
            continue
        if data is None:
            rep.violation("every writer call returned OK but no file exists", {"case": fc.case_to_json(c), "kind": "no-file"})
            continue
        for m in fc.MODES:
            reqs.append((data, m, True, 1 << 20))
            idx.append((i, m, 1 << 20))
        # partial reads: the lifetime clause needs a later call on the same column reader
        if i < corpus_n or i % 7 == 0:
            b = rng.choice([1, 2, 3, 7])
            m = rng.choice(fc.MODES)
            reqs.append((data, m, True, b))
            idx.append((i, m, b))
            dist["small_batch_reads"] += 1
        dist["files_read"] += 1
    dumps = fc.dump_many(reqs)
    seen = set()
    for (i, m, b), d in zip(idx, dumps):
        diff = wc.c01_compare(cases[i], d)
        if diff and i not in seen:
            seen.add(i)
            rep.violation(f"write-then-read differs ({m}, read_batch({b})) for {cases[i].name}: {diff}",
                          {"case": fc.case_to_json(cases[i]), "mode": m, "batch": b, "kind": "roundtrip"})
    # columns read SIDE BY SIDE on the FILE* path (the column readers share the reader's stream): every corpus case
    # and every third generated case with 2..15 columns
    sel = [(cases[i], res[i][1]) for i in range(len(cases))
           if res[i][1] is not None and res[i][0].fault is None and res[i][0].all_ok() and fc.expected_table(cases[i])
           and 2 <= len(cases[i].schema.columns) <= 15 and (i < corpus_n or i % 3 == 0)]
    scripts, tmps, infos = wc.rowwise_scripts(sel, rng)
    outs = fc.run_scripts(scripts) if scripts else []
    for t in tmps:
        if t and os.path.exists(t):
            os.unlink(t)
    for (case, k, plan), out in zip(infos, outs):
        diff = wc.rowwise_compare(case, plan, out)
        if diff:
            rep.violation(f"write-then-read differs when the columns are read side by side (stdio, read_batch({k}) on each column "
                          f"in turn) for {case.name}: {diff}",
                          {"case": fc.case_to_json(case), "mode": "stdio", "batch": k, "kind": "rowwise"})
    dist["rowwise_reads"] = len(infos)
    rep.cov.setdefault("input_distribution", {}).update(dist)
    return [(c, st, data) for c, (st, data) in zip(cases, res)]


def run(tier):
    rep = Report(PID, tier)
    rng = random.Random(vlib.SEED * 7919 + 1)
    prelude(rep, PID)
    rep.cov["trusted_base"] = vlib.TRUSTED_BASE_COMMON + [
        "tools/filecase.py + harness/h_file.c (public API driver, ASan+UBSan, lifetime re-read of byte arrays) and its oracle expected_table",
        "zlib / libzstd (GZIP, ZSTD pages): assumed to round-trip; the page-header and footer Thrift round trips and the codec round trip are hypotheses of the chunk/file layer theorems (Thrift: C13, Snappy/LZ4: C09/C10)",
        "modelled, not verified: src/writer/{page,column,row_group,file}_writer.c, carquet_rle_decode_levels, carquet_read_data_page_v1 (flat columns, PLAIN), carquet_decode_plain dispatch; consumption histories other than one large read_batch are C02, I/O paths C03",
        "pointer lifetime of BYTE_ARRAY results is observed (ASan + re-read before the next call), not proved",
    ]
    rep.cov["rule"] = ("corpus/file + corpus/C01 reproducers first; targeted shapes (level runs around 7/8/9 against batch and "
                       "page boundaries, booleans split off byte boundaries, estimated page size hit exactly / +-1, strings "
                       "crossing pages, def_levels = NULL, zero-row calls, empty and redundant row groups, interleaved columns); "
                       "write histories enumerated exhaustively (all 2^(n-1) partitions per column) for tables of <= 5 rows "
                       "(thorough <= 8) x page sizes {1, ~70, 1 MiB}; random tables 1-6 columns x 7 types x REQUIRED/OPTIONAL, "
                       "0-400 rows, 5 codecs, page sizes 1 B..64 KiB, row-group cuts anywhere; every file read in stdio, mmap "
                       "and buffer mode with one large read_batch, a sample also with read_batch(1|2|3|7); non-trivial = the "
                       "history denotes a table with at least one row; distinct by full case text")
    try:
        fc.driver()
    except vlib.BuildError as e:
        rep.tie_broken("harness/h_file.c does not build against the current tree: " + str(e)[:500])
        return rep.finish()
    corpus = wc.corpus_cases([PID])
    cases = [c for _, c, _ in corpus] + wc.gen_cases(tier, rng)
    log(f"C01: {len(cases)} write histories ({len(corpus)} from the corpus)")
    written = check_cases(rep, cases, tier, rng, corpus_n=len(corpus))
    wc.check_limits(rep, PID, columns=(tier == "thorough"))      # 100001 row groups: quick too (about 6 s)
    for c in (cases[len(corpus)], cases[len(cases) // 2], cases[-1]):
        rep.sample(wc.case_summary(c))
    wc.model_tie(rep, written)
    return rep.finish()


def replay(path):
    j = json.loads(Path(path).read_text())
    r = j.get("replay") or j
    if "case" not in r:
        print(json.dumps(j, indent=1)[:3000])
        return 1
    case = fc.case_from_json(r["case"])
    print("history:", wc.case_summary(case))
    st, data = wc.write_all([case])[0]
    print("writer:", ", ".join(st), ("FAULT " + str(st.fault)) if st.fault else "")
    if st.fault:
        return 1
    if not st.all_ok() or fc.expected_table(case) is None:
        print("not every call returned OK / the history denotes no table: the property says nothing")
        return 0
    if data is None:
        print("no file")
        return 1
    if r.get("kind") == "rowwise":
        scripts, tmps, infos = wc.rowwise_scripts([(case, data)], random.Random(0), k=r.get("batch", 3))
        out = fc.run_scripts(scripts)[0]
        for t in tmps:
            if t and os.path.exists(t):
                os.unlink(t)
        diff = wc.rowwise_compare(case, infos[0][2], out)
        print(f"  stdio, columns side by side, read_batch({infos[0][1]}):", diff or "equal to the written table")
        return 1 if diff else 0
    bad = 0
    modes = [r["mode"]] if r.get("mode") else fc.MODES
    for m in modes:
        for b in sorted({1 << 20, r.get("batch", 1 << 20)}):
            d = fc.dump(data, m, True, b)
            diff = wc.c01_compare(case, d)
            print(f"  {m} read_batch({b}):", diff or "equal to the written table")
            bad += bool(diff)
    return 1 if bad else 0
