"""C16 - statistics are true bounds and pruning never discards matching data.

Proof: coq/theories/Props/Properties_C16.v (orders Stats/Order.v, models Stats/StatsBuilderModel.v, Stats/PruneModel.v,
       Stats/PageIndexModel.v, proofs Stats/StatsProofs.v).
Tie:   (a) the 256/64-byte min/max buffers, the compare-op, physical-type and status enums regenerated from the sources;
       (b) direct calls to the statistics builder, the page writer, carquet_statistics_compare / range_overlaps,
       carquet_column_index_page_might_match and - through footers with statistics in the new or deprecated fields written
       by checks/pq_min.py - carquet_reader_column_statistics / row_group_matches / filter_row_groups, each case with a
       BRUTE-FORCE GROUND TRUTH computed by the C driver with the machine's own operators (property oracle ->
       VIOLATION), and the extracted model compared on the same cases (-> correspondence).
"""
import random, json, sys, struct
from pathlib import Path
import vlib
from vlib import Report, prelude, build_driver, build_runner, run_sharded, log
sys.path.insert(0, str(Path(__file__).resolve().parent))
import pq_min as pq

PID = "C16"
BOOLEAN, INT32, INT64, INT96, FLOAT, DOUBLE, BYTE_ARRAY, FLBA = range(8)
READER_TYPES = [INT32, INT64, FLOAT, DOUBLE, BYTE_ARRAY, FLBA]
EQ, NE, LT, LE, GT, GE = range(6)
OPNAME = ["==", "!=", "<", "<=", ">", ">="]

# ------------------------------------------------------------------ values


def i32(x): return struct.pack("<i", x)
def i64(x): return struct.pack("<q", x)
def f32b(bits): return struct.pack("<I", bits)
def f64b(bits): return struct.pack("<Q", bits)


F32_SPECIAL = [0x00000000, 0x80000000, 0x00000001, 0x80000001, 0x007FFFFF, 0x00800000, 0x3F800000, 0x3F7FFFFF, 0x3F800001,
               0xBF800000, 0xBF7FFFFF, 0xBF800001, 0x7F7FFFFF, 0xFF7FFFFF, 0x7F800000, 0xFF800000, 0x40A00000, 0x41200000]
F32_NAN = [0x7FC00000, 0x7F800001, 0xFFC00000, 0x7FFFFFFF]
F64_SPECIAL = [0x0, 0x8000000000000000, 0x1, 0x8000000000000001, 0x000FFFFFFFFFFFFF, 0x0010000000000000, 0x3FF0000000000000,
               0x3FEFFFFFFFFFFFFF, 0x3FF0000000000001, 0xBFF0000000000000, 0xBFEFFFFFFFFFFFFF, 0x7FEFFFFFFFFFFFFF,
               0xFFEFFFFFFFFFFFFF, 0x7FF0000000000000, 0xFFF0000000000000, 0x4014000000000000]
F64_NAN = [0x7FF8000000000000, 0x7FF0000000000001, 0xFFF8000000000000, 0x7FFFFFFFFFFFFFFF]
I32_SPECIAL = [-2**31, -2**31 + 1, -65536, -257, -256, -255, -1, 0, 1, 127, 128, 255, 256, 257, 1000, 65535, 65536, 2**31 - 2, 2**31 - 1]
I64_SPECIAL = [-2**63, -2**63 + 1, -2**32, -2**31 - 1, -2**31, -256, -1, 0, 1, 255, 256, 2**31 - 1, 2**31, 2**32, 2**63 - 2, 2**63 - 1]


def is_nan(t, v):
    if t == FLOAT:
        return struct.unpack("<f", v[:4])[0] != struct.unpack("<f", v[:4])[0]
    if t == DOUBLE:
        return struct.unpack("<d", v[:8])[0] != struct.unpack("<d", v[:8])[0]
    return False


def key(t, v):
    """python-side order key of a non-NaN value (used only to CONSTRUCT true bounds and neighbours; the oracle is the C driver)"""
    if t == BOOLEAN: return v[0]
    if t == INT32: return struct.unpack("<i", v[:4])[0]
    if t == INT64: return struct.unpack("<q", v[:8])[0]
    if t == FLOAT: return struct.unpack("<f", v[:4])[0]
    if t == DOUBLE: return struct.unpack("<d", v[:8])[0]
    if t == INT96: return int.from_bytes(v[:12], "little")
    return bytes(v)


def rand_value(t, rng, flba_len=3, allow_nan=True, pool=None):
    if pool and rng.random() < 0.6:
        return rng.choice(pool)
    if t == BOOLEAN:
        return bytes([rng.randrange(2)])
    if t == INT32:
        return i32(rng.choice(I32_SPECIAL) if rng.random() < 0.5 else rng.randint(-2**31, 2**31 - 1) if rng.random() < 0.5 else rng.randint(-300, 300))
    if t == INT64:
        return i64(rng.choice(I64_SPECIAL) if rng.random() < 0.5 else rng.randint(-2**63, 2**63 - 1) if rng.random() < 0.5 else rng.randint(-300, 300))
    if t == FLOAT:
        r = rng.random()
        if allow_nan and r < 0.12: return f32b(rng.choice(F32_NAN))
        if r < 0.55: return f32b(rng.choice(F32_SPECIAL))
        if r < 0.8: return struct.pack("<f", rng.uniform(-10, 10))
        b = rng.getrandbits(32)
        return f32b(b if (b & 0x7F800000) != 0x7F800000 else b & 0xFF7FFFFF)
    if t == DOUBLE:
        r = rng.random()
        if allow_nan and r < 0.12: return f64b(rng.choice(F64_NAN))
        if r < 0.55: return f64b(rng.choice(F64_SPECIAL))
        if r < 0.8: return struct.pack("<d", rng.uniform(-10, 10))
        b = rng.getrandbits(64)
        return f64b(b if (b & 0x7FF0000000000000) != 0x7FF0000000000000 else b & 0xFFEFFFFFFFFFFFFF)
    if t == INT96:
        words = [rng.choice([0, 1, 5, 6, 0xFFFFFFFF, 0x80000000, rng.getrandbits(32)]) for _ in range(3)]
        return b"".join(struct.pack("<I", w) for w in words)
    if t == FLBA:
        return bytes(rng.choice([0, 1, 0x61, 0x7A, 0x7F, 0x80, 0xFF, rng.getrandbits(8)]) for _ in range(flba_len))
    # BYTE_ARRAY: unequal lengths, prefixes, bytes >= 0x80, around the 256-byte buffer
    r = rng.random()
    if r < 0.08: return b""
    if r < 0.16: return bytes([rng.choice([0x61, 0x7A, 0x80, 0xFF, 0])]) * rng.choice([255, 256, 257, 300])
    n = rng.choice([1, 1, 2, 2, 3, 5, 9])
    return bytes(rng.choice([0, 0x61, 0x62, 0x7A, 0x7F, 0x80, 0xFF]) for _ in range(n))


def neighbours(t, v, rng):
    """values just below / above v in the type's order (+-1, +-1 ulp, shorter/longer strings)"""
    out = []
    if t == INT32:
        k = key(t, v); out += [i32(max(k - 1, -2**31)), i32(min(k + 1, 2**31 - 1))]
    elif t == INT64:
        k = key(t, v); out += [i64(max(k - 1, -2**63)), i64(min(k + 1, 2**63 - 1))]
    elif t in (FLOAT, DOUBLE):
        w = 4 if t == FLOAT else 8
        bits = int.from_bytes(v[:w], "little")
        for d in (-1, 1):
            b = (bits + d) % (1 << (8 * w))
            x = b.to_bytes(w, "little")
            out.append(x)
    elif t in (BYTE_ARRAY,):
        out += [v[:-1], v + b"\x00", v + b"\xff"]
        if v and v[-1] > 0: out.append(v[:-1] + bytes([v[-1] - 1]))
        if v and v[-1] < 255: out.append(v[:-1] + bytes([v[-1] + 1]))
    elif t == FLBA:
        for i in (0, len(v) - 1):
            if v[i] > 0: out.append(v[:i] + bytes([v[i] - 1]) + v[i + 1:])
            if v[i] < 255: out.append(v[:i] + bytes([v[i] + 1]) + v[i + 1:])
    return out


def hx(v):
    return "-" if v is None else ("e" if len(v) == 0 else bytes(v).hex())


def vals_text(vs):
    return ".".join(hx(v) for v in vs) if vs else "-"


def bounds(t, data):
    ok = [v for v in data if not is_nan(t, v)]
    if not ok:
        return None, None
    return min(ok, key=lambda v: key(t, v)), max(ok, key=lambda v: key(t, v))


def probes_for(t, data, mn, mx, rng, flba_len):
    ps = []
    for b in (mn, mx):
        if b is not None:
            ps.append(b)
            ps += neighbours(t, b, rng)
    ps += [v for v in data[:3]]
    ps.append(rand_value(t, rng, flba_len))
    if t == FLOAT: ps += [f32b(F32_NAN[0]), f32b(0), f32b(0x80000000)]
    if t == DOUBLE: ps += [f64b(F64_NAN[0]), f64b(0), f64b(0x8000000000000000)]
    return [p for p in ps if p is not None]


# ------------------------------------------------------------------ cases: (line, meta)

def gen_bld(tier, rng):
    out = []
    k = 10000 if tier == "quick" else 250000
    for _ in range(k):
        t = rng.choice([BOOLEAN, INT32, INT64, INT96, FLOAT, DOUBLE, BYTE_ARRAY, BYTE_ARRAY, FLBA, FLBA])
        tlen = 0
        if t == FLBA:
            tlen = rng.choice([1, 3, 3, 16, 255, 256, 257, 300, 0, -1])
        flen = tlen if tlen > 0 else 4
        ops = []
        pool = [rand_value(t, rng, flen) for _ in range(rng.randint(1, 6))]
        for _ in range(rng.randint(1, 6)):
            r = rng.random()
            if r < 0.12:
                ops.append("n:%d" % rng.choice([0, 1, 3, 1000, 2**40]))
            elif r < 0.17:
                ops.append("r")
            else:
                vs = [rand_value(t, rng, flen, pool=pool) for _ in range(rng.choice([1, 1, 2, 3, 8, 20]))]
                api = "b" if t == BYTE_ARRAY else "v"
                if rng.random() < 0.03:
                    api = "v" if api == "b" else "b"       # wrong entry point: INVALID_ARGUMENT, nothing recorded
                    if api == "v":
                        vs = [v[:1] or b"\x00" for v in vs]
                ops.append(api + ":" + vals_text(vs))
        out.append(("bld %d %d %s" % (t, tlen, ",".join(ops)), {"kind": "bld"}))
    # DESIGN section 6 F13 / NaN witnesses
    out.append(("bld 6 0 b:61.%s" % ("7a" * 300), {"kind": "bld"}))
    out.append(("bld 7 300 v:%s.%s" % ("71" * 300, "70" * 300), {"kind": "bld"}))
    out.append(("bld 4 0 v:0000c07f.0000803f.00002041", {"kind": "bld"}))
    out.append(("bld 5 0 v:000000000000f87f.000000000000f03f,v:000000000000f0bf", {"kind": "bld"}))
    return out


def gen_pw(tier, rng):
    out = []
    k = 6000 if tier == "quick" else 150000
    for _ in range(k):
        t = rng.choice([INT32, INT64, FLOAT, DOUBLE])
        maxdef = rng.choice([0, 0, 1, 1, 2])
        batches, truth_vals, nulls = [], [], 0
        pool = [rand_value(t, rng) for _ in range(rng.randint(1, 5))]
        nan_first = rng.random() < 0.15 and t in (FLOAT, DOUBLE)
        for bi in range(rng.randint(1, 4)):
            nv = rng.choice([1, 1, 2, 3, 7, 16])
            if maxdef > 0 and rng.random() < 0.85:
                defs = [rng.choice([maxdef] * 3 + list(range(maxdef))) for _ in range(nv)]
                nn = sum(1 for d in defs if d == maxdef)
                nulls += nv - nn
                dtxt = "".join(str(d) for d in defs)
            else:
                nn, dtxt = nv, "-"
            vs = [rand_value(t, rng, pool=pool) for _ in range(nn)]
            if nan_first and bi == 0 and vs:
                vs[0] = f32b(F32_NAN[0]) if t == FLOAT else f64b(F64_NAN[0])
            truth_vals += vs
            batches.append("%s/%s/%d" % (vals_text(vs), dtxt, nv))
        nostats = rng.random() < 0.06
        final_on = True
        if not nostats and rng.random() < 0.3:
            # the statistics option toggled between the add_values calls of ONE page: whatever is emitted at finalize must
            # bound the values of the batches added while it was off too (the extremes go there)
            ext = {INT32: [i32(-2**31), i32(2**31 - 1)], INT64: [i64(-2**63), i64(2**63 - 1)],
                   FLOAT: [f32b(0xFF800000), f32b(0x7F800000)], DOUBLE: [f64b(0xFFF0000000000000), f64b(0x7FF0000000000000)]}[t]
            items, on = [], True
            for b_ in batches:
                if rng.random() < 0.6:
                    on = not on
                    items.append("s1" if on else "s0")
                if not on and b_.split("/")[1] == "-" and rng.random() < 0.8:       # an untracked batch gets an extreme value
                    vs_, _d, nv_ = b_.split("/")
                    e_ = rng.choice(ext)
                    b_ = "%s.%s/-/%d" % (vs_, e_.hex(), int(nv_) + 1) if vs_ != "-" else "%s/-/%d" % (e_.hex(), int(nv_) + 1)
                    truth_vals.append(e_)
                items.append(b_)
            if rng.random() < 0.7 and not on:
                items.append("s1")
                on = True
            final_on = on
            batches = items
        out.append(("pw %d %d %s%s" % (t, maxdef, ",".join(batches), " nostats" if nostats else ""),
                    {"kind": "pw", "type": t, "vals": [v.hex() for v in truth_vals], "nulls": nulls, "nostats": nostats or not final_on}))
    return out


def random_shape(rng):
    """where the column sits in the schema: leaves of other types before / after it, the column itself under 0..3 groups"""
    r = rng.random()
    if r < 0.45:
        return None                                       # flat, single column
    others = [INT32, INT64, FLOAT, DOUBLE, BYTE_ARRAY, BOOLEAN]
    return dict(before=[rng.choice(others) for _ in range(rng.choice([0, 0, 1, 2]))], before_in_group=rng.random() < 0.5,
                depth=rng.choice([1, 1, 2, 3]) if r < 0.9 else 0, after=[rng.choice(others) for _ in range(rng.choice([0, 1]))])


def footer_with_stats(t, flba_len, rgs, shape=None, order=None, rng=None):
    """rgs: list of dict(meta, stats, nv, nc, mn, mx, omn, omx) -> (file bytes, type token for the case line, column index).
    With a shape the column is a leaf of a NESTED schema (groups before it, other leaves before / after)."""
    leaf = pq.schema_element(name="c", type=t, repetition=pq.OPTIONAL, type_length=flba_len if t == FLBA else None)
    if shape is None:
        els, types, tcol, paths = [pq.schema_element(name="schema", num_children=1), leaf], [t], 0, [["c"]]
    else:
        top, els, types, paths = 0, [], [], []
        if shape["before"]:
            bl = [pq.schema_element(name="b%d" % i, type=bt, repetition=pq.REQUIRED) for i, bt in enumerate(shape["before"])]
            if shape["before_in_group"]:
                els += [pq.schema_element(name="gb", repetition=pq.OPTIONAL, num_children=len(bl))] + bl
                top += 1
                paths += [["gb", "b%d" % i] for i in range(len(bl))]
            else:
                els += bl
                top += len(bl)
                paths += [["b%d" % i] for i in range(len(bl))]
            types += shape["before"]
        tcol = len(types)
        chain = ["g%d" % i for i in range(shape["depth"])]
        els += [pq.schema_element(name=nm, repetition=rng.choice([pq.OPTIONAL, pq.REPEATED, pq.REQUIRED]) if rng else pq.OPTIONAL,
                                  num_children=1) for nm in chain] + [leaf]
        top += 1
        types.append(t)
        paths.append(chain + ["c"])
        for i, at in enumerate(shape["after"]):
            els.append(pq.schema_element(name="a%d" % i, type=at, repetition=pq.REQUIRED))
            top += 1
            types.append(at)
            paths.append(["a%d" % i])
        els = [pq.schema_element(name="schema", num_children=top)] + els
    els = [pq.permute(e, order, rng) for e in els]
    groups = []
    for g in rgs:
        st = None
        if g["stats"]:
            st = pq.permute(pq.statistics(max_old=g["omx"], min_old=g["omn"], null_count=g["nc"], max_value=g["mx"], min_value=g["mn"],
                                          distinct_count=g.get("dc"), is_max_exact=g.get("xmax"), is_min_exact=g.get("xmin"),
                                          unknown_field=g.get("unk", False)), order, rng)
        chunks = []
        for i, ty in enumerate(types):
            if i != tcol:
                chunks.append(pq.column_chunk(ty, paths[i], g["nv"]))
            elif g["meta"]:
                chunks.append(pq.column_chunk(t, paths[i], g["nv"], stats=st))
            else:
                chunks.append([(2, pq.T_I64, 4)])          # a ColumnChunk without meta_data
        groups.append(pq.row_group(chunks, g["nv"]))
    ttok = str(t) if shape is None else "%s:%d" % (".".join(map(str, types)), tcol)
    return pq.parquet_file(pq.file_metadata(els, sum(g["nv"] for g in rgs), groups)), ttok, tcol


def gen_rd(tier, rng):
    out = []
    k = 4000 if tier == "quick" else 100000
    for _ in range(k):
        t = rng.choice(READER_TYPES)
        flen = rng.choice([1, 3, 16]) if t == FLBA else 0
        nrg = rng.choice([1, 2, 3, 4, 6, 9])
        pool = [rand_value(t, rng, flen) for _ in range(rng.randint(1, 4))]
        rgs, datas, allv = [], [], []
        degenerate = rng.random() < 0.3          # row groups whose non-NaN values are all equal (min == max): the != corner
        for _ in range(nrg):
            data = [rand_value(t, rng, flen, pool=pool) for _ in range(rng.choice([0, 1, 1, 2, 3, 6]))]
            if degenerate:
                c = rng.choice(pool)
                data = [c] * rng.choice([1, 2, 4])
                if t in (FLOAT, DOUBLE) and rng.random() < 0.6:
                    data.insert(rng.randrange(len(data) + 1), f32b(rng.choice(F32_NAN)) if t == FLOAT else f64b(rng.choice(F64_NAN)))
            if t == BYTE_ARRAY:
                data = [v for v in data if len(v) <= 40]        # keep the lines short
            nulls = rng.choice([0, 0, 1, 5])
            mn, mx = bounds(t, data)
            g = dict(meta=1, stats=1, nv=len(data) + nulls, nc=nulls, mn=None, mx=None, omn=None, omx=None, tb=True)
            kind = rng.choice(["new", "new", "new", "old", "both", "loose", "none", "nometa", "half", "wrong"])
            if mn is None or (t in (BYTE_ARRAY,) and (len(mn) == 0 or len(mx) == 0)):
                kind = rng.choice(["none", "nometa"]) if mn is None else "new"
            if kind == "new":
                g.update(mn=mn, mx=mx)
            elif kind == "old":
                g.update(omn=mn, omx=mx)
            elif kind == "both":         # new fields are preferred; the deprecated ones may hold anything
                g.update(mn=mn, mx=mx, omn=rand_value(t, rng, flen, allow_nan=False), omx=rand_value(t, rng, flen, allow_nan=False))
            elif kind == "loose":        # still true bounds, not tight
                lo = [v for v in neighbours(t, mn, rng) if not is_nan(t, v) and len(v) == len(mn) or t == BYTE_ARRAY]
                hi = [v for v in neighbours(t, mx, rng) if not is_nan(t, v) and len(v) == len(mx) or t == BYTE_ARRAY]
                lo = [v for v in lo if v and not is_nan(t, v) and key(t, v) <= key(t, mn)] or [mn]
                hi = [v for v in hi if v and not is_nan(t, v) and key(t, v) >= key(t, mx)] or [mx]
                g.update(mn=min(lo, key=lambda v: key(t, v)), mx=max(hi, key=lambda v: key(t, v)))
            elif kind == "none":
                g.update(stats=0, nc=None)
            elif kind == "nometa":
                g.update(meta=0, stats=0, nc=None)
            elif kind == "half":         # only one bound: treated as absent
                if rng.random() < 0.5: g.update(mn=mn)
                else: g.update(omx=mx)
            elif kind == "wrong":        # NOT true bounds: model agreement only
                g.update(mn=mx, mx=mn, tb=(key(t, mn) == key(t, mx)))
                if rng.random() < 0.3 and t in (FLOAT, DOUBLE):
                    g.update(mx=f32b(F32_NAN[0]) if t == FLOAT else f64b(F64_NAN[0]), tb=False)
            if rng.random() < 0.1:
                g["nc"] = None
            if g["stats"] and rng.random() < 0.4:      # the remaining Statistics fields: passed through / skipped, bounds unaffected
                g.update(dc=rng.choice([0, 1, 7, 2**40]) if rng.random() < 0.7 else None, xmax=rng.choice([None, True, False]),
                         xmin=rng.choice([None, True, False]), unk=rng.random() < 0.5)
            rgs.append(g); datas.append(data); allv += data
        fbytes, ttok, tcol = footer_with_stats(t, flen, rgs, random_shape(rng), rng.choice(pq.ORDERS) if rng.random() < 0.25 else None, rng)
        file_hex = fbytes.hex()
        s_txt = ";".join("%d/%d/%d/%s/%s/%s/%s/%s" % (g["meta"], g["stats"], g["nv"], "-" if g["nc"] is None else g["nc"],
                                                      hx(g["mn"]), hx(g["mx"]), hx(g["omn"]), hx(g["omx"])) for g in rgs)
        d_txt = ";".join(vals_text(d) for d in datas)
        mnA, mxA = bounds(t, allv)
        ps = probes_for(t, allv, mnA, mxA, rng, flen)
        if t in (BYTE_ARRAY,):
            ps = [p for p in ps if len(p) <= 60]
        rng.shuffle(ps)
        for p in ps[:rng.choice([2, 4, 6])]:
            if t in (INT32, FLOAT) and len(p) != 4 or t in (INT64, DOUBLE) and len(p) != 8 or t == FLBA and len(p) != flen:
                continue
            op = rng.randrange(6) if rng.random() < 0.97 else rng.choice([6, -1, 100])
            if degenerate and rng.random() < 0.5:
                op = NE
            ncols = ttok.count(".") + 1
            col = tcol if rng.random() < 0.96 else rng.choice([-1, ncols, ncols + 1])
            maxidx = rng.choice([nrg, nrg, nrg + 1, 1, 2, max(1, nrg - 1), 0, -1])
            line = "rd %s %s %d %d %s %d %s %s" % (file_hex, ttok, col, op, hx(p), maxidx, s_txt, d_txt)
            exp = []
            for g in rgs:
                if not g["meta"]:
                    exp.append("0:0:0:0:-:-")
                    continue
                hn = 1 if (g["stats"] and g["nc"] is not None) else 0
                nc = g["nc"] if hn else 0
                pair = None
                if g["stats"]:
                    if g["mn"] and g["mx"]: pair = (g["mn"], g["mx"])
                    elif g["omn"] and g["omx"]: pair = (g["omn"], g["omx"])
                exp.append("%d:%d:%d:%d:%s:%s" % (1 if pair else 0, hn, nc, g["nv"], pair[0].hex() if pair else "-", pair[1].hex() if pair else "-"))
            out.append((line, {"kind": "rd", "tcol": tcol, "tb": [g["tb"] for g in rgs], "nrg": nrg, "cs": exp,
                               "dc": ["-" if not (g["meta"] and g["stats"]) or g.get("dc") is None else str(g["dc"]) for g in rgs],
                               "absent": [e.startswith("0:") for e in exp]}))
    return out


def gen_rd_long(tier, rng):
    """foreign files whose BYTE_ARRAY / FLBA statistics are true bounds LONGER than anything carquet's own builder keeps:
    values of 250..300 and 70000 bytes that share long prefixes, statistics in the new or the deprecated fields"""
    out = []
    k = 60 if tier == "quick" else 600
    for ci in range(k):
        huge = (ci % 20 == 0)
        L = 70000 if huge else rng.choice([250, 255, 256, 257, 258, 300, 513])
        t = BYTE_ARRAY if huge or rng.random() < 0.75 else FLBA
        prefix = bytes(rng.choice([0x61, 0x7A, 0x80, 0xFF, 0x00, rng.getrandbits(8)]) for _ in range(8)) * (L // 8 + 1)
        if rng.random() < 0.35:
            prefix = bytes([rng.choice([0xFF, 0xFF, 0x00])]) * (L + 8)       # all-0xFF / all-0x00 prefixes: the hard cases of any truncation
        shared = rng.choice([L - 1, L - 1, 256, 255, 257, L - 20]) if L > 257 else L - 1
        shared = max(1, min(shared, L - 1))

        def val():
            if t == FLBA:
                tail = bytes(rng.choice([0, 1, 0x7F, 0x80, 0xFF]) for _ in range(L - shared))
                return prefix[:shared] + tail
            n = rng.choice([shared, shared + 1, L, L, L + 1, 256, 257])
            tail = bytes(rng.choice([0, 1, 0x61, 0x7F, 0x80, 0xFF]) for _ in range(max(0, n - shared)))
            return prefix[:min(shared, n)] + tail
        nrg = rng.choice([1, 2, 3])
        rgs, datas, allv = [], [], []
        for _ in range(nrg):
            data = [val() for _ in range(rng.choice([1, 2, 3]))]
            mn, mx = bounds(t, data)
            g = dict(meta=1, stats=1, nv=len(data), nc=0, mn=None, mx=None, omn=None, omx=None, tb=True)
            if len(mn) == 0 or len(mx) == 0:
                g.update(stats=0, nc=None)
            elif rng.random() < 0.5:
                g.update(mn=mn, mx=mx)
            else:
                g.update(omn=mn, omx=mx)
            rgs.append(g); datas.append(data); allv += data
        flen = L if t == FLBA else 0
        fbytes, ttok, tcol = footer_with_stats(t, flen, rgs, random_shape(rng) if rng.random() < 0.5 else None,
                                               rng.choice(pq.ORDERS) if rng.random() < 0.25 else None, rng)
        file_hex = fbytes.hex()
        s_txt = ";".join("%d/%d/%d/%s/%s/%s/%s/%s" % (g["meta"], g["stats"], g["nv"], "-" if g["nc"] is None else g["nc"],
                                                      hx(g["mn"]), hx(g["mx"]), hx(g["omn"]), hx(g["omx"])) for g in rgs)
        d_txt = ";".join(vals_text(d) for d in datas)
        mnA, mxA = bounds(t, allv)
        probes = [mxA, mnA, mxA[:256], mxA[:255], mxA[:257], mnA[:256]] + allv[:2]
        if t == BYTE_ARRAY:
            probes += [mxA + b"\x00", mxA[:-1], mxA[:256] + b"\xff", mnA + b"\x01"]
        else:
            probes = [p_ for p_ in probes if len(p_) == L]
        probes = [p_ for p_ in probes if len(p_) > 0]
        rng.shuffle(probes)
        for p_ in probes[:2 if huge else 5]:
            exp = []
            for g in rgs:
                pair = (g["mn"], g["mx"]) if g["mn"] else (g["omn"], g["omx"]) if g["omn"] else None
                exp.append("%d:%d:%d:%d:%s:%s" % (1 if pair else 0, 1 if g["nc"] is not None else 0, 0, g["nv"],
                                                   pair[0].hex() if pair else "-", pair[1].hex() if pair else "-"))
            for op in ([EQ, GT, GE] if not huge else [rng.choice([EQ, GT, GE])]) + [rng.randrange(6)]:
                out.append(("rd %s %s %d %d %s %d %s %s" % (file_hex, ttok, tcol, op, hx(p_), nrg, s_txt, d_txt),
                            {"kind": "rd", "tcol": tcol, "tb": [g["tb"] for g in rgs], "nrg": nrg, "cs": exp, "absent": [e.startswith("0:") for e in exp]}))
    return out


def page_batches(t, rng, flen, maxdef, pool):
    """one page for the page writer: (batches text, values, nulls)"""
    batches, vals, nulls = [], [], 0
    allnull = maxdef > 0 and rng.random() < 0.12
    for _ in range(rng.choice([1, 1, 2])):
        nv = rng.choice([1, 2, 3, 5])
        if maxdef > 0 and (allnull or rng.random() < 0.75):
            defs = [0] * nv if allnull else [rng.choice([maxdef, maxdef, 0]) for _ in range(nv)]
            nn = sum(1 for d in defs if d == maxdef)
            nulls += nv - nn
            dtxt = "".join(str(d) for d in defs)
        else:
            nn, dtxt = nv, "-"
        vs = [rand_value(t, rng, flen, pool=pool) for _ in range(nn)]
        if t == BYTE_ARRAY:
            vs = [v[:40] for v in vs]
        vals += vs
        if rng.random() < 0.2:
            batches.append(rng.choice(["s0", "s0", "s1"]))      # statistics option toggled between add_values calls / across pages
        batches.append("%s/%s/%d" % (vals_text(vs), dtxt, nv))
    return ",".join(batches), vals, nulls


def gen_pmw(tier, rng):
    """column indexes built from REAL pages: every page goes through carquet's page writer, whose statistics (or their
    absence: BYTE_ARRAY / FLBA / BOOLEAN pages, all-NaN pages) and null count feed carquet_column_index_add_page"""
    out = []
    k = 2500 if tier == "quick" else 25000
    for _ in range(k):
        t = rng.choice([INT32, INT64, FLOAT, DOUBLE, BYTE_ARRAY, BYTE_ARRAY, FLBA, BOOLEAN])
        flen = rng.choice([1, 3, 16]) if t == FLBA else 0
        maxdef = rng.choice([0, 1, 1, 1])
        pool = [rand_value(t, rng, flen or 3) for _ in range(rng.randint(1, 4))]
        if t == BYTE_ARRAY:
            pool = [v[:40] for v in pool] + [b""]
        npage = rng.choice([1, 2, 3, 5])
        pages = [page_batches(t, rng, flen or 3, maxdef, pool) for _ in range(npage)]
        idx = rng.randrange(npage)
        vals = pages[idx][1]
        mn, mx = bounds(t, vals) if vals else (None, None)
        ps = probes_for(t, vals, mn, mx, rng, flen or 3)
        w = {INT32: 4, FLOAT: 4, INT64: 8, DOUBLE: 8, BOOLEAN: 1}.get(t)
        ps = [p_ for p_ in ps if (w is None or len(p_) == w) and (t != FLBA or len(p_) == flen) and (t != BYTE_ARRAY or len(p_) <= 60)]
        a = rng.choice(ps) if ps and rng.random() < 0.7 else None
        b = rng.choice(ps) if ps and rng.random() < 0.7 else None
        if a is not None and b is not None:
            if not is_nan(t, a) and not is_nan(t, b) and key(t, a) > key(t, b):
                a, b = b, a
            if t == BYTE_ARRAY and len(a) != len(b):
                a = None
        for q in (a, b):
            pass
        if (a is not None and len(a) == 0) or (b is not None and len(b) == 0):
            a = b = None                      # an empty query bound cannot be told from "unbounded" through the API
        out.append(("pmw %d %d %d %s %d %s %s" % (t, flen, maxdef, ";".join(pg[0] for pg in pages), idx,
                                                 "N" if a is None else hx(a), "N" if b is None else hx(b)),
                    {"kind": "pmw", "tb": True}))
    return out


def growth_page_counts(tier):
    """page counts around every re-allocation of the column index builder: its initial capacity is read from
    src/metadata/page_index.c (tools/gen.d/stats.py), it doubles from there"""
    import importlib.util
    f = vlib.VERIF / "tools" / "gen.d" / "stats.py"
    spec = importlib.util.spec_from_file_location("gen_stats_for_c16", f)
    mod = importlib.util.module_from_spec(spec)
    spec.loader.exec_module(mod)
    c0 = max(1, mod.column_index_initial_capacity(vlib.REPO))
    counts, c = set(), c0
    top = 140 if tier == "quick" else 600
    while c - 1 <= top:
        counts.update(x for x in (c - 1, c, c + 1, c + 2) if 1 <= x <= top + 2)
        c *= 2
    counts.update([1, 2, 3])
    if tier != "quick":
        counts.update([200, 300, 400])
    return sorted(counts), c0


def gen_pmh(tier, rng):
    """long add_page histories: page counts around every growth step of the builder's arrays, EVERY page probed with every
    query after the last add (pages recorded before a re-allocation must keep their bounds), all physical types"""
    out = []
    counts, c0 = growth_page_counts(tier)
    types = [INT32, INT64, FLOAT, DOUBLE, BYTE_ARRAY, FLBA, INT96]
    reps = 1 if tier == "quick" else 3
    for n in counts:
        for t in types:
            if tier == "quick" and n > 70 and t not in (INT32, DOUBLE, BYTE_ARRAY) and rng.random() < 0.5:
                continue
            for _ in range(reps):
                flen = 3 if t == FLBA else 0
                pages, allv = [], []
                order = n % 3            # the driver declares this boundary order: 1 ASCENDING, 2 DESCENDING, 0 UNORDERED
                if order:
                    # pages REALLY in that order: sorted values cut into consecutive runs (min and max sequences both monotone)
                    pool_ = sorted({bytes(v) for v in ((rand_value(t, rng, flen, allow_nan=False)[:24] or b"a") for _ in range(3 * n + 8))},
                                   key=lambda v: key(t, v))
                    runs, pos_ = [], 0
                    for i in range(n):
                        take = rng.choice([1, 1, 2, 3])
                        runs.append(pool_[pos_:pos_ + take] or [pool_[-1]])
                        pos_ = min(pos_ + take, len(pool_) - 1)
                    if order == 2:
                        runs.reverse()
                    for data in runs:
                        if rng.random() < 0.05:
                            pages.append("%d/-/-/1/-" % rng.choice([1, 4]))      # null pages may sit anywhere
                            continue
                        mn, mx = bounds(t, data)
                        pages.append("%d/%s/%s/0/%s" % (rng.choice([0, 0, 2]), hx(mn), hx(mx), vals_text(data)))
                        allv += data
                for i in range(n if not order else 0):
                    if rng.random() < 0.06:
                        pages.append("%d/-/-/1/-" % rng.choice([1, 4]))          # a null page
                        continue
                    data = [rand_value(t, rng, flen) for _ in range(rng.choice([1, 1, 2, 3]))]
                    if t == BYTE_ARRAY:
                        data = [v[:24] or b"a" for v in data]
                    mn, mx = bounds(t, data)
                    r = rng.random()
                    smn = None if (mn is None or r < 0.05) else mn
                    smx = None if (mx is None or 0.05 <= r < 0.10) else mx
                    pages.append("%d/%s/%s/0/%s" % (rng.choice([0, 0, 2]), hx(smn), hx(smx), vals_text(data)))
                    allv += [v for v in data if not is_nan(t, v)]
                if not allv:
                    continue
                w = {INT32: 4, FLOAT: 4, INT64: 8, DOUBLE: 8, INT96: 12}.get(t)
                qs = []
                srt = sorted(allv, key=lambda v: key(t, v))
                # ranges outside the first / last page's bounds but inside other pages: the two ends and the middle of the column
                qs += ["%s/N" % hx(srt[-1]), "N/%s" % hx(srt[0]), "%s/%s" % (hx(srt[len(srt) // 2]), hx(srt[len(srt) // 2]))]
                for _ in range(5):
                    a, b = rng.choice(allv), rng.choice(allv)
                    if key(t, a) > key(t, b):
                        a, b = b, a
                    shape = rng.choice(["lo", "lo", "both", "both", "hi", "point"])
                    if shape == "point":
                        b = a
                    if t == BYTE_ARRAY and shape in ("both",) and len(a) != len(b):
                        shape = "lo"
                    if shape == "lo":
                        qs.append("%s/N" % hx(a))
                    elif shape == "hi":
                        qs.append("N/%s" % hx(b))
                    else:
                        qs.append("%s/%s" % (hx(a), hx(b)))
                out.append(("pmh %d %s %s" % (t, ";".join(pages), ";".join(qs)), {"kind": "pmh", "pages": n, "initial_capacity": c0}))
    return out


def gen_pm_prefix(tier, rng):
    """BYTE_ARRAY / FLBA page bounds longer than any plausible truncation length (32, 64, 128, 256) that START with k >= that
    many 0xFF bytes (a truncated max cannot be incremented there), 0x00-prefixed and all-equal-prefix families for the min side;
    every page probed with point and lower-bounded queries at its own values"""
    out = []
    tails = [b"", b"\x00", b"a", b"\xff", b"\xff\xfe", b"\x01\x02\x03"]
    for L in (32, 64, 128, 256):
        for k in (L - 1, L, L + 1, L + 7, 2 * L):
            for fill in (0xFF, 0x00, 0x61):
                vals = [bytes([fill]) * k + t_ for t_ in tails]
                if tier == "quick":
                    vals = rng.sample(vals, 4)
                pages, qs = [], []
                for v in vals:
                    other = bytes([fill]) * k + rng.choice(tails)
                    data = [v, other]
                    mn, mx = bounds(BYTE_ARRAY, data)
                    pages.append("0/%s/%s/0/%s" % (hx(mn), hx(mx), vals_text(data)))
                    qs += ["%s/%s" % (hx(v), hx(v)), "%s/N" % hx(mx), "N/%s" % hx(mn)]
                rng.shuffle(qs)
                out.append(("pmh %d %s %s" % (BYTE_ARRAY, ";".join(pages), ";".join(qs[:8])), {"kind": "pmh", "pages": len(pages)}))
    return out


def gen_pmw_hist(tier, rng):
    """the same through real pages: many pages written by the page writer, all of them probed after the last add"""
    out = []
    counts, c0 = growth_page_counts(tier)
    counts = [n for n in counts if n <= (70 if tier == "quick" else 300)]
    for n in counts:
        for t in ([INT32, DOUBLE, BYTE_ARRAY] if tier == "quick" else [INT32, INT64, FLOAT, DOUBLE, BYTE_ARRAY, FLBA]):
            flen = 3 if t == FLBA else 0
            maxdef = rng.choice([0, 1])
            pool = [rand_value(t, rng, flen or 3) for _ in range(6)]
            if t == BYTE_ARRAY:
                pool = [v[:24] or b"b" for v in pool]
            pages = [page_batches(t, rng, flen or 3, maxdef, pool) for _ in range(n)]
            allv = [v for pg in pages for v in pg[1] if not is_nan(t, v) and len(v) > 0]
            if not allv:
                continue
            for shape in ("lo", "both"):
                a, b = rng.choice(allv), rng.choice(allv)
                if key(t, a) > key(t, b):
                    a, b = b, a
                if shape == "both" and t == BYTE_ARRAY and len(a) != len(b):
                    b = a
                out.append(("pmw %d %d %d %s all %s %s" % (t, flen, maxdef, ";".join(pg[0] for pg in pages), hx(a), "N" if shape == "lo" else hx(b)),
                            {"kind": "pmw", "tb": True, "pages": n}))
    return out


def gen_helpers(tier, rng):
    out = []
    k = 10000 if tier == "quick" else 250000
    for _ in range(k):
        which = rng.choice(["cmp", "ovl", "ovl", "pm", "pm"])
        t = rng.choice(READER_TYPES + [INT96] + ([BOOLEAN] if which != "pm" else []))
        flen = rng.choice([1, 3, 16]) if t == FLBA else 0
        pool = [rand_value(t, rng, flen) for _ in range(rng.randint(1, 4))]
        data = [rand_value(t, rng, flen, pool=pool) for _ in range(rng.choice([1, 1, 2, 3, 6]))]
        if t == BYTE_ARRAY:
            data = [v for v in data if 0 < len(v) <= 40] or [b"a"]
        mn, mx = bounds(t, data)
        tb = True
        if mn is None:
            smn = smx = None
        else:
            smn, smx = mn, mx
            r = rng.random()
            if r < 0.12: smn = None
            elif r < 0.24: smx = None
            elif r < 0.30 and key(t, mn) != key(t, mx): smn, smx, tb = mx, mn, False
        ps = probes_for(t, data, mn, mx, rng, flen)
        w = {INT32: 4, FLOAT: 4, INT64: 8, DOUBLE: 8, BOOLEAN: 1, INT96: 12}.get(t)
        ps = [p for p in ps if (w is None or len(p) == w) and (t != FLBA or len(p) == flen) and (t != BYTE_ARRAY or 0 < len(p) <= 60)]
        if not ps:
            continue
        if which == "cmp":
            v = rng.choice(ps)
            out.append(("cmp %d %s %s %s %s" % (t, hx(smn), hx(smx), hx(v), vals_text(data)), {"kind": "cmp", "tb": tb}))
            continue
        a, b = rng.choice(ps), rng.choice(ps)
        if not is_nan(t, a) and not is_nan(t, b) and key(t, a) > key(t, b):
            a, b = b, a
        if t in (BYTE_ARRAY,) and len(a) != len(b):      # the API has a single value_len for both bounds
            if rng.random() < 0.5: a = None
            else: b = None
        r = rng.random()
        if r < 0.15: a = None
        elif r < 0.30: b = None
        qa, qb = ("N" if a is None else hx(a)), ("N" if b is None else hx(b))
        if which == "ovl":
            out.append(("ovl %d %s %s %s %s %s" % (t, hx(smn), hx(smx), qa, qb, vals_text(data)), {"kind": "ovl", "tb": tb}))
        else:
            npage = rng.choice([1, 2, 3])
            idx = rng.randrange(npage)
            pages = []
            for i in range(npage):
                if i == idx:
                    nullpage = 0
                    if rng.random() < 0.08:
                        nullpage, pdata = 1, []
                    pages.append("%d/%s/%s/%d" % (rng.choice([0, 2]), hx(smn), hx(smx), nullpage))
                else:
                    o = rand_value(t, rng, flen, allow_nan=False)
                    pages.append("0/%s/%s/0" % (hx(o) if o else "-", hx(o) if o else "-"))
            nullp = pages[idx].endswith("/1")
            qidx = idx if rng.random() < 0.95 else rng.choice([-1, npage, npage + 3])
            out.append(("pm %d %s %d %s %s %s" % (t, ";".join(pages), qidx, qa, qb, "-" if nullp else vals_text(data)),
                        {"kind": "pm", "tb": tb and qidx == idx}))
    # pages that hold values AND nulls but carry no usable min/max (absent, or zero-length: min = max = ""): absent
    # statistics mean "might match"; only the caller's is_null_page flag makes a null page
    for _ in range(300 if tier == "quick" else 3000):
        t = rng.choice([BYTE_ARRAY, BYTE_ARRAY, FLBA, INT32, DOUBLE])
        flen = 3 if t == FLBA else 0
        empties = t == BYTE_ARRAY and rng.random() < 0.5
        data = [b""] * rng.choice([1, 2]) if empties else [rand_value(t, rng, flen, allow_nan=False) for _ in range(rng.choice([1, 2, 4]))]
        if t == BYTE_ARRAY and not empties:
            data = [v[:40] or b"a" for v in data]
        bound = "e" if empties else rng.choice(["-", "-", "e"])
        nulls = rng.choice([1, 1, 3, 0])
        w = {INT32: 4, DOUBLE: 8}.get(t)
        ps = [p_ for p_ in probes_for(t, data, *bounds(t, data), rng, flen) if (w is None or len(p_) == w) and (t != FLBA or len(p_) == flen) and 0 < len(p_) <= 60]
        a = rng.choice(ps) if ps and rng.random() < 0.5 else None
        b = rng.choice(ps) if ps and rng.random() < 0.5 else None
        if a is not None and b is not None and (len(a) != len(b) or key(t, a) > key(t, b)):
            b = None
        out.append(("pm %d %d/%s/%s/0 0 %s %s %s" % (t, nulls, bound, bound, "N" if a is None else hx(a), "N" if b is None else hx(b), vals_text(data)),
                    {"kind": "pm", "tb": True}))
    # INT96 range [5, 2^32] vs query [6, 6]
    a5, b32, q6 = (5).to_bytes(12, "little"), (2**32).to_bytes(12, "little"), (6).to_bytes(12, "little")
    out.append(("ovl 3 %s %s %s %s %s" % (a5.hex(), b32.hex(), q6.hex(), q6.hex(), vals_text([a5, q6, b32])), {"kind": "ovl", "tb": True}))
    out.append(("pm 3 0/%s/%s/0 0 %s %s %s" % (a5.hex(), b32.hex(), q6.hex(), q6.hex(), vals_text([a5, q6, b32])), {"kind": "pm", "tb": True}))
    # DESIGN section 6 F16 witness
    out.append(("pm 1 0/01000000/e8030000/0 0 00000000 00010000 05000000.e8030000.01000000", {"kind": "pm", "tb": True}))
    return out


def gen_file(tier, rng):
    """the public writer (statistics on) and reader: (line, meta) with the data of every row group"""
    out = []
    k = 1200 if tier == "quick" else 40000
    for _ in range(k):
        t = rng.choice([INT32, INT64, FLOAT, DOUBLE])
        nullable = rng.random() < 0.6
        pool = [rand_value(t, rng) for _ in range(rng.randint(1, 5))]
        groups, metas, pws = [], [], []
        for _ in range(rng.choice([1, 1, 2, 3])):
            batches, vals, nulls, rows = [], [], 0, []
            for _ in range(rng.choice([1, 1, 2, 4])):
                nv = rng.choice([1, 2, 3, 7, 12])
                if nullable and rng.random() < 0.8:
                    defs = [rng.choice([1, 1, 1, 0]) for _ in range(nv)]
                    nn = sum(defs)
                    nulls += nv - nn
                    dtxt = "".join(str(d) for d in defs)
                else:
                    defs = [1] * nv
                    nn, dtxt = nv, "-"
                vs = [rand_value(t, rng, pool=pool) for _ in range(nn)]
                it = iter(vs)
                rows += [next(it).hex() if d else None for d in defs]     # the logical rows in order (None = null)
                vals += vs
                batches.append("%s/%s/%d" % (vals_text(vs), dtxt, nv))
            groups.append(",".join(batches))
            metas.append({"vals": [v.hex() for v in vals], "nulls": nulls, "rows": rows})
            pws.append("pw %d %d %s" % (t, 1 if nullable else 0, ",".join(batches)))
        allv = [bytes.fromhex(v) for m_ in metas for v in m_["vals"]]
        mn, mx = bounds(t, allv)
        ps = probes_for(t, allv, mn, mx, rng, 0)
        w = 4 if t in (INT32, FLOAT) else 8
        ps = [p for p in ps if len(p) == w] or [rand_value(t, rng)]
        page_size = rng.choice([0, 0, 16, 40, 100])      # 0 = the default 1 MiB (one page per chunk); small = several pages
        codec = rng.choice([0, 0, 0, 1, 2, 5, 6, 7])     # UNCOMPRESSED, SNAPPY, GZIP, LZ4, ZSTD, LZ4_RAW
        out.append(("file %d %d %s %d %s %d %d" % (t, 1 if nullable else 0, ";".join(groups), rng.randrange(6), hx(rng.choice(ps)), page_size, codec),
                    {"kind": "file", "type": t, "groups": metas, "pw": pws if page_size == 0 else []}))
    return out


def judge_file(line, meta, impl, models):
    """impl: the driver's answer; models: the runner's answers to the companion pw lines (one per row group)"""
    out = []
    if not impl.startswith("OK"):
        out.append(("violation", "writer/reader driver: " + impl[:200]))
        return out
    a = kv(impl)
    t = meta["type"]
    if a.get("close") != "0" or "file" not in a:
        out.append(("violation", "the writer did not complete the file: w=%s close=%s" % (a.get("w"), a.get("close"))))
        return out
    b = bytes.fromhex(a["file"])
    try:
        flen = struct.unpack("<I", b[-8:-4])[0]
        fm, _ = pq.dec_struct(b[-8 - flen:-8])
        rgs = fm.get(4, [])
    except Exception as e:
        out.append(("violation", "the written footer does not parse: %r" % (e,)))
        return out
    groups = meta["groups"]
    if len(rgs) != len(groups):
        out.append(("violation", "%d row groups written, %d in the footer" % (len(groups), len(rgs))))
        return out
    for i, (rg, g) in enumerate(zip(rgs, groups)):
        cm = rg[1][0].get(3, {})
        rows = g["rows"]
        pos, row0, npages = cm.get(9, 0), 0, 0
        while row0 < len(rows) and npages < 10000:
            try:
                hdr, body = pq.dec_struct(b, pos)
                dph = hdr.get(5, {})
                n, st = dph.get(1, 0), dph.get(5)
            except Exception as e:
                out.append(("violation", "row group %d page %d: page header does not parse: %r" % (i, npages, e)))
                break
            if hdr.get(1) != 0 or n <= 0:
                out.append(("violation", "row group %d page %d: not a data page with rows (type %s, num_values %s)" % (i, npages, hdr.get(1), n)))
                break
            prow = rows[row0:row0 + n]
            vals = [bytes.fromhex(v) for v in prow if v is not None]
            pnulls = sum(1 for v in prow if v is None)
            if npages == 0 and len(models) > i and row0 + n == len(rows):
                mtxt = "STATS none" if st is None else "STATS nulls=%s min=%s max=%s" % (st.get(3), hx(st.get(6)), hx(st.get(5)))
                if mtxt != models[i]:
                    out.append(("tie", "row group %d: page header %s, page-writer model %s" % (i, mtxt, models[i][:120])))
            if st is not None:
                mn, mx, nc = st.get(6, st.get(2)), st.get(5, st.get(1)), st.get(3)
                where = "row group %d page %d (rows %d..%d)" % (i, npages, row0, row0 + n - 1)
                if nc is not None and nc != pnulls:
                    out.append(("violation", "%s: page header null_count %s, the page has %d nulls" % (where, nc, pnulls)))
                for nm, bnd in (("min", mn), ("max", mx)):
                    if bnd is not None and is_nan(t, bnd):
                        out.append(("violation", "%s: page header %s is NaN" % (where, nm)))
                        bnd = None
                    for j2, v in enumerate(vals):
                        if bnd is None or is_nan(t, v):
                            continue
                        if (nm == "min" and key(t, bnd) > key(t, v)) or (nm == "max" and key(t, v) > key(t, bnd)):
                            out.append(("violation", "%s: page header %s %s does not bound value %s" % (where, nm, bnd.hex(), v.hex())))
                            break
            row0 += n
            npages += 1
            pos = body + hdr.get(3, 0)
        if row0 != len(rows):
            out.append(("violation", "row group %d: pages hold %d rows, %d were written" % (i, row0, len(rows))))
        stt = cm.get(12)
        if stt is not None:          # chunk-level statistics, should the writer emit them
            vals = [bytes.fromhex(v) for v in g["vals"]]
            mn, mx, nc = stt.get(6, stt.get(2)), stt.get(5, stt.get(1)), stt.get(3)
            if nc is not None and nc != g["nulls"]:
                out.append(("violation", "row group %d: chunk null_count %s, the data has %d nulls" % (i, nc, g["nulls"])))
            for nm, bnd in (("min", mn), ("max", mx)):
                if bnd is None:
                    continue
                if is_nan(t, bnd) or any(not is_nan(t, v) and ((nm == "min" and key(t, bnd) > key(t, v)) or (nm == "max" and key(t, v) > key(t, bnd))) for v in vals):
                    out.append(("violation", "row group %d: chunk %s %s is not a bound of the data" % (i, nm, bnd.hex())))
    # the reader on carquet's own file
    truth = impl.rpartition(" T=")[2]
    ms = [] if a.get("m", "-") == "-" else [x.split(":") for x in a["m"].split(";")]
    for i, m in enumerate(ms):
        if truth[i:i + 1] == "1" and m[0] == "0" and m[1] != "1":
            out.append(("violation", "row group %d of a carquet-written file holds a matching value but row_group_matches says no match" % i))
    for i, c in enumerate([] if a.get("cs", "-") == "-" else a["cs"].split(";")):
        f_ = c.split(":")
        if len(f_) == 6 and f_[0] == "1" and i < len(groups):
            vals = [bytes.fromhex(v) for v in groups[i]["vals"]]
            mn, mx = bytes.fromhex(f_[4]), bytes.fromhex(f_[5])
            if is_nan(t, mn) or is_nan(t, mx) or any(not is_nan(t, v) and (key(t, mn) > key(t, v) or key(t, v) > key(t, mx)) for v in vals):
                out.append(("violation", "row group %d: column statistics %s/%s of a carquet-written file are not true bounds" % (i, f_[4], f_[5])))
    return out


def run_file_cases(rep, drv, run, cases, dist):
    lines = [c[0] for c in cases]
    impl, p1 = run_sharded(drv, lines)
    pw_lines, owner = [], []
    for ci, (_, meta) in enumerate(cases):
        for l in meta["pw"]:
            pw_lines.append(l)
            owner.append(ci)
    model, p2 = run_sharded(run, pw_lines)
    for pr in p1:
        err = pr[2]
        k = max(err.find("ERROR: AddressSanitizer"), err.find("runtime error"))
        err = err[k - 40 if k > 40 else 0:][:700] if k >= 0 else err[-700:]
        rep.violation("file: implementation driver died (rc=%s) %s" % (pr[1], " ".join(err.split())), {"case": pr[3], "meta": {"kind": "file"}})
    for pr in p2:
        rep.tie_broken("file: model runner died (rc=%s): %s" % (pr[1], pr[2][-300:]), pr[3])
    per = {}
    for ci, mo in zip(owner, model):
        per.setdefault(ci, []).append(mo)
    for ci, ((li, meta), a) in enumerate(zip(cases, impl)):
        rep.count(li)
        dist["file"] = dist.get("file", 0) + 1
        if a == "FAULT died":
            continue
        try:
            fverd = judge_file(li, meta, a, per.get(ci, []))
        except Exception as ex:
            fverd = [("violation", "the driver's answer cannot be interpreted (%s: %s): %s" % (type(ex).__name__, ex, a[:300]))]
        for kind, text in fverd:
            if kind == "violation":
                rep.violation("file: " + text, {"case": li, "meta": meta, "impl": a[:1500]})
            else:
                rep.tie_broken("file: " + text, {"case": li, "meta": meta})


def check_column_index(line, ser):
    """the ColumnIndex carquet serialises must state exactly what was added: null_pages, min/max values (empty when absent),
    boundary_order, null_counts (parsed with the independent Thrift reader of pq_min.py)"""
    st, _, hexs_ = ser.partition(":")
    if st != "0":
        return ["carquet_column_index_serialize failed: " + ser[:40]]
    pages = [p.split("/") for p in line.split()[2].split(";")]
    try:
        d, _ = pq.dec_struct(bytes.fromhex(hexs_) if hexs_ != "-" else b"\x00")
    except Exception as e:
        return ["the serialised ColumnIndex does not parse: %r" % (e,)]
    def b(x):
        return b"" if x in ("-", "e") else bytes.fromhex(x)
    want = {1: [p[3] == "1" for p in pages], 2: [b(p[1]) for p in pages], 3: [b(p[2]) for p in pages],
            4: len(pages) % 3, 5: [int(p[0]) for p in pages]}
    out = []
    t = int(line.split()[1])
    if t in (BYTE_ARRAY, FLBA):
        # a serialised byte-array bound may be a shortened one as long as it still bounds (min <= added min, max >= added max)
        for fid, ok in ((2, lambda g, w_: g <= w_), (3, lambda g, w_: g >= w_)):
            g_ = d.get(fid)
            if isinstance(g_, list) and len(g_) == len(want[fid]) and all((w_ == b"" and x == b"") or (w_ != b"" and x != b"" and ok(x, w_)) for x, w_ in zip(g_, want[fid])):
                want[fid] = g_
    for fid, name in ((1, "null_pages"), (2, "min_values"), (3, "max_values"), (4, "boundary_order"), (5, "null_counts")):
        if d.get(fid) != want[fid]:
            got, w = d.get(fid), want[fid]
            where = next((i for i, (x, y) in enumerate(zip(got, w)) if x != y), "length") if isinstance(got, list) else ""
            out.append("serialised ColumnIndex of %d pages: %s differs from what was added (first difference at page %s)" % (len(pages), name, where))
    return out


def gen_oix(tier, rng):
    counts, c0 = growth_page_counts(tier)
    out = []
    for n in [0] + [c for c in counts if c <= (70 if tier == "quick" else 600)]:
        for track in (0, 1):
            off, row, pages = 4, 0, []
            for _ in range(n):
                cs, us = rng.choice([1, 17, 4096, 2**31 - 1]), rng.choice([1, 100, 2**31 - 1])
                pages.append("%d/%d/%d/%d" % (off, cs, row, us))
                off += cs
                row += rng.choice([1, 1000, 2**33])
            out.append(("oix %d %s" % (track, ";".join(pages) or "-"), {"kind": "oix"}))
    return out


def check_offset_index(line, impl):
    a = kv(impl)
    st, _, hexs_ = a.get("ser", "").partition(":")
    if st != "0" or a.get("addbad") != "0":
        return ["offset index builder: " + impl[:80]]
    toks = line.split()
    pages = [] if toks[2] == "-" else [tuple(int(x) for x in p.split("/")) for p in toks[2].split(";")]
    try:
        d, _ = pq.dec_struct(bytes.fromhex(hexs_))
    except Exception as e:
        return ["the serialised OffsetIndex does not parse: %r" % (e,)]
    got = [(p.get(1), p.get(2), p.get(3)) for p in d.get(1, [])]
    out = []
    if got != [(p[0], p[1], p[2]) for p in pages]:
        out.append("serialised OffsetIndex of %d pages: page locations differ from what was added" % len(pages))
    if toks[1] == "1" and d.get(2) != [p[3] for p in pages]:
        out.append("serialised OffsetIndex of %d pages: uncompressed_page_sizes differ from what was added" % len(pages))
    if toks[1] == "0" and 2 in d:
        out.append("serialised OffsetIndex carries uncompressed sizes although tracking is off")
    return out


# ------------------------------------------------------------------ judging

def kv(line):
    d = {}
    for t in line.split()[1:]:
        if "=" in t:
            a, b = t.split("=", 1)
            d[a] = b
    return d


def parse_page_stats(hexpage):
    hdr, _ = pq.dec_struct(bytes.fromhex(hexpage))
    st = hdr.get(5, {}).get(5)
    if st is None:
        return None
    return {"nulls": st.get(3), "min": st.get(6), "max": st.get(5), "old": (st.get(1), st.get(2))}


def judge(line, meta, impl, model):
    out = []
    kind = meta["kind"]
    if impl.startswith("FAULT") or impl.startswith("ERR"):
        out.append(("violation", "implementation did not survive the case: " + impl[:200]))
        return out
    if model.startswith("FAULT") or model.startswith("RUNNER-ERROR"):
        out.append(("tie", "model: " + model[:200]))
    if kind == "bld":
        body, _, p = impl.rpartition(" P=")
        body, _, rt = body.rpartition(" RT=")
        if rt != "same":
            out.append(("violation", "the builder's statistics written with carquet's metadata writer and read back through "
                                     "carquet_reader_column_statistics differ: " + rt))
        if model != body and not model.startswith("FAULT"):
            out.append(("tie", "builder model and implementation differ: impl %s / model %s" % (body[:160], model[:160])))
        if p != "1":
            why = p.split(":")
            out.append(("violation", "statistics builder: %s (value #%s of the case): %s" % (why[1], why[2] if len(why) > 2 else "?", body[:200])))
    elif kind == "pw":
        a = kv(impl)
        if a.get("fin") != "0" or a.get("page", "-") == "-":
            out.append(("violation", "page writer did not produce a page: " + impl[:120]))
            return out
        st = parse_page_stats(a["page"])
        t = meta["type"]
        mtxt = "STATS none" if st is None else "STATS nulls=%s min=%s max=%s" % (st["nulls"], hx(st["min"]), hx(st["max"]))
        if mtxt != model:
            out.append(("tie", "page-writer model and page header differ: header %s / model %s" % (mtxt, model[:120])))
        if st is None and not meta.get("nostats") and any(not is_nan(t, bytes.fromhex(v)) for v in meta["vals"]):
            out.append(("violation", "the page holds non-NaN values and statistics are on, but the page header carries no statistics"))
        if meta.get("nostats") and st is not None:
            out.append(("violation", "statistics were switched off with carquet_page_writer_set_statistics but the page header carries them"))
        if st is not None:
            vals = [bytes.fromhex(v) for v in meta["vals"]]
            if st["nulls"] != meta["nulls"]:
                out.append(("violation", "page header null_count %s, the page has %d nulls" % (st["nulls"], meta["nulls"])))
            for nm in ("min", "max"):
                if st[nm] is None or is_nan(t, st[nm]):
                    out.append(("violation", "page header %s is %s" % (nm, "missing" if st[nm] is None else "NaN")))
                    return out
            for i, v in enumerate(vals):
                if is_nan(t, v):
                    continue
                if key(t, st["min"]) > key(t, v) or key(t, v) > key(t, st["max"]):
                    out.append(("violation", "page header min/max %s/%s do not bound value #%d = %s" % (st["min"].hex(), st["max"].hex(), i, v.hex())))
                    break
    elif kind == "rd":
        body, _, truth = impl.rpartition(" T=")
        import re as _re
        mdc = _re.search(r" dc=(\S+)", body)
        body = _re.sub(r" dc=\S+", "", body)
        if mdc and "dc" in meta and int(line.split()[3]) == meta.get("tcol", 0) and mdc.group(1).split(";") != meta["dc"]:
            out.append(("violation", "carquet_reader_column_statistics distinct_count %s, the file states %s" % (mdc.group(1), ";".join(meta["dc"]))))
        if model != body and not model.startswith("FAULT"):
            a, b = kv(body), kv(model)
            diff = [k for k in sorted(set(a) | set(b)) if a.get(k) != b.get(k)]
            out.append(("tie", "reader model and implementation differ in %s: impl %s / model %s" % (
                diff or "status", {k: a.get(k, "")[:100] for k in diff[:3]}, {k: b.get(k, "")[:100] for k in diff[:3]})))
        a = kv(body)
        toks = line.split()
        col, op, maxidx = int(toks[3]), int(toks[4]), int(toks[6])
        if col == meta.get("tcol", 0) and a["cs"].split(";") != meta["cs"]:
            out.append(("violation", "carquet_reader_column_statistics returns %s, the file states %s" % (a["cs"][:200], ";".join(meta["cs"])[:200])))
        ms = [] if a["m"] == "-" else [x.split(":") for x in a["m"].split(";")]
        might = [True if m[0] != "0" else m[1] == "1" for m in ms]
        if col == meta.get("tcol", 0) and 0 <= op <= 5:
            for i, m in enumerate(ms):
                if meta["absent"][i] and might[i] is False:
                    out.append(("violation", "row group %d has no usable statistics but row_group_matches says no match" % i))
                if meta["tb"][i] and truth[i:i + 1] == "1" and not might[i]:
                    out.append(("violation", "row group %d holds a value x with x %s probe, statistics are true bounds, but row_group_matches says no match"
                                % (i, OPNAME[op])))
        # filter_row_groups = first max_indices of the ascending might-match list (whatever the statistics)
        fk, _, fl = a["f"].partition(":")
        got = [] if fl in ("-", "") else [int(x) for x in fl.split(",")]
        if maxidx <= 0:
            if fk != "-1":
                out.append(("violation", "filter_row_groups with max_indices %d returned %s" % (maxidx, fk)))
        else:
            want = [i for i, m in enumerate(might) if m][:maxidx]
            if got != want or fk != str(len(want)):
                out.append(("violation", "filter_row_groups returned %s:%s, the might-match row groups capped at %d are %s" % (fk, got, maxidx, want)))
    elif kind == "oix":
        for text in check_offset_index(line, impl):
            out.append(("violation", text))
    elif kind == "pmh" or (kind == "pmw" and line.split()[5] == "all"):
        body, _, truth = impl.rpartition(" T=")
        truth = truth.split(" ser=")[0]
        if model != body and not model.startswith("FAULT"):
            a, b = kv(body), kv(model)
            diff = [k for k in sorted(set(a) | set(b)) if a.get(k) != b.get(k)]
            out.append(("tie", "column-index model and implementation differ in %s (history of %s pages)" % (diff or "status", meta.get("pages"))))
        got = kv(body).get("m", "")
        if kind == "pmh":
            for text in check_column_index(line, kv(impl).get("ser", "")):
                out.append(("violation", text))
        if "addbad=0" not in body and kind == "pmh":
            out.append(("violation", "carquet_column_index_add_page failed: " + body[:80]))
        for qi, (mq, tq) in enumerate(zip(got.split("|"), truth.split("|"))):
            bad = [i for i, (x, y) in enumerate(zip(mq, tq)) if y == "1" and x != "1"]
            if bad or len(mq) != len(tq):
                out.append(("violation", "column index with %d pages, query #%d: page(s) %s hold a value inside the query range but "
                                         "carquet_column_index_page_might_match says no match (asked after the last add_page)"
                                         % (len(tq), qi, bad[:8])))
                break
    elif kind == "pmw":
        body, _, truth = impl.rpartition(" T=")
        if model != body and not model.startswith("FAULT"):
            out.append(("tie", "page-writer + column-index model and implementation differ: impl %s / model %s" % (body[:200], model[:200])))
        m = kv(body).get("m", "1:1").split(":")
        if truth == "1" and m[0] == "0" and m[1] != "1":
            out.append(("violation", "a page written by the page writer and added to the column index holds a value inside the query range "
                                     "but carquet_column_index_page_might_match says no match (%s)" % kv(body).get("pages", "")[:160]))
    else:
        body, _, truth = impl.rpartition(" T=")
        if model != body and not model.startswith("FAULT"):
            out.append(("tie", "%s model and implementation differ: impl %s / model %s" % (kind, body, model)))
        p = body.split()
        if meta["tb"] and truth == "1" and p[1] == "0":
            if kind == "cmp" and p[2] != "0":
                out.append(("violation", "carquet_statistics_compare says the value is %s the range although the data holds it" % ("below" if p[2] == "-1" else "above")))
            if kind == "ovl" and p[2] != "1":
                out.append(("violation", "carquet_statistics_range_overlaps says no overlap although the data holds a value inside the query range"))
            if kind == "pm" and p[2] != "1":
                out.append(("violation", "carquet_column_index_page_might_match says no match although the page holds a value inside the query range"))
    return out


def run_cases(rep, drv, run, cases, what, dist):
    lines = [c[0] for c in cases]
    impl, p1 = run_sharded(drv, lines)
    model, p2 = run_sharded(run, lines)
    for pr in p1:
        err = pr[2]
        k = max(err.find("ERROR: AddressSanitizer"), err.find("runtime error"))
        err = err[k - 40 if k > 40 else 0:][:700] if k >= 0 else err[-700:]
        rep.violation("%s: implementation driver died (rc=%s) %s" % (what, pr[1], " ".join(err.split())), {"case": pr[3], "meta": {"kind": what}})
    for pr in p2:
        rep.tie_broken("%s: model runner died (rc=%s): %s" % (what, pr[1], pr[2][-300:]), pr[3])
    plain = what.endswith("_plain_allocator")
    for ci_, ((li, meta), a, b) in enumerate(zip(cases, impl, model)):
        rep.count(li)
        dist[what] = dist.get(what, 0) + 1
        if a == "FAULT died":
            continue
        try:
            verdicts = judge(li, meta, a, b)
        except Exception as ex:      # unparsable output of a changed tree is a violation with this case as replay, never a crash
            verdicts = [("violation", "the driver's answer cannot be interpreted (%s: %s): %s" % (type(ex).__name__, ex, a[:300]))]
        for kind, text in verdicts:
            if kind == "violation":
                extra = {"flavour": "plain", "history": lines[max(0, ci_ - 6):ci_]} if plain else {}
                rep.violation(what + ": " + text, dict({"case": li, "meta": meta, "impl": a[:1500], "model": b[:1500]}, **extra))
            else:
                rep.tie_broken(what + ": " + text, {"case": li, "meta": meta})


def run(tier):
    rep = Report(PID, tier)
    rng = random.Random(vlib.SEED * 7919 + 16)
    prelude(rep, PID)
    rep.cov["trusted_base"] = vlib.TRUSTED_BASE_COMMON + [
        "checks/pq_min.py: independent Thrift-compact writer (footers with statistics) and reader (page headers)",
        "ground truth: C operators of the host (gcc, x86-64 SSE2 float semantics) in harness/h_stats.c; floats in the Coq development are bit patterns ordered by a sign-magnitude key - the key is validated against the hardware by the correspondence runs and (finite sample) against Flocq's Bcompare",
        "modelled, not verified: the Thrift encoding/decoding of Statistics (C13), the plain value encoders of the page writer; carquet-written files carry no chunk-level statistics, so the reader API is driven by hand-made footers",
    ]
    rep.cov["rule"] = ("random call sequences on the statistics builder (all 8 physical types; byte arrays of unequal length and around/over the 256-byte "
                       "buffers; NaN, -0.0, infinities, subnormals, signed extremes), page-writer batches with definition levels, footers with 1..9 row "
                       "groups whose statistics are true bounds (new / deprecated / both / loose / absent / half) or deliberately wrong (model agreement only) "
                       "x probes at, next to (+-1, +-1 ulp, +-1 byte) and beyond min/max x all six operators x max_indices around the row-group count; "
                       "compare / overlap / page_might_match with one- and two-sided ranges; files written by the public writer (1-3 row groups, nullable or not) "
                       "whose page headers are parsed back and whose row groups are queried through the public reader; distinct by full case text")
    try:
        drv = build_driver("h_stats")
        run_ = build_runner("stats")
    except vlib.BuildError as e:
        rep.tie_broken("harness does not build against the current tree: " + str(e)[:800])
        return rep.finish()
    dist = {}
    cdir = vlib.VERIF / "corpus" / PID
    if cdir.exists():
        cc = []
        for p in sorted(cdir.glob("*.json")):
            j = json.loads(p.read_text())
            cc.append((j["case"], j["meta"]))
        if cc:
            run_cases(rep, drv, run_, cc, "corpus", dist)
    drv_plain = None
    try:
        drv_plain = build_driver("h_stats", flavour="plain")
    except Exception as e:
        rep.tie_broken("plain (non-sanitizer) driver does not build: " + str(e)[:300])
    for name, gen in (("builder", gen_bld), ("page_writer", gen_pw), ("reader", gen_rd), ("reader_long_stats", gen_rd_long),
                      ("helpers", gen_helpers), ("page_index_from_pages", gen_pmw), ("page_index_histories", gen_pmh),
                      ("page_index_histories_from_pages", gen_pmw_hist), ("page_index_long_prefixes", gen_pm_prefix),
                      ("offset_index", gen_oix)):
        cases = gen(tier, rng)
        run_cases(rep, drv, run_, cases, name, dist)
        if drv_plain is not None and name in ("reader", "reader_long_stats"):
            # the same histories (open file A, query, close, open file B of another type, query the same column index ...) in
            # one process on the SYSTEM allocator: ASan's quarantine never hands a freed block out again, the plain allocator
            # does at once, so state that survives a closed reader (keyed by an address) shows up here
            run_cases(rep, drv_plain, run_, cases, name + "_plain_allocator", dist)
        rep.sample({"op": name, "case": cases[len(cases) // 3][0][:400]})
    fcases = gen_file(tier, rng)
    run_file_cases(rep, drv, run_, fcases, dist)
    rep.sample({"op": "file", "case": fcases[0][0][:400]})
    rep.cov["input_distribution"] = dist
    return rep.finish()


def replay(path):
    j = json.loads(Path(path).read_text())
    r = j.get("replay", {})
    if not isinstance(r, dict) or "case" not in r:
        for x in j.get("no_longer_checks", []):
            if isinstance(x.get("first_case"), dict):
                r = x["first_case"]
                break
    if not isinstance(r, dict) or "case" not in r:
        print(json.dumps(j, indent=1)[:3000])
        return 1
    case, meta = r["case"], r.get("meta") or {"kind": r["case"].split()[0]}
    drv = build_driver("h_stats", flavour="plain") if r.get("flavour") == "plain" else build_driver("h_stats")
    run_ = build_runner("stats")
    if r.get("history"):        # state that survives a closed reader needs the cases before it, in one process
        hout, rc, err = vlib.run_lines(drv, list(r["history"]) + [case], timeout=300)
        out = hout[-1:] if len(hout) == len(r["history"]) + 1 else []
    else:
        out, rc, err = vlib.run_lines(drv, [case], timeout=120)
    mo, _, _ = vlib.run_lines(run_, [case], timeout=300)
    print("case:", case[:800])
    print("implementation:", (out[0] if out else "")[:1500], "rc", rc)
    print("model:         ", (mo[0] if mo else "")[:1500])
    if err:
        print(err[-2500:])
    if rc != 0 or not out:
        return 1
    if meta.get("kind") == "file" and "pw" in meta:
        per, _, _ = vlib.run_lines(run_, meta["pw"], timeout=300)
        res = judge_file(case, meta, out[0], per)
        for kind, text in res:
            print(kind.upper() + ":", text)
        return 1 if res else 0
    if meta.get("kind") not in ("bld", "pw", "rd", "cmp", "ovl", "pm", "pmw", "pmh", "oix"):
        meta = dict(meta, kind={"builder": "bld", "page_writer": "pw", "reader": "rd", "reader_long_stats": "rd", "reader_plain_allocator": "rd", "reader_long_stats_plain_allocator": "rd", "page_index_from_pages": "pmw", "page_index_histories": "pmh", "page_index_histories_from_pages": "pmw", "offset_index": "oix", "page_index_long_prefixes": "pmh"}.get(meta.get("kind"), case.split()[0]))
    try:
        res = judge(case, meta, out[0], mo[0] if mo else "RUNNER-ERROR none")
    except Exception as ex:
        res = [("violation", "the driver's answer cannot be interpreted (%s: %s)" % (type(ex).__name__, ex))]
    for kind, text in res:
        print(kind.upper() + ":", text)
    return 1 if res else 0
