"""Independent reference for the Parquet RLE / bit-packed hybrid and raw bit packing, transcribed from
the Encodings document (used as the oracle of C12 and to generate legal streams carquet never emits).
Shares nothing with carquet or with the Coq model."""


def uleb(x):
    out = bytearray()
    while True:
        b = x & 0x7F
        x >>= 7
        if x:
            out.append(b | 0x80)
        else:
            out.append(b)
            return bytes(out)


def pack_group(w, vals):
    """8 values -> w bytes, values packed LSB first"""
    assert len(vals) == 8
    g = 0
    for i, v in enumerate(vals):
        g |= (v & ((1 << w) - 1)) << (i * w)
    return g.to_bytes(w, "little") if w else b""


def unpack_group(w, bs):
    g = int.from_bytes(bs[:w], "little")
    return [(g >> (i * w)) & ((1 << w) - 1) for i in range(8)]


def enc_runs(w, runs):
    """runs: list of ('R', n, v) | ('L', [vals...]) with len a multiple of 8"""
    out = bytearray()
    vb = (w + 7) // 8
    for r in runs:
        if r[0] == "R":
            out += uleb(r[1] << 1)
            out += (r[2] & ((1 << (8 * vb)) - 1)).to_bytes(vb, "little") if vb else b""
        else:
            vals = r[1]
            assert len(vals) % 8 == 0
            out += uleb(((len(vals) // 8) << 1) | 1)
            for i in range(0, len(vals), 8):
                out += pack_group(w, vals[i:i + 8])
    return bytes(out)


def runs_vals(runs):
    out = []
    for r in runs:
        out += [r[2]] * r[1] if r[0] == "R" else list(r[1])
    return out


def dec_stream(w, bs):
    """decode a whole stream -> list of values (incl. padding) or None if malformed"""
    pos, out = 0, []
    vb = (w + 7) // 8
    n = len(bs)
    while pos < n:
        h, shift = 0, 0
        while True:
            if pos >= n:
                return None
            b = bs[pos]; pos += 1
            h |= (b & 0x7F) << shift
            shift += 7
            if not b & 0x80:
                break
        if h & 1 == 0:
            if pos + vb > n:
                return None
            v = int.from_bytes(bs[pos:pos + vb], "little") & ((1 << w) - 1) if w < 32 else int.from_bytes(bs[pos:pos + vb], "little")
            pos += vb
            out += [v] * (h >> 1)
        else:
            for _ in range(h >> 1):
                if pos + w > n:
                    return None
                out += unpack_group(w, bs[pos:pos + w])
                pos += w
    return out
