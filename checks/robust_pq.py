"""Independent Parquet / Thrift-compact pieces of the robust engine (C18, C04).  Shares no code with carquet.

* Generic Thrift compact codec working on an untyped tree, so that EVERY field of a footer or page header
  can be mutated and re-encoded without knowing the schema:
      struct  = [ [field_id, type, value], ... ]          (a python list of 3-element lists)
      value   = bool | int | bytes (double: 8 bytes, binary) | ('list', etype, [values], declared_or_None)
                | ('map', ktype, vtype, [(k, v), ...]) | struct | Raw(bytes)
* layout(file) -> the outer structure of a Parquet file (magics, footer region, decoded footer tree,
  column chunks, page headers with their positions).
* validate(file) -> (True, "") when the byte string is structurally a complete Parquet file: used as the
  independent oracle for "the prefix is itself a complete Parquet file" (C18).
* build_file(...)  a tiny independent writer (PLAIN and dictionary-encoded pages, uncompressed or gzip) used
  for seed files the carquet writer cannot produce (dictionary pages), for C04.
"""
import struct, zlib

T_STOP, T_TRUE, T_FALSE, T_BYTE, T_I16, T_I32, T_I64, T_DOUBLE, T_BINARY, T_LIST, T_SET, T_MAP, T_STRUCT = range(13)
MAGIC = b"PAR1"


class Raw:
    """Bytes spliced into the encoding verbatim in place of a value."""
    def __init__(self, b):
        self.b = bytes(b)


class ThriftError(Exception):
    pass


# ------------------------------------------------------------------------------------------ decoding

class Dec:
    def __init__(self, data, pos=0, end=None, max_depth=64, max_items=100000):
        self.d, self.p = data, pos
        self.end = len(data) if end is None else end
        self.max_depth, self.max_items = max_depth, max_items
        self.items = 0

    def byte(self):
        if self.p >= self.end:
            raise ThriftError("truncated")
        b = self.d[self.p]
        self.p += 1
        return b

    def varint(self):
        r = s = 0
        while True:
            b = self.byte()
            r |= (b & 0x7F) << s
            if not b & 0x80:
                return r
            s += 7
            if s > 70:
                raise ThriftError("varint too long")

    def zz(self):
        v = self.varint()
        return (v >> 1) ^ -(v & 1)

    def value(self, t, depth):
        if depth > self.max_depth:
            raise ThriftError("nesting too deep")
        self.items += 1
        if self.items > self.max_items:
            raise ThriftError("too many items")
        if t == T_TRUE:
            return True
        if t == T_FALSE:
            return False
        if t == T_BYTE:
            return self.byte()
        if t in (T_I16, T_I32, T_I64):
            return self.zz()
        if t == T_DOUBLE:
            if self.p + 8 > self.end:
                raise ThriftError("truncated double")
            v = bytes(self.d[self.p:self.p + 8])
            self.p += 8
            return v
        if t == T_BINARY:
            n = self.varint()
            if self.p + n > self.end:
                raise ThriftError("truncated binary")
            v = bytes(self.d[self.p:self.p + n])
            self.p += n
            return v
        if t in (T_LIST, T_SET):
            h = self.byte()
            n = h >> 4
            et = h & 0x0F
            if n == 15:
                n = self.varint()
            if n > self.end - self.p and et not in (T_TRUE, T_FALSE):
                raise ThriftError("list longer than the remaining bytes")
            out = []
            for _ in range(n):
                if et in (T_TRUE, T_FALSE):
                    out.append(self.byte() == 1)
                else:
                    out.append(self.value(et, depth + 1))
            return ("list", et, out, None)
        if t == T_MAP:
            n = self.varint()
            if n == 0:
                return ("map", 0, 0, [])
            h = self.byte()
            kt, vt = h >> 4, h & 0x0F
            if n > self.end - self.p:
                raise ThriftError("map longer than the remaining bytes")
            return ("map", kt, vt, [(self.value(kt, depth + 1), self.value(vt, depth + 1)) for _ in range(n)])
        if t == T_STRUCT:
            return self.struct(depth + 1)
        raise ThriftError("bad type %d" % t)

    def struct(self, depth=0):
        if depth > self.max_depth:
            raise ThriftError("nesting too deep")
        fields = []
        last = 0
        while True:
            h = self.byte()
            if h == 0:
                return fields
            t = h & 0x0F
            delta = h >> 4
            fid = last + delta if delta else self.zz()
            last = fid
            if t == T_STOP or t > T_STRUCT:
                raise ThriftError("bad field type %d" % t)
            fields.append([fid, t, self.value(t, depth)])


def decode_struct(data, pos=0, end=None):
    d = Dec(data, pos, end)
    s = d.struct()
    return s, d.p


# ------------------------------------------------------------------------------------------ encoding

def varint(n):
    n &= (1 << 70) - 1
    out = bytearray()
    while True:
        b = n & 0x7F
        n >>= 7
        if n:
            out.append(b | 0x80)
        else:
            out.append(b)
            return bytes(out)


def zz(n, bits=64):
    return ((n << 1) ^ (n >> (bits - 1))) & ((1 << bits) - 1) if n < 0 else (n << 1)


def enc_value(t, v):
    if isinstance(v, Raw):
        return v.b
    if t in (T_TRUE, T_FALSE):
        return b""
    if t == T_BYTE:
        return bytes([v & 0xFF])
    if t in (T_I16, T_I32, T_I64):
        return varint(zz(v))
    if t == T_DOUBLE:
        return bytes(v)
    if t == T_BINARY:
        return varint(len(v)) + bytes(v)
    if t in (T_LIST, T_SET):
        _, et, items, declared = v
        n = len(items) if declared is None else declared
        head = bytes([(n << 4) | et]) if 0 <= n < 15 else bytes([0xF0 | et]) + varint(n)
        body = b""
        for it in items:
            if isinstance(it, Raw):
                body += it.b
            elif et in (T_TRUE, T_FALSE):
                body += bytes([1 if it else 2])
            else:
                body += enc_value(et, it)
        return head + body
    if t == T_MAP:
        _, kt, vt, items = v
        if not items:
            return b"\x00"
        return varint(len(items)) + bytes([(kt << 4) | vt]) + b"".join(enc_value(kt, k) + enc_value(vt, x) for k, x in items)
    if t == T_STRUCT:
        return enc_struct(v)
    raise ThriftError("cannot encode type %r" % t)


def enc_struct(fields):
    if isinstance(fields, Raw):
        return fields.b
    out = bytearray()
    last = 0
    for f in fields:
        if isinstance(f, Raw):
            out += f.b
            continue
        fid, t, v = f
        if t in (T_TRUE, T_FALSE) and not isinstance(v, Raw):
            t = T_TRUE if v else T_FALSE
        delta = fid - last
        if 0 < delta <= 15:
            out.append((delta << 4) | t)
        else:
            out.append(t)
            out += varint(zz(fid, 16) & 0xFFFFFFFF if fid < 0 else zz(fid))
        last = fid
        out += enc_value(t, v)
    out.append(0)
    return bytes(out)


def get(fields, fid, default=None):
    for f in fields:
        if not isinstance(f, Raw) and f[0] == fid:
            return f[2]
    return default


def items(v):
    return v[2] if isinstance(v, tuple) and v and v[0] == "list" else []


# ------------------------------------------------------------------------------------------ file layout

class Layout:
    pass


def layout(data):
    """Outer structure of a byte string that should be a Parquet file.  Raises ThriftError/ValueError."""
    n = len(data)
    if n < 12:
        raise ValueError("shorter than magic + length + magic")
    if data[:4] != MAGIC:
        raise ValueError("no leading magic")
    if data[-4:] != MAGIC:
        raise ValueError("no trailing magic")
    flen = struct.unpack("<I", data[-8:-4])[0]
    if flen > n - 12:
        raise ValueError("footer length does not fit between the magics")
    L = Layout()
    L.n, L.footer_len, L.footer_off = n, flen, n - 8 - flen
    L.footer, endp = decode_struct(data, L.footer_off, n - 8)
    L.footer_used = endp - L.footer_off
    L.schema = items(get(L.footer, 2))
    L.row_groups = items(get(L.footer, 4))
    L.chunks = []          # (rg index, col index, column metadata struct)
    for gi, rg in enumerate(L.row_groups):
        for ci, cc in enumerate(items(get(rg, 1))):
            md = get(cc, 3)
            if md is not None:
                L.chunks.append((gi, ci, md))
    return L


def chunk_pages(data, md, limit_end):
    """Walk the pages of one column chunk: yields (offset, header struct, header size, compressed size)."""
    dict_off = get(md, 11)
    data_off = get(md, 9)
    nvals = get(md, 5, 0)
    pos = dict_off if dict_off is not None and dict_off > 0 else data_off
    seen = 0
    guard = 0
    while seen < nvals and guard < 100000:
        guard += 1
        if pos is None or pos < 4 or pos >= limit_end:
            raise ValueError("page offset %r outside the data area" % pos)
        hdr, endp = decode_struct(data, pos, min(limit_end, pos + 4096))
        ptype = get(hdr, 1)
        csize = get(hdr, 3)
        if csize is None or csize < 0 or endp + csize > limit_end:
            raise ValueError("page at %d: compressed size %r does not fit" % (pos, csize))
        yield pos, hdr, endp - pos, csize
        if ptype == 0:
            dph = get(hdr, 5)
            nv = get(dph, 1, 0) if dph else 0
            if nv <= 0:
                raise ValueError("data page without values")
            seen += nv
        elif ptype == 3:
            dph = get(hdr, 8)
            nv = get(dph, 1, 0) if dph else 0
            if nv <= 0:
                raise ValueError("data page v2 without values")
            seen += nv
        elif ptype == 2:
            pass
        else:
            pass
        pos = endp + csize


def validate(data, pages=True):
    """(True, '') iff data has the complete structure of a Parquet file: magics, fitting footer length, a
    footer that decodes as a Thrift struct with version/schema/num_rows/row_groups and - with pages=True -
    column chunks whose pages lie inside the data area and whose page headers decode."""
    try:
        L = layout(data)
        if get(L.footer, 1) is None or get(L.footer, 3) is None:
            return False, "footer lacks version / num_rows"
        if not L.schema:
            return False, "footer has no schema"
        if get(L.footer, 4) is None:
            return False, "footer has no row group list"
        root = L.schema[0]
        if get(root, 5) is None:
            return False, "schema root has no num_children"
        if pages:
            for gi, ci, md in L.chunks:
                for _ in chunk_pages(data, md, L.footer_off):
                    pass
        return True, ""
    except (ThriftError, ValueError, TypeError, IndexError) as e:
        return False, str(e)


# ------------------------------------------------------------------------------------------ a tiny independent writer

BOOLEAN, INT32, INT64, INT96, FLOAT, DOUBLE, BYTE_ARRAY, FLBA = range(8)
PLAIN, PLAIN_DICTIONARY, RLE, BIT_PACKED = 0, 2, 3, 4
RLE_DICTIONARY = 8
REQUIRED, OPTIONAL, REPEATED = 0, 1, 2
WIDTH = {INT32: 4, INT64: 8, FLOAT: 4, DOUBLE: 8, INT96: 12}


def rle_run(value, count, width):
    """One RLE run (count repetitions of value) of the RLE/bit-packed hybrid."""
    return varint(count << 1) + value.to_bytes((width + 7) // 8, "little")


def bitpacked(values, width):
    """Bit-packed groups of 8 values (padded with zeros)."""
    vals = list(values) + [0] * (-len(values) % 8)
    out = bytearray(varint(((len(vals) // 8) << 1) | 1))
    acc = nbits = 0
    for v in vals:
        acc |= v << nbits
        nbits += width
        while nbits >= 8:
            out.append(acc & 0xFF)
            acc >>= 8
            nbits -= 8
    if nbits:
        out.append(acc & 0xFF)
    return bytes(out)


def levels_block(levels, maxlevel):
    width = max(1, maxlevel.bit_length())
    body = bitpacked(levels, width)
    return struct.pack("<I", len(body)) + body


def plain(ptype, values, tlen=0):
    if ptype == BYTE_ARRAY:
        return b"".join(struct.pack("<I", len(v)) + v for v in values)
    if ptype == BOOLEAN:
        out = bytearray((len(values) + 7) // 8)
        for i, v in enumerate(values):
            if v:
                out[i // 8] |= 1 << (i % 8)
        return bytes(out)
    return b"".join(values)      # fixed-width values are given as raw little-endian bytes


def page_header(ptype, usize, csize, inner_fid, inner, crc=None):
    f = [[1, T_I32, ptype], [2, T_I32, usize], [3, T_I32, csize]]
    if crc is not None:
        f.append([4, T_I32, crc if crc < 2 ** 31 else crc - 2 ** 32])
    f.append([inner_fid, T_STRUCT, inner])
    return enc_struct(f)


def compress(codec, b):
    if codec == 0:
        return b
    if codec == 2:
        c = zlib.compressobj(6, zlib.DEFLATED, 31)
        return c.compress(b) + c.flush()
    raise ValueError("codec %d not available in the independent writer" % codec)


def build_file(columns, codec=0, with_crc=False, created_by=b"robust_pq", schema_elems=None, kv=None, extras=False):
    """columns: list of dicts {name, type, rep, tlen, rows (values or None), dict (bool), enc}
    One row group, one data page (+ optional dictionary page) per column.
    Nested schemas: give schema_elems = [(name, type or None, repetition or None, num_children, tlen), ...]
    (depth-first, root first) and per column "levels" (definition levels, one per row), "max_def" and
    "path" (list of names); rows then holds the present values only."""
    out = bytearray(MAGIC)
    nrows = (len(columns[0]["levels"]) if "levels" in columns[0] else len(columns[0]["rows"])) if columns else 0
    chunks = []
    for col in columns:
        t, rep = col["type"], col.get("rep", REQUIRED)
        rows = col["rows"]
        present = [v for v in rows if v is not None]
        nrows_col = len(col["levels"]) if "levels" in col else len(rows)
        start = len(out)
        dict_off = None
        if col.get("dict"):
            uniq = []
            for v in present:
                if v not in uniq:
                    uniq.append(v)
            dbody = plain(t, uniq, col.get("tlen", 0))
            cbody = compress(codec, dbody)
            dict_off = len(out)
            out += page_header(2, len(dbody), len(cbody), 7, [[1, T_I32, len(uniq)], [2, T_I32, PLAIN_DICTIONARY]],
                               zlib.crc32(cbody) if with_crc else None)
            out += cbody
            width = max(1, (len(uniq) - 1).bit_length()) if uniq else 1
            idx = [uniq.index(v) for v in present]
            vbody = bytes([width]) + bitpacked(idx, width)
            enc = col.get("enc", PLAIN_DICTIONARY)
        else:
            vbody = plain(t, present, col.get("tlen", 0))
            enc = PLAIN
        body = b""
        if "rep_levels" in col:
            body += levels_block(col["rep_levels"], col["max_rep"])
        if "levels" in col:
            body += levels_block(col["levels"], col["max_def"])
        elif rep == OPTIONAL:
            body += levels_block([0 if v is None else 1 for v in rows], 1)
        body += vbody
        cbody = compress(codec, body)
        data_off = len(out)
        out += page_header(0, len(body), len(cbody), 5,
                           [[1, T_I32, nrows_col], [2, T_I32, enc], [3, T_I32, RLE], [4, T_I32, RLE]],
                           zlib.crc32(cbody) if with_crc else None)
        out += cbody
        md = [[1, T_I32, t], [2, T_LIST, ("list", T_I32, [PLAIN, RLE] + ([PLAIN_DICTIONARY] if dict_off is not None else []), None)],
              [3, T_LIST, ("list", T_BINARY, [x.encode() for x in col.get("path", [col["name"]])], None)], [4, T_I32, codec],
              [5, T_I64, nrows_col], [6, T_I64, len(out) - start], [7, T_I64, len(out) - start],
              [9, T_I64, data_off]]
        if dict_off is not None:
            md.append([11, T_I64, dict_off])
        if extras:            # encoding_stats: list<PageEncodingStats{page_type, encoding, count}>
            md.append([13, T_LIST, ("list", T_STRUCT, [[[1, T_I32, 0], [2, T_I32, enc], [3, T_I32, 1]]], None)])
        chunks.append([[2, T_I64, start], [3, T_STRUCT, md]])
    schema = [[[4, T_BINARY, b"schema"], [5, T_I32, len(columns)]]]
    if schema_elems is not None:
        schema = []
        for se in schema_elems:
            (nm, ty, rp, nch, tl) = se[:5]
            e = []
            if ty is not None:
                e.append([1, T_I32, ty])
                if ty == FLBA:
                    e.append([2, T_I32, tl])
            if rp is not None:
                e.append([3, T_I32, rp])
            e.append([4, T_BINARY, nm.encode()])
            if ty is None:
                e.append([5, T_I32, nch])
            if len(se) > 5 and se[5] is not None:
                e.append([10, T_STRUCT, se[5]])           # LogicalType union, given as a decoded struct
            schema.append(e)
    for col in (columns if schema_elems is None else []):
        e = [[1, T_I32, col["type"]]]
        if col["type"] == FLBA:
            e.append([2, T_I32, col.get("tlen", 0)])
        e += [[3, T_I32, col.get("rep", REQUIRED)], [4, T_BINARY, col["name"].encode()]]
        schema.append(e)
    rg = [[1, T_LIST, ("list", T_STRUCT, chunks, None)], [2, T_I64, len(out) - 4], [3, T_I64, nrows]]
    if extras:                # file_offset, total_compressed_size, ordinal
        rg += [[5, T_I64, 4], [6, T_I64, len(out) - 4], [7, T_I16, 0]]
    ff = [[1, T_I32, 1], [2, T_LIST, ("list", T_STRUCT, schema, None)], [3, T_I64, nrows],
          [4, T_LIST, ("list", T_STRUCT, [rg], None)]]
    if kv:
        ff.append([5, T_LIST, ("list", T_STRUCT, [[[1, T_BINARY, k], [2, T_BINARY, v]] for k, v in kv], None)])
    ff.append([6, T_BINARY, created_by])
    footer = enc_struct(ff)
    out += footer + struct.pack("<I", len(footer)) + MAGIC
    return bytes(out)


if __name__ == "__main__":
    import sys
    for p in sys.argv[1:]:
        b = open(p, "rb").read()
        print(p, len(b), validate(b))
        s, e = decode_struct(b, len(b) - 8 - struct.unpack("<I", b[-8:-4])[0], len(b) - 8)
        assert enc_struct(s) == b[len(b) - 8 - struct.unpack("<I", b[-8:-4])[0]:len(b) - 8], "re-encoding differs"
