"""C14 - page checksums are IEEE CRC-32 and page damage is always detected.

Proof: coq/theories/Props/Properties_C14.v (13 theorems; model Util/Crc32Model.v, spec Util/Crc32Spec.v).
Tie:   (a) CRC32_POLY regenerated from src/util/crc32.c; the guard of every carquet_crc32 call site of
       src/reader/page_reader.c translated to Gallina (tools/gen.d/crcsites.py -> Gen/CrcSites_gen.v) and proved
       equal to the model's decision (Util/Crc32Sites.v); (b) carquet_crc32/_update vs extracted model vs
       extracted bit-serial spec vs zlib crc32() on every length 0..N x alignments x random splits;
       file level: every bit of every page body of generated files x {fread, mmap, buffer} must be
       reported as an error with verification on, and handled memory-safely with verification off.
"""
import random, json, sys
from pathlib import Path
import vlib
from vlib import Report, prelude, build_driver, build_runner, run_sharded, hexs, log

PID = "C14"


def gen_cases(tier, rng):
    cases = []
    maxlen = 600
    aligns = range(16) if tier == "thorough" else None
    for n in range(0, maxlen + 1):
        data = bytes(rng.getrandbits(8) for _ in range(n))
        als = aligns if aligns is not None else [n % 16, rng.randrange(16)]
        for al in als:
            cases.append(("crc", al, data))
    # structured contents: all-zero, all-ones, single set bit (leading zero sensitivity), long inputs
    for n in (1, 7, 8, 9, 15, 16, 17, 63, 64, 65, 255, 256, 257, 1023, 1024, 4096 + 5):
        cases.append(("crc", rng.randrange(16), bytes(n)))
        cases.append(("crc", rng.randrange(16), b"\xff" * n))
        b = bytearray(n); b[rng.randrange(n)] = 1 << rng.randrange(8)
        cases.append(("crc", rng.randrange(16), bytes(b)))
    nlong = 40 if tier == "thorough" else 8
    for _ in range(nlong):
        n = rng.randrange(601, 20000)
        cases.append(("crc", rng.randrange(16), bytes(rng.getrandbits(8) for _ in range(n))))
    nsplit = 3000 if tier == "thorough" else 600
    for _ in range(nsplit):
        n = rng.choice([0, 1, 2, 7, 8, 9, 15, 16, 17, 31, 32, 33]) if rng.random() < 0.3 else rng.randrange(0, 300)
        data = bytes(rng.getrandbits(8) for _ in range(n))
        k = rng.choice([0, n, min(n, 8), max(0, n - 8)]) if rng.random() < 0.3 else rng.randrange(0, n + 1)
        cases.append(("crcupd", k, data))
    # any chunking (crc_update_any_chunking): 0..6 cuts, equal cuts give empty pieces, pieces around the 8-byte
    # main-loop group size, everything through carquet_crc32_update from state 0
    nchain = 2500 if tier == "thorough" else 500
    for _ in range(nchain):
        n = rng.choice([0, 1, 7, 8, 9, 16, 17, 24, 64]) if rng.random() < 0.25 else rng.randrange(0, 400)
        data = bytes(rng.getrandbits(8) for _ in range(n))
        ncut = rng.randrange(0, 7)
        if rng.random() < 0.3:
            cuts = sorted(rng.choice([0, n, min(n, 8), min(n, 7), min(n, 9), max(0, n - 8), max(0, n - 1)]) for _ in range(ncut))
        else:
            cuts = sorted(rng.randrange(0, n + 1) for _ in range(ncut))
        cases.append(("crcchain", ",".join(map(str, cuts)) if cuts else "-", data))
    return cases


def line_of(c):
    return f"{c[0]} {c[1]} {hexs(c[2])}"


def check_pure(rep, tier, rng, drv, run):
    cases = gen_cases(tier, rng)
    lines = [line_of(c) for c in cases]
    impl, p1 = run_sharded(drv, lines)
    model, p2 = run_sharded(run, lines)
    for pr in p1:
        rep.violation(f"implementation driver died (rc={pr[1]}): {pr[2][-600:]}", {"case": pr[3]}, key=None)
    for pr in p2:
        rep.tie_broken(f"model runner died (rc={pr[1]}): {pr[2][-300:]}", pr[3])
    dist = {"crc": 0, "crcupd": 0, "crcchain": 0}
    for c, li, a, b in zip(cases, lines, impl, model):
        rep.count(li, nontrivial=len(c[2]) > 0)
        dist[c[0]] += 1
        at, bt = a.split(), b.split()
        if c[0] == "crc":
            # property oracle, independent of the model: carquet == zlib
            if len(at) != 3 or at[0] != "OK" or at[1] != at[2]:
                rep.violation(f"carquet_crc32 differs from zlib crc32 (IEEE 802.3): {a}", {"case": li, "impl": a})
            if len(bt) != 3 or bt[1] != bt[2]:
                rep.tie_broken(f"extracted model and extracted bit-serial specification differ: {b}", li)
            elif at[:2] != bt[:2]:
                rep.tie_broken(f"Crc32Model.crc32 differs from carquet_crc32: model {b} / impl {a}", li)
        elif c[0] == "crcchain":
            import zlib
            want = "%x" % (zlib.crc32(c[2]) & 0xFFFFFFFF)
            if at != ["OK", want]:
                rep.violation(f"carquet_crc32_update over the pieces cut at [{c[1]}] != CRC-32 of the whole {len(c[2])}-byte buffer: got {a}, want {want}",
                              {"case": li, "impl": a})
            if bt != ["OK", want]:
                rep.tie_broken(f"model update chain differs: {b} want {want}", li)
        else:
            # compose law on the implementation: update(crc(a), b) must equal the one-shot CRC of the
            # whole (computed here with zlib through python)
            import zlib
            want = "%x" % (zlib.crc32(c[2]) & 0xFFFFFFFF)
            if at != ["OK", want]:
                rep.violation(f"crc32_update(crc32(a), b) != crc32(a||b): got {a}, want {want}", {"case": li, "impl": a})
            if bt != ["OK", want]:
                rep.tie_broken(f"model update differs: {b} want {want}", li)
    rep.sample({"op": "crc", "align": cases[37][1], "bytes": hexs(cases[37][2])})
    rep.sample({"op": "crcupd", "split": cases[-1][1], "bytes": hexs(cases[-1][2])})
    rep.cov["input_distribution"] = dist


def check_big(rep, tier, rng):
    """Lengths beyond 2^32 ("every input, length"): size_t vs 32-bit arithmetic in the length handling.
    Uses the optimised (non-sanitizer) build: 4 GiB of mostly untouched zero pages."""
    try:
        drv = build_driver("h_util", flavour="plain", libs=["-lxxhash"])
    except vlib.BuildError as e:
        rep.tie_broken("plain-flavour harness does not build: " + str(e)[:300]); return
    sizes = [(1 << 32) + 29] if tier == "quick" else [(1 << 32) + 29, (1 << 32) - 3, (1 << 33) + 8 * 7 + 5]
    for n in sizes:
        line = "crcbig %d %d" % (n, rng.randrange(1, 1 << 30))
        out, rc, err = vlib.run_lines(drv, [line], timeout=900)
        rep.count(line)
        t = out[0].split() if out else []
        if rc != 0 or len(t) != 4 or t[0] != "OK":
            rep.tie_broken("crcbig could not run (rc=%s): %s %s" % (rc, out, err[-200:]), line)
        elif not (t[1] == t[2] == t[3]):
            rep.violation("one-shot CRC of a %d-byte buffer: carquet %s, zlib %s, carquet update chain %s" % (n, t[1], t[2], t[3]),
                          {"case": line, "impl": out[0], "flavour": "plain"})
    rep.cov.setdefault("input_distribution", {})["crc_over_4GiB"] = len(sizes)


def check_sizes(rep, tier, rng, drv):
    """Lengths at which a size-dependent path could switch (powers of two +-1 up to 4 MiB / 64 MiB, multiples of
    4096 and 65536, random large): carquet one-shot and update chain vs zlib, contents generated in the driver."""
    lines = []
    kmax = 22 if tier == "quick" else 26
    for k in range(9, kmax + 1):
        for d in (-1, 0, 1):
            n = (1 << k) + d
            lines.append("crcgen %d %d %d %d" % (n, rng.randrange(1, 1 << 31), rng.choice([0, 0, 1, 3, 7, 8, 13]),
                                                 rng.choice([0, n // 2, (1 << (k - 1)), n - 1, rng.randrange(0, n + 1)])))
    for _ in range(30 if tier == "quick" else 200):
        n = rng.choice([4096, 65536, 32768, 1000]) * rng.randrange(1, 40) + rng.choice([0, 0, 1, -1, 7])
        lines.append("crcgen %d %d %d %d" % (n, rng.randrange(1, 1 << 31), rng.randrange(16), rng.randrange(0, n + 1)))
    impl, p1 = run_sharded(drv, lines)
    for pr in p1:
        rep.violation(f"implementation driver died (rc={pr[1]}): {pr[2][-600:]}", {"case": pr[3]}, key=None)
    for li, a in zip(lines, impl):
        rep.count(li)
        t = a.split()
        if len(t) != 4 or t[0] != "OK":
            rep.tie_broken("crcgen could not run: " + a[:200], li)
        elif not (t[1] == t[2] == t[3]):
            rep.violation("CRC of a %s-byte buffer: carquet one-shot %s, zlib crc32 (IEEE 802.3) %s, carquet update chain %s"
                          % (li.split()[1], t[1], t[2], t[3]), {"case": li, "impl": a})
    rep.cov.setdefault("input_distribution", {})["crc_size_thresholds"] = len(lines)


def run(tier):
    rep = Report(PID, tier)
    rng = random.Random(vlib.SEED * 7919 + 14)
    prelude(rep, PID)
    rep.cov["trusted_base"] = vlib.TRUSTED_BASE_COMMON + [
        "zlib 1.2.13 crc32() as an independent oracle for IEEE CRC-32 (validation of Crc32Spec, not a proof)",
        "modelled, not verified: src/util/crc32.c (slicing-by-8 tables, main loop, tail, update); the reader's accept/reject decision on a stored page CRC is modelled by hand (page_crc_ok) and tied to every carquet_crc32 call site of src/reader/page_reader.c by a translator",
        "translator tools/gen.d/crcsites.py (regular-expression/recursive-descent reading of the `if` condition around each carquet_crc32 call into a Gallina boolean function; checks the length argument, the uint32 view of the stored field and the rejecting comparison textually); it does not follow data flow (a guard computed into a variable first is reported as a broken tie, not translated)",
    ]
    rep.cov["rule"] = ("every length 0..600 x alignments (quick: 2 per length, thorough: all 16) with random contents, "
                       "structured contents (zeros, ones, one set bit), long random inputs, random two-way splits for update; "
                       "lengths 2^k-1, 2^k, 2^k+1 for k = 9..22 (thorough ..26) and multiples of 4096/32768/65536 with driver-generated contents "
                       "(one-shot and update chain vs zlib), one buffer above 4 GiB; non-trivial = non-empty input; distinct by full case text")
    try:
        drv = build_driver("h_util", libs=["-lxxhash"])
        run_ = build_runner("util")
    except vlib.BuildError as e:
        rep.tie_broken("harness does not build against the current tree: " + str(e)[:500])
        return rep.finish()
    check_pure(rep, tier, rng, drv, run_)
    check_sizes(rep, tier, rng, drv)
    check_big(rep, tier, rng)
    try:
        import c14_file
        c14_file.check_files(rep, tier, rng)
    except ImportError:
        pass
    return rep.finish()


def replay(path):
    j = json.loads(Path(path).read_text())
    if "file_case" in j.get("replay", {}):
        import c14_file
        return c14_file.replay_file(j["replay"])
    case = j.get("replay", {}).get("case")
    if not case:
        print(json.dumps(j, indent=1))
        return 1
    drv = build_driver("h_util", libs=["-lxxhash"], flavour=j["replay"].get("flavour", "san"))
    out, rc, err = vlib.run_lines(drv, [case], timeout=900)
    print("case:", case)
    print("implementation:", out, "rc", rc)
    if err:
        print(err[-2000:])
    t = out[0].split() if out else []
    bad = rc != 0 or not t or t[0] != "OK" or (len(t) == 3 and t[1] != t[2]) or (len(t) == 4 and not (t[1] == t[2] == t[3]))
    ct = case.split()
    if ct[0] in ("crcupd", "crcchain") and len(ct) in (2, 3):
        import zlib
        want = "%x" % (zlib.crc32(bytes.fromhex(ct[2]) if len(ct) == 3 else b"") & 0xFFFFFFFF)
        print("IEEE CRC-32 of the whole buffer (zlib):", want)
        bad = bad or t != ["OK", want]
    return 1 if bad else 0
