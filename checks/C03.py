"""C03 - file, mmap and in-memory-buffer reading are observationally equivalent.

Proof: coq/theories/Props/Properties_C03.v (models Reader/IoModeModel.v, Reader/CursorModel.v, Reader/BatchModel.v: the
       I/O mode is a parameter that selects the branches the code selects).
Tie:   the C02 driver (harness/h_reader.c) run once per mode - carquet_reader_open (stdio), carquet_reader_open with
       use_mmap, carquet_reader_open_buffer - on the same files: every codec, mixes of zero-copy eligible (REQUIRED,
       fixed width, uncompressed, PLAIN) and non-eligible columns, several pages per chunk, several row groups,
       dictionary-encoded files from tools/pq.py, verify_checksums on and off; metadata dump, column-reader histories
       and all batches (every batch_size 1..rows+1, many projections) are compared BYTE FOR BYTE across the three modes:
       that comparison is the property's oracle.  The lifetime clause is observed, not proved: the driver keeps every
       batch, re-reads every byte of every column (zero-copy views included) after all later calls and just before the
       reader is closed, under ASan.  The extracted models replay the same lines (model tie), and the footer-location
       model is tied on damaged heads / tails / length fields.
"""
import random, json, sys, itertools, importlib.util
from pathlib import Path
sys.path.insert(0, str(Path(__file__).resolve().parent))
import vlib
from vlib import Report, prelude, build_driver, build_runner, run_sharded, log
import reader_common as rc
from reader_common import Col, FileSpec

_spec = importlib.util.spec_from_file_location("c02_for_c03", Path(__file__).resolve().parent / "C02.py")
C02 = importlib.util.module_from_spec(_spec)
_spec.loader.exec_module(C02)

PID = "C03"
ENV = C02.ENV
MODES = "fmb"
MAXV = 40


def files(tier, rng):
    """file descriptions: carquet-written (PLAIN) and pq.py-written (dictionary) ones"""
    out = []
    thorough = tier == "thorough"

    def mk(codec, coldefs, rg_rows, maxpages=3, dict_enc=None):
        cols = [Col("c%d_%s" % (i, t.replace("?", "")), t.rstrip("?"), t.endswith("?")) for i, t in enumerate(coldefs)]
        rgs, base = [], 0
        for n in rg_rows:
            rg = []
            for c in cols:
                sizes = rng.choice(rc.compositions(n, maxpages))
                mask = []
                for s in sizes:
                    mask += rc.safe_nullmask(s, rng) if c.nullable else [False] * s
                rg.append(rc.make_chunk(c.typ, mask, sizes, base=base))
            rgs.append(rg)
            base += n
        fs = FileSpec(codec, cols, rgs, dict_encoded=(dict_enc not in (None, "PLAIN")))
        if dict_enc:
            fs.use_bytes(rc.pq_bytes(fs, encoding=dict_enc, crc=True, rng=rng))
        return fs

    # every codec x a mix with eligible and non-eligible columns, several pages per chunk
    mixes = [["i32", "i32?", "ba", "f64"], ["i64", "bool", "fl3?", "f32"], ["ba?", "i64", "i32?"], ["f64", "f32", "i32", "i64"]]
    for ci, codec in enumerate(rc.CODECS.values()):
        out.append(mk(codec, mixes[ci % len(mixes)], [rng.randrange(3, 7), rng.randrange(1, 5)]))
    out.append(mk(0, ["i32", "i32?"], [5]))                  # the F7 layout
    out.append(mk(0, ["i32?", "i64", "f64"], [6]))           # non-eligible column first
    out.append(mk(0, ["fl3", "ba"], [4, 3, 2]))
    for enc, codec in (("RLE_DICTIONARY", 0), ("PLAIN_DICTIONARY", 1), ("PLAIN", 0), ("RLE_DICTIONARY", 6)):
        try:
            out.append(mk(codec, ["i64", "i32?", "ba?"], [rng.randrange(3, 7)], dict_enc=enc))
        except Exception as e:
            log(f"C03: pq.py cannot write {enc}/{codec}: {e}")
    tys = ["i32", "i64", "f32", "f64", "bool", "ba", "fl3", "i32?", "i64?", "f64?", "ba?", "bool?", "fl3?"]
    for _ in range(80 if thorough else 30):
        nc = rng.randrange(1, 5)
        out.append(mk(rng.choice(list(rc.CODECS.values())), [rng.choice(tys) for _ in range(nc)],
                      [rng.randrange(1, 8) for _ in range(rng.randrange(1, 4))]))
    return out


def gen_cases(tier, rng, fls):
    """list of groups; a group = the same request in the three modes"""
    groups = []
    thorough = tier == "thorough"
    for fs in fls:
        nc = len(fs.cols)
        for verify in (1, 0):
            groups.append([C02.Case(kind="meta", fs=fs, mode=m, tag="meta", line=f"meta {m} {verify} {fs.impl_text()}", mline=None)
                           for m in MODES])
            for g in range(len(fs.rgs)):
                for c in range(nc):
                    n = len(fs.rows(g, c))
                    hs = rc.histories(min(n, 5), min(n, 5) + 1) if n else [()]
                    picks = [((("r", n + 1),))] + rng.sample(hs, min(len(hs), 80 if thorough else 25))
                    for h in picks:
                        if not h:
                            continue
                        ops = rc.ops_text(h)
                        groups.append([C02.col_case(fs, g, c, m, ops, "col", verify=verify) for m in MODES])
            rows_max = max(sum(len(p) for p in rg[0]) for rg in fs.rgs)
            projs = [("all", list(range(nc)))]
            for k in range(1, min(nc, 3) + 1):
                for sel in itertools.permutations(range(nc), k):
                    projs.append(("i:" + ",".join(map(str, sel)), list(sel)))
            projs += [("n:" + ",".join(fs.cols[i].name for i in sel), list(sel))
                      for sel in itertools.permutations(range(nc), min(nc, 2))]
            if not thorough and len(projs) > 24:
                projs = projs[:4] + rng.sample(projs[4:], 20)
            for bs in range(1, rows_max + 2):
                for proj, pcols in projs:
                    groups.append([C02.bat_case(fs, m, bs, proj, pcols, "bat", verify=verify) for m in MODES])
    return groups


def corpus_groups():
    """the witnesses of the findings (corpus/C03/*.json), each request in the three modes"""
    groups = []
    for f in sorted((vlib.VERIF / "corpus" / PID).glob("*.json")):
        for w in json.loads(f.read_text()):
            fs = C02.spec_from_text(w["spec"])
            if w.get("impl_hex"):
                fs._impl = "x:" + w["impl_hex"]
            for r in w["requests"]:
                if r[0] == "col":
                    groups.append([C02.col_case(fs, r[1], r[2], m, r[3], "corpus") for m in MODES])
                else:
                    groups.append([C02.bat_case(fs, m, r[1], r[2], C02.proj_cols(fs, r[2]), "corpus") for m in MODES])
    return groups


def file_bytes(drv, fs):
    """the bytes of a file description (written by carquet through the driver, or already given)"""
    if fs._impl is not None:
        return bytes.fromhex(fs._impl[2:])
    out, rcode, err = vlib.run_lines(drv, [f"hex {fs.text()}"], env=ENV)
    t = out[0].split() if out else []
    return bytes.fromhex(t[1]) if len(t) == 2 and t[0] == "OK" else None


def clone_with_bytes(fs, data):
    g = FileSpec(fs.codec, fs.cols, fs.rgs, dict_encoded=fs.dict_encoded)
    g._text = fs.text()
    return g.use_bytes(data)


def requests_for(fs, opts, rng, tag):
    """metadata dump, one-shot read + one history of the first and the last column, two batch configurations -
    each in the three modes with the reader options `opts` (the text after the mode in a case line)"""
    groups = [[C02.Case(kind="meta", fs=fs, mode=m, tag=tag, line=f"meta {m} {opts} {fs.impl_text()}", mline=None) for m in MODES]]
    nc = len(fs.cols)
    for c in sorted({0, nc - 1}):
        n = len(fs.rows(0, c))
        for h in ((("r", n + 1),), rng.choice(rc.histories(min(n, 4), min(n, 4) + 1)) if n else None):
            if h:
                groups.append([C02.col_case(fs, 0, c, m, rc.ops_text(h), tag, verify=opts) for m in MODES])
    for bs in (2, 64):
        groups.append([C02.bat_case(fs, m, bs, "all", list(range(nc)), tag, verify=opts) for m in MODES])
    return groups


def option_and_footer_groups(drv, tier, rng, fls):
    """(a) every field of carquet_reader_options_t that is not the mode itself is swept: buffer_size around the footer
    length (and 1, 7, 8, 9, 4096, 65536), num_threads 0/1/3/16, verify_checksums 0/1;
    (b) the same small files with the footer padded (created_by) to lengths at and around powers of two and around
    the default buffer_size of 64 KiB.  All three modes must agree on every request."""
    thorough = tier == "thorough"
    groups = []
    srcs = []
    for fs in fls:
        if len(srcs) >= (4 if thorough else 3):
            break
        if len(fs.rgs[0][0]) and sum(len(p) for p in fs.rgs[0][0]) >= 2 and (fs._impl is None) == (len(srcs) != 2):
            b = file_bytes(drv, fs)
            if b:
                srcs.append((fs, b))
    for fs, b in srcs:
        g = clone_with_bytes(fs, b)
        fl = rc.footer_len(b)
        sizes = sorted({1, 7, 8, 9, 4096, 65536, len(b) - 1, len(b), len(b) + 1} | set(range(max(fl - 8, 0), fl + 17)))
        for bsz in sizes:
            for verify in ((1, 0) if bsz in (fl, fl + 8, 8) else (1,)):
                groups += requests_for(g, f"{verify},b{bsz}", rng, "options")
        for th in (0, 1, 3, 16):
            groups += requests_for(g, f"1,t{th}", rng, "options")
            groups += requests_for(g, f"0,b{fl + 3},t{th}", rng, "options")
    # (b) footer lengths
    fs, b = srcs[0]
    targets = set(range(65536 - 9, 65536 + 10))
    for k in range(8, 16):
        targets |= {2 ** k + d for d in ((-9, -8, -7, -1, 0, 1, 7, 8, 9) if (thorough or k in (12, 15)) else (-8, -1, 0, 8))}
    for t in sorted(targets):
        pb = rc.pad_footer(b, t)
        if pb is None:
            continue
        g = clone_with_bytes(fs, pb)
        groups += requests_for(g, "1", rng, "footerlen")
        p2 = 1 << (t - 1).bit_length() if t > 1 else 1
        for bsz in sorted({p2, p2 // 2} - {65536}):
            if abs(bsz - t) <= 16:
                groups += requests_for(g, f"1,b{bsz}", rng, "footerlen")
    return groups


EXPECT = {}      # case line -> the exact result line the ground truth of the file demands (one-shot reads of pq.py files)


def raw_col(f, m, opts, rg, col, ops, tag):
    return C02.Case(kind="col", fs=f, rg=rg, col=col, mode=m, ops=ops, tag=tag, mline=None,
                    line=f"col {m} {opts} {f.impl_text()} {rg} {col} {ops}")


def raw_bat(f, m, opts, bs, proj, tag):
    return C02.Case(kind="bat", fs=f, mode=m, bs=bs, proj=proj, pcols=None, tag=tag, mline=None,
                    line=f"bat {m} {opts} {f.impl_text()} {bs} {proj}")


def nested_groups(tier, rng):
    """nested schemas (the carquet writer cannot produce them): REQUIRED leaf inside an OPTIONAL group, inside a
    REPEATED group, 3-level LIST; fixed width + PLAIN + uncompressed in particular.  Column reader (one-shot read
    compared with the writer's ground truth, histories compared across modes) and batch reader, checksums on/off."""
    groups = []
    thorough = tier == "thorough"
    for f in rc.nested_files(rng, thorough):
        ncol = len(f.names)
        for opts in ("1", "0"):
            for c in range(ncol):
                defs, reps, vals = f.truth[0][c]
                md, mr = f.levels[c]
                n = len(defs)
                g = [raw_col(f, m, opts, 0, c, f"r{n + 1}", "nested") for m in MODES]
                for x in g:
                    EXPECT[x.line] = "OK " + rc.expected_oneshot(defs, reps, vals, md, mr)
                groups.append(g)
                for _ in range(6 if thorough else 3):
                    h, pos = [], 0
                    while pos < n:
                        k = rng.randrange(1, 4)
                        h.append((rng.choice("rrsq"), k))
                        pos += k
                    groups.append([raw_col(f, m, opts, 0, c, rc.ops_text(tuple(h)), "nested") for m in MODES])
            # by name: the leaf's own name (carquet_schema_find_column matches leaf element names; the dotted paths its
            # documentation promises are not implemented - schema.c, reported to the owner of C17)
            projs = [f"i:{c}" for c in range(ncol)] + [f"n:{f.names[c].split('.')[-1]}" for c in range(ncol)]
            if not f.has_repeated():
                projs.append("all")
            for bs in (1, 2, 3, 4, 100):
                for proj in projs:
                    groups.append([raw_bat(f, m, opts, bs, proj, "nested") for m in MODES])
    return groups


def placement_files(tier, rng):
    """chunks at the very start / very end of the data area, in particular a dictionary-encoded LAST chunk whose
    dictionary page is bigger than footer + 8 bytes (single column, single row group: the footer is small)"""
    out = []
    big_ba = [bytes([65 + i % 26]) * 56 + b"%04d" % i for i in range(40)]           # 40 x 60 bytes: 2.5 KiB dictionary
    rows_ba = [big_ba[(i * 7) % 40] for i in range(48)]
    big_i64 = [(1000003 * (i + 1)).to_bytes(8, "little") for i in range(300)]       # 300 x 8 bytes
    small_i32 = [rc.value("i32", i) for i in range(48)]
    def pages(vals, sizes):
        o, i = [], 0
        for sz in sizes:
            o.append(list(vals[i:i + sz])); i += sz
        return o
    layouts = [
        ("ba-dict-only", [Col("s", "ba", False)], [pages(rows_ba, [48])]),
        ("ba-dict-only-3p", [Col("s", "ba", False)], [pages(rows_ba, [10, 30, 8])]),
        ("i64-dict-only", [Col("k", "i64", False)], [pages(big_i64, [300])]),
        ("i64-dict-only-null", [Col("k", "i64", True)], [pages([None if i % 5 == 2 else v for i, v in enumerate(big_i64)], [100, 200])]),
        ("small-then-bigdict", [Col("a", "i32", False), Col("s", "ba", False)], [pages(small_i32, [48]), pages(rows_ba, [20, 28])]),
        ("bigdict-then-small", [Col("s", "ba", False), Col("a", "i32", True)], [pages(rows_ba, [48]), pages([None if i % 4 == 1 else v for i, v in enumerate(small_i32)], [24, 24])]),
    ]
    for label, cols, rg in layouts:
        for enc, codec in (("RLE_DICTIONARY", 0), ("PLAIN_DICTIONARY", 1), ("PLAIN", 0)):
            if enc == "PLAIN" and not label.startswith("small") and tier != "thorough":
                continue
            fs = FileSpec(codec, cols, [rg], dict_encoded=(enc != "PLAIN"))
            try:
                fs.use_bytes(rc.pq_bytes(fs, encoding=enc, crc=True, rng=rng))
            except Exception as e:
                log(f"C03: pq.py cannot write {label} {enc}/{codec}: {e}")
                continue
            out.append(fs)
    return out


def placement_groups(tier, rng):
    groups = []
    for fs in placement_files(tier, rng):
        for opts in ("1", "0"):
            groups += requests_for(fs, opts, rng, "placement")
            for c in range(len(fs.cols)):
                n = len(fs.rows(0, c))
                g = [C02.col_case(fs, 0, c, m, f"r{n + 1}", "placement", verify=opts) for m in MODES]
                for x in g:
                    EXPECT[x.line] = "OK " + f"r{n}:" + ".".join(rc.tok(r) for r in fs.rows(0, c))
                groups.append(g)
    return groups


def special_groups(tier, rng):
    """coverage audit: INT96, unannounced dictionary page, mixed PLAIN / dictionary chunks (view <-> owned buffer
    transitions of load_next_page_mmap), empty row groups; reader options = NULL"""
    groups = []
    fl = []
    for fs, kw in C02.special_pq_specs(rng):
        try:
            fl.append(fs.use_bytes(rc.pq_bytes(fs, rng=rng, **dict(dict(crc=True), **kw))))
        except Exception as e:
            log(f"C03: pq.py cannot write {kw}: {e}")
    fl.append(C02.empty_rowgroup_file(rng))
    for fs in fl:
        for opts in ("1", "0", "d"):
            groups += requests_for(fs, opts, rng, "special")
            for g in range(len(fs.rgs)):
                for c in range(len(fs.cols)):
                    n = len(fs.rows(g, c))
                    grp = [C02.col_case(fs, g, c, m, f"r{n + 1}", "special", verify=opts) for m in MODES]
                    for x in grp:
                        EXPECT[x.line] = "OK " + (f"r{n}:" + ".".join(rc.tok(r) for r in fs.rows(g, c)) if n else "r0")
                    groups.append(grp)
            for bs in (1, 3, "d"):
                groups.append([C02.bat_case(fs, m, bs, "all", list(range(len(fs.cols))), "special", verify=opts) for m in MODES])
            for proj in ("i0", "n0"):
                groups.append([C02.bat_case(fs, m, 2, proj, list(range(len(fs.cols))), "special", verify=opts) for m in MODES])
            if opts != "d":
                # other column readers of the same chunks lived on the handle before / are re-created in between
                n0 = len(fs.rows(0, 0))
                groups.append([C02.bat_case(fs, m, 2, "all", list(range(len(fs.cols))), "special", verify=opts + ",p1") for m in MODES])
                groups.append([C02.col_case(fs, 0, 0, m, f"r1,n,r{n0 + 1},n,s1,r{n0 + 1},m", "special", verify=opts) for m in MODES])
        # projections the file cannot satisfy: the same refusal in the three modes
        nc = len(fs.cols)
        for proj, want in ((f"i:0,{nc}", "OK E61 L1"), (f"i:{nc + 2}", "OK E61 L1"), (f"n:{fs.cols[0].name}_", "ERR create 61"),
                           (f"n:{fs.cols[0].name},nosuchcolumn", "ERR create 61")):
            grp = [C02.bat_case(fs, m, 2, proj, None, "special") for m in MODES]
            for x in grp:
                x.mline = None if proj.startswith("n:") and False else x.mline
                EXPECT[x.line] = want
            groups.append(grp)
    return groups, fl


FIXED_ZC = ("i32", "i64", "f32", "f64", "i96")


def zc_cases(files, raws):
    """carquet_reader_can_zero_copy: true exactly for mmap readers and chunks that are uncompressed, PLAIN encoded, of a
    fixed-width type other than BOOLEAN and without definition levels (its documentation); false for every chunk in
    the other modes and for indices outside the file"""
    out = []
    for fs in files:
        elig = []
        for g in range(len(fs.rgs)):
            for c, col in enumerate(fs.cols):
                e = fs.codec == 0 and not fs.dict_encoded and not col.nullable and (col.typ in FIXED_ZC or col.typ.startswith("fl"))
                elig.append(f"g{g}c{c}={1 if e else 0}")
        for m in MODES:
            want = f"OK mmap={1 if m == 'm' else 0} " + " ".join(x if m == "m" else x[:-1] + "0" for x in elig) + " out=0000"
            out.append((f"zc {m} 1 {fs.impl_text()}", want))
    for f in raws:
        plain = "-UNCOMPRESSED-PLAIN-" in f.label
        elig = [f"g0c{c}={1 if (plain and md == 0) else 0}" for c, (md, mr) in enumerate(f.levels)]
        for m in MODES:
            want = f"OK mmap={1 if m == 'm' else 0} " + " ".join(x if m == "m" else x[:-1] + "0" for x in elig) + " out=0000"
            out.append((f"zc {m} 1 {f.impl_text()}", want))
    return out


def footer_cases(drv, tier, rng, fls):
    """(line, expectation) for the footer-location tie.  expectation: 'ok' (a valid file), 'fail' (no mode may open
    it), 'head' (leading magic damaged: stdio does not look at it), None (whatever)"""
    srcs = []
    hexl = [f"hex {fs.text()}" for fs in fls if fs._impl is None][:3]
    out, rcode, err = vlib.run_lines(drv, hexl, env=ENV)
    for o in out:
        t = o.split()
        if len(t) == 2 and t[0] == "OK":
            srcs.append(bytes.fromhex(t[1]))
    for fs in fls:
        if fs._impl is not None:
            srcs.append(bytes.fromhex(fs._impl[2:]))
            break
    cases = []
    for b in srcs:
        fsz = int.from_bytes(b[-8:-4], "little")
        truth = (len(b) - 8 - fsz, fsz)
        def add(data, exp):
            for m in MODES:
                cases.append((f"foot {m} {data.hex() if data else '-'}", exp, truth if exp in ("ok", "head") else None))
        add(b, "ok")
        for i in range(4):
            add(b[:i] + bytes([b[i] ^ 0x20]) + b[i + 1:], "head")
            j = len(b) - 4 + i
            add(b[:j] + bytes([b[j] ^ 0x01]) + b[j + 1:], "fail")
        for bad in (len(b) - 7, len(b), 0xFFFFFFFF, 0x80000000):
            add(b[:-8] + (bad & 0xFFFFFFFF).to_bytes(4, "little") + b[-4:], "fail")
        for n in (0, 1, 4, 8, 11):
            add(b[:n // 2] + b[len(b) - (n - n // 2):] if n else b"", "fail")
        add(b"PAR1" + bytes(4) + b"PAR1", None)
    return cases


class Tally:
    def __init__(self, rep):
        self.rep, self.n = rep, 0

    def violation(self, what, replay, key=None):
        if self.rep.violation(what, replay, key=key) is False:
            return
        self.n += 1
        if self.n > MAXV and self.rep.violations:
            self.rep.violations.pop()


def run(tier):
    rep = Report(PID, tier)
    rng = random.Random(vlib.SEED * 7919 + 3)
    prelude(rep, PID)
    rep.cov["trusted_base"] = vlib.TRUSTED_BASE_COMMON + [
        "files come from carquet's own writer and from tools/pq.py (independent writer, dictionary pages)",
        "modelled, not verified: which branches depend on the I/O mode (load_next_page dispatch on mmap_data, the zero-copy view and its eligibility rule, the batch reader's mmap_info test, the three footer readers); footer parsing after location and page decoding are mode independent code (C13, C01/C06)",
        "lifetime of zero-copy data until the reader is closed: observed by the driver under ASan (every byte of every batch column re-read just before close), not proved; mmap(2) semantics of the OS are outside the model",
    ]
    rep.cov["rule"] = ("each request (metadata dump | column-reader history | batch_size x projection) is issued in the three I/O "
                       "modes on the same file, with verify_checksums on and off; files: 6 codecs x type mixes with zero-copy "
                       "eligible and non-eligible columns, 1..3 pages per chunk, 1..3 row groups, dictionary-encoded files from "
                       "tools/pq.py; reader options sweep (buffer_size 1,7,8,9, footer_len-8..+16, file size, 4096, 65536; "
                       "num_threads 0,1,3,16; checksums on/off) and footers padded to lengths at and around 2^8..2^16; "
                       "nested schemas from tools/pq.py (REQUIRED leaf in OPTIONAL / REPEATED group, 3-level LIST; fixed width, "
                       "PLAIN, uncompressed and compressed) with one-shot reads compared with the writer's ground truth; "
                       "dictionary-encoded first / last chunks with dictionaries bigger than the footer; "
                       "evaluations = requests x 3; non-trivial = everything but metadata dumps; footer tie on "
                       "damaged heads, tails and length fields")
    try:
        drv = build_driver("h_reader")
    except vlib.BuildError as e:
        rep.tie_broken("harness does not build against the current tree: " + str(e)[:500])
        return rep.finish()
    # tie (a): which reader options reach the code at all
    try:
        gspec = importlib.util.spec_from_file_location("gen_reader", vlib.VERIF / "tools" / "gen.d" / "reader.py")
        gmod = importlib.util.module_from_spec(gspec)
        gspec.loader.exec_module(gmod)
        used = gmod.reader_options_read(vlib.REPO)
        rep.cov["reader_options_read_by_src_reader"] = used
        extra = sorted(set(used) - {"use_mmap", "verify_checksums"})
        if extra:
            rep.tie_broken("src/reader now reads reader option(s) " + ", ".join(f"{k} ({'/'.join(used[k])})" for k in extra) +
                           ": a configuration the I/O-mode model (Reader/IoModeModel.v) does not have; the options sweep of "
                           "this check still searches for a failing input")
    except Exception as e:
        rep.tie_broken("tools/gen.d/reader.py could not list the reader options the code reads: " + str(e)[:200])
    fls = files(tier, rng)
    EXPECT.clear()
    sg, sfiles = special_groups(tier, rng)
    groups = (corpus_groups() + gen_cases(tier, rng, fls) + option_and_footer_groups(drv, tier, rng, fls) +
              nested_groups(tier, rng) + placement_groups(tier, rng) + sg)
    cases = [c for g in groups for c in g]
    lines = [c.line for c in cases]
    log(f"C03: {len(groups)} requests x 3 modes")
    impl, deaths = rc.run_resilient(drv, lines, env=ENV)
    tally = Tally(rep)
    died = {d[0]: d for d in deaths if d[0] is not None}
    for d in deaths:
        if d[0] is None:
            tally.violation(f"driver reported a problem at exit (rc={d[1]}): {d[2][-700:]}", {"case": None})
    dist = {}
    k = 0
    for g in groups:
        outs = impl[k:k + 3]
        k += 3
        for c in g:
            rep.count(c.line, nontrivial=c.kind != "meta")
        dist[g[0].tag] = dist.get(g[0].tag, 0) + 1
        dead = [c for c, o in zip(g, outs) if o.startswith("FAULT died")]
        if dead:
            c = dead[0]
            tally.violation(f"the reader died in mode {c.mode} (rc={died.get(c.line, (0, '?', ''))[1]}): "
                            f"{rc.asan_summary(died.get(c.line, (0, 0, ''))[2])}", {"case": c.line, "modes": [x.line for x in g]})
            continue
        if any(o.startswith("FAULT") for o in outs):
            continue
        if not (outs[0] == outs[1] == outs[2]):
            diff = [m for m, o in zip(MODES, outs) if o != outs[0]]
            tally.violation(
                f"{g[0].kind}: the three I/O modes deliver different results (mode(s) {','.join(diff)} differ from stdio): "
                f"f={outs[0][:300]} m={outs[1][:300]} b={outs[2][:300]}",
                {"case": g[1 if 'm' in diff else 2].line, "modes": [x.line for x in g], "got": outs})
        elif g[0].line not in EXPECT and not outs[0].startswith("OK"):
            tally.violation(f"{g[0].kind}: a valid file is refused in every mode: {outs[0][:200]}", {"case": g[0].line})
        elif g[0].line in EXPECT and outs[0] != EXPECT[g[0].line]:
            tally.violation(f"{g[0].kind}: all three modes agree but deliver something else than the file holds (ground truth of "
                            f"the independent writer): got {outs[0][:300]}, file holds {EXPECT[g[0].line][:300]}", {"case": g[0].line})
        elif g[0].kind == "meta" and not outs[0].endswith(" gx=62:62"):
            tally.violation("meta: carquet_reader_row_group_metadata accepts a row group index outside the file (expected "
                            f"ROW_GROUP_NOT_FOUND for -1 and for num_row_groups): ...{outs[0][-40:]}", {"case": g[0].line})
        elif g[0].kind == "bat" and g[0].line not in EXPECT and outs[0].startswith("OK") and not outs[0].endswith(" E63 L1") \
                and outs[0].endswith(" L1"):
            tally.violation(f"bat: the batch stream of a valid file and configuration ends with a status other than END_OF_DATA in "
                            f"every mode: {outs[0][-60:]}", {"case": g[0].line, "got": outs})
        elif g[0].kind == "bat" and outs[0].startswith("OK") and not outs[0].endswith(" L1"):
            tally.violation("data handed out in a batch changed before the reader was closed", {"case": g[0].line, "got": outs})
    rep.cov["input_distribution"] = dist
    rep.cov["violations_total"] = tally.n
    for c in (cases[0], cases[len(cases) // 2], cases[-1]):
        rep.sample({"case": c.line[:400]})
    # ---- model tie: column and batch requests
    try:
        runner = build_runner("reader")
    except vlib.BuildError as e:
        rep.tie_broken("model runner does not build: " + str(e)[:600])
        return rep.finish()
    sel = [(i, c) for i, c in enumerate(cases) if c.kind != "meta" and c.mline is not None]
    model, probs = run_sharded(runner, [c.mline for _, c in sel], timeout=3000)
    for pr in probs:
        rep.tie_broken(f"model runner died (rc={pr[1]}): {pr[2][-300:]}", pr[3])
    bad = 0
    for (i, c), b in zip(sel, model):
        if impl[i] != b and not impl[i].startswith("FAULT"):
            bad += 1
            if bad <= 5:
                rep.tie_broken(f"extracted model and implementation print different lines: model {b[:300]} / impl {impl[i][:300]}", c.line)
    rep.cov["model_tie_mismatches"] = bad
    # ---- carquet_reader_can_zero_copy against its documented rule
    zcs = zc_cases(fls + sfiles + placement_files(tier, random.Random(vlib.SEED)), rc.nested_files(random.Random(vlib.SEED), False))
    zo, zd = rc.run_resilient(drv, [z[0] for z in zcs], env=ENV)
    for (line, want), got in zip(zcs, zo):
        rep.count(line)
        if got != want:
            tally.violation(f"carquet_reader_can_zero_copy disagrees with its documented rule (mmap reader, uncompressed, PLAIN, "
                            f"fixed-width non-BOOLEAN type, no definition levels): got {got[:200]}, rule gives {want[:200]}",
                            {"case": line, "got": got, "want": want})
    rep.cov["zero_copy_query_cases"] = len(zcs)
    # ---- footer location
    fcs = footer_cases(drv, tier, rng, fls)
    flines = [x[0] for x in fcs]
    fi, fd = rc.run_resilient(drv, flines, env=ENV)
    fm, _ = run_sharded(runner, flines)
    for (line, exp, truth), a, b in zip(fcs, fi, fm):
        rep.count(line)
        mode = line.split()[1]
        if a.startswith("FAULT"):
            tally.violation("the reader died while opening these bytes", {"case": line})
            continue
        if exp == "ok" and a != "OK":
            tally.violation(f"a valid file cannot be opened in mode {mode}", {"case": line})
        mt = b.split()
        located = mt[0] == "OK"
        if not located and a == "OK":
            rep.tie_broken("footer-location model rejects bytes the implementation opens", line)
        if located and truth and (int(mt[1]), int(mt[2])) == truth and a != "OK":
            rep.tie_broken("footer-location model finds the genuine footer but the implementation refuses the file", line)
        if exp == "fail" and a == "OK":
            rep.tie_broken("bytes with a damaged tail / impossible footer length are opened", line)
    rep.cov["footer_cases"] = len(fcs)
    return rep.finish()


def replay(path):
    j = json.loads(Path(path).read_text())
    r = j.get("replay", {})
    drv = build_driver("h_reader")
    lines = r.get("modes") or ([r["case"]] if r.get("case") else [])
    if not lines:
        print(json.dumps(j, indent=1))
        return 1
    if len(lines) == 1 and lines[0].split()[0] == "zc":
        out, deaths = rc.run_resilient(drv, lines, env=ENV, shards=1)
        print("case:", lines[0][:300]); print("  ->", out[0]); print("rule:", r.get("want")); print("what:", j.get("what"))
        return 0 if out[0] == r.get("want") else 1
    if len(lines) == 1 and lines[0].split()[0] in ("col", "bat", "meta"):
        t = lines[0].split()
        lines = [" ".join([t[0], m] + t[2:]) for m in MODES]
    out, deaths = rc.run_resilient(drv, lines, env=ENV, shards=1)
    for l, o in zip(lines, out):
        print("case:", l[:300])
        print("  ->", o)
    for d in deaths:
        print(d[2][-3000:])
    print("what:", j.get("what"))
    if deaths or any(o.startswith("FAULT") for o in out):
        return 1
    if lines[0].startswith("foot"):
        return 0 if all(o == out[0] for o in out) else 1
    return 0 if all(o == out[0] for o in out) and out[0].startswith("OK") else 1
